import RsslVerif.Driver.Util
import RsslVerif.Driver.C01
import RsslVerif.Driver.C02
import RsslVerif.Driver.C03
import RsslVerif.Driver.C04
import RsslVerif.Driver.C05
import RsslVerif.Driver.C06
import RsslVerif.Driver.C07
import RsslVerif.Driver.C08
import RsslVerif.Driver.C09
import RsslVerif.Driver.C10
import RsslVerif.Driver.C11
import RsslVerif.Driver.C12
import RsslVerif.Driver.C13
import RsslVerif.Driver.C14
import RsslVerif.Driver.C15
import RsslVerif.Driver.C16
import RsslVerif.Driver.C17
import RsslVerif.Driver.C18
import RsslVerif.Driver.C19
/-!
`rsslmodel`: reads request lines `<Prop>.<op>\t<arg>\t...` on stdin and prints one observation line
per request.  Core-only imports (no Mathlib anywhere below `Driver/`), so it links as a `lean_exe`.
-/
open RsslVerif.Driver

def dispatch (line : String) : String :=
  match fields line with
  | op :: args =>
    if op.startsWith "C01." then C01.handle op args
    else if op.startsWith "C02." then C02.handle op args
    else if op.startsWith "C03." then C03.handle op args
    else if op.startsWith "C04." then C04.handle op args
    else if op.startsWith "C05." then C05.handle op args
    else if op.startsWith "C06." then C06.handle op args
    else if op.startsWith "C07." then C07.handle op args
    else if op.startsWith "C08." then C08.handle op args
    else if op.startsWith "C09." then C09.handle op args
    else if op.startsWith "C10." then C10.handle op args
    else if op.startsWith "C11." then C11.handle op args
    else if op.startsWith "C12." then C12.handle op args
    else if op.startsWith "C13." then C13.handle op args
    else if op.startsWith "C14." then C14.handle op args
    else if op.startsWith "C15." then C15.handle op args
    else if op.startsWith "C16." then C16.handle op args
    else if op.startsWith "C17." then C17.handle op args
    else if op.startsWith "C18." then C18.handle op args
    else if op.startsWith "C19." then C19.handle op args
    else "unsupported-op"
  | [] => "bad-request"

partial def loop (h : IO.FS.Stream) (out : IO.FS.Stream) : IO Unit := do
  let line ← h.getLine
  if line.isEmpty then return ()
  let line := if line.endsWith "\n" then (line.dropEnd 1).toString else line
  out.putStrLn (dispatch line)
  loop h out

def main : IO Unit := do
  let out ← IO.getStdout
  loop (← IO.getStdin) out
  out.flush

"""C13 — compile-time constant evaluation matches run-time semantics."""
T = "RsslVerif.Thm.C13."


def nontrivial(req, obs):
    # an operator or cast applied to something, with a definite outcome
    return req.count("(op ") + req.count("(cast ") >= 1


def finding_key(req, obs, detail):
    import re
    m = re.match(r"FAIL:panic ([^:]+):\d+: (.*)$", detail or "")
    if m:
        return "panic %s: %s" % (m.group(1), re.sub(r"\d+", "N", m.group(2)))
    # one call site, one finding: Constant::to_uint64 lets negative literals through as array lengths
    if re.match(r"FAIL:array recorded len:\d+ for an expression whose value is L-\d+ ", detail or ""):
        return "array length: negative literal accepted (Constant::to_uint64, ir/src/ir_types.rs)"
    return req.split("\tsrc:")[0]


def _subtrees(s):
    """top-level operand s-expressions of the outermost node of the tree in s"""
    out, depth, start = [], 0, None
    for i, c in enumerate(s):
        if c == "(":
            depth += 1
            if depth == 2:
                start = i
        elif c == ")":
            if depth == 2 and start is not None:
                out.append(s[start:i + 1])
                start = None
            depth -= 1
    return out


def shrink(req):
    f = req.split("\t")
    if f[0] != "C13.eval" or len(f) < 2:
        return
    tree = f[1]
    # replace the tree by one of its operand subtrees (drops the source annotation)
    for sub in _subtrees(tree):
        yield "C13.eval\t" + sub
    # replace one operand subtree by one of *its* operands
    for sub in _subtrees(tree):
        for subsub in _subtrees(sub):
            yield "C13.eval\t" + tree.replace(sub, subsub, 1)


SPEC = {
    "id": "C13",
    "gens": ["EvalTable"],
    "lean_modules": ["RsslVerif.Thm.C13"],
    "theorems": [T + n for n in ["consteval_no_panic", "tables_panic_free", "consteval_agrees", "div_mod_zero_not_constant",
        "div_mod_zero_not_constant_expr", "literal_exact", "literal_neg_exact"]],
    "harness": "c13",
    "nontrivial": nontrivial,
    "finding_key": finding_key,
    "shrink": shrink,
    "level_text": "Proof (in progress): model of evaluate_constexpr/evaluate_operator/evaluate_cast whose per-arm arithmetic "
                  "is re-extracted from the source each run; theorems against a BitVec-32 / exact-integer specification.",
    "rule": "requests = IR expression trees (module lookups inlined) evaluated by the real evaluate_constexpr: "
            "(1) depth-1 trees over boundary operands, (2) kind-consistent random trees to depth 5, (3) arbitrary trees, "
            "(4) trees obtained by type-checking generated source expressions; non-trivial = contains an operator or cast",
    "trusted_base": [
        "Lean 4.33 kernel; axioms propext / Classical.choice / Quot.sound only (audited by #print axioms)",
        "tools/gens/c13.py (EvalTable) re-run on /repo's working tree every time",
        "hand-written Model/ConstEval.lean; tied to the code by the correspondence run",
        "Model/ConstEvalFloat.lean: IEEE-754 primitives (given, exercised by the correspondence run)",
        "Spec/HlslConst.lean: our reading of the HLSL rules",
    ],
    "assumptions": [],
}

//! Declarations without a body in the re-parsed emitted text (function prototypes), read by the C++ / HLSL rules.
//!
//! The converters (`conv.rs`, `vconv.rs`) give a prototype the body `(unsupported NoBody)`; before this pass existed a
//! module that contained one was silently outside the text oracle.  `merge` checks the declarations against each other
//! and hands the evaluators a module of definitions only:
//!   * a prototype and the definition of the same name and parameter types must agree on the return type;
//!   * a default argument belongs to the function, whichever declaration gives it (C++ [dcl.fct.default]): the
//!     definition receives the defaults of its prototypes; a default given twice for one parameter is ill-formed;
//!   * a function must be declared (prototype or definition) before the body that calls it;
//!   * a call must supply at least the parameters without default and at most all parameters of the (unique) function of
//!     that name — an emitted `h(x)` for `int h(int a, int b)` without default is ill-formed HLSL, not a "stuck" evaluation;
//!   * a function is defined once;
//!   * a prototype that is never defined declares nothing the evaluators can run; it is dropped (a call of it is stuck).
#![allow(dead_code)]

use super::sx::*;
use std::collections::HashMap;

fn is_fn(x: &Sx) -> bool {
    x.head() == "fn" && x.args().len() >= 4
}

pub fn is_proto(x: &Sx) -> bool {
    is_fn(x) && x.args()[3].head() == "unsupported" && x.args()[3].args().first().map(|w| w.atom() == "NoBody").unwrap_or(false)
}

fn sig(x: &Sx) -> (String, Vec<String>) {
    let ps = x.args()[2]
        .args()
        .iter()
        .map(|p| if p.head() == "p" && p.args().len() >= 3 { format!("{} {}", p.args()[1].show(), p.args()[2].show()) } else { p.show() })
        .collect();
    (x.args()[0].atom().to_string(), ps)
}

fn calls<'s>(e: &'s Sx, out: &mut Vec<(&'s str, usize)>) {
    if let Sx::L(items) = e {
        if e.head() == "call" && items.len() >= 2 {
            if let Sx::A(n) = &items[1] {
                out.push((n.as_str(), items.len() - 2));
            }
        }
        for i in items {
            calls(i, out);
        }
    }
}

/// how many prototypes does the module declare?
pub fn count(items: &[Sx]) -> usize {
    items.iter().filter(|x| is_proto(x)).count()
}

pub fn merge(items: Vec<Sx>) -> Result<Vec<Sx>, String> {
    let mut items = items;
    // ---- one definition per signature (a prototype exported with its body would define the function twice)
    {
        let defs: Vec<(String, Vec<String>)> = items.iter().filter(|x| is_fn(x) && !is_proto(x)).map(sig).collect();
        for (i, d) in defs.iter().enumerate() {
            if defs[..i].contains(d) {
                return Err(format!("{} ({}) is defined twice", d.0, d.1.join(", ")));
            }
        }
    }
    // ---- every prototype against its definition
    let n = items.len();
    for i in 0..n {
        if !is_proto(&items[i]) {
            continue;
        }
        let s = sig(&items[i]);
        let j = match (0..n).find(|&j| is_fn(&items[j]) && !is_proto(&items[j]) && sig(&items[j]) == s) {
            Some(j) => j,
            None => {
                // same name, other parameter types: the text declares a function the definition does not define
                if let Some(j) = (0..n).find(|&j| is_fn(&items[j]) && !is_proto(&items[j]) && items[j].args()[0] == items[i].args()[0]) {
                    let same_arity = items[j].args()[2].args().len() == items[i].args()[2].args().len();
                    if same_arity && (0..n).filter(|&k| is_fn(&items[k]) && !is_proto(&items[k]) && items[k].args()[0] == items[i].args()[0]).count() == 1 {
                        return Err(format!("the prototype of {} ({}) and its definition ({}) declare different parameters", s.0, s.1.join(", "), sig(&items[j]).1.join(", ")));
                    }
                }
                continue;
            }
        };
        if items[i].args()[1] != items[j].args()[1] {
            return Err(format!("the prototype of {} returns {}, its definition {}", s.0, items[i].args()[1].show(), items[j].args()[1].show()));
        }
        let pp: Vec<Sx> = items[i].args()[2].args().to_vec();
        let mut dp: Vec<Sx> = items[j].args()[2].args().to_vec();
        for (k, p) in pp.iter().enumerate() {
            if p.head() != "p" || dp[k].head() != "p" {
                continue;
            }
            if let Some(d) = p.args().get(3) {
                if dp[k].args().len() > 3 {
                    return Err(format!("the default argument of parameter {} of {} is given by two declarations", p.args()[0].show(), s.0));
                }
                if let Sx::L(v) = &mut dp[k] {
                    v.push(d.clone());
                }
            }
        }
        if let Sx::L(v) = &mut items[j] {
            v[3] = node("params", dp);
        }
    }
    // ---- declared before use, and enough arguments
    let mut first_decl: HashMap<String, usize> = HashMap::new();
    let mut defs_by_name: HashMap<String, Vec<usize>> = HashMap::new();
    for (i, x) in items.iter().enumerate() {
        if is_fn(x) {
            let nm = x.args()[0].atom().to_string();
            first_decl.entry(nm.clone()).or_insert(i);
            if !is_proto(x) {
                defs_by_name.entry(nm).or_default().push(i);
            }
        }
    }
    let type_names: Vec<&str> = items.iter().filter(|x| matches!(x.head(), "struct" | "enum")).map(|x| x.args()[0].atom()).collect();
    for (i, x) in items.iter().enumerate() {
        if !is_fn(x) || is_proto(x) {
            continue;
        }
        let mut cs = Vec::new();
        calls(&x.args()[3], &mut cs);
        // a parameter or local of the caller may hide the function: leave those to the evaluators
        let hidden = |nm: &str| x.args()[2].args().iter().any(|p| p.head() == "p" && p.args()[0].atom() == nm) || x.args()[3].show().contains(&format!("(d {} ", nm));
        for (nm, nargs) in cs {
            if type_names.contains(&nm) || hidden(nm) {
                continue;
            }
            if let Some(&d) = first_decl.get(nm) {
                if d > i {
                    return Err(format!("{} is called in {} before it is declared", nm, x.args()[0].atom()));
                }
            }
            if let Some(ds) = defs_by_name.get(nm) {
                if ds.len() == 1 {
                    let ps = items[ds[0]].args()[2].args();
                    if ps.iter().all(|p| p.head() == "p") {
                        let required = ps.iter().take_while(|p| p.args().len() <= 3).count();
                        if nargs < required || nargs > ps.len() {
                            return Err(format!(
                                "call of {} with {} argument(s) in {}: the emitted declarations of {} take {} parameter(s), {} of them without a default argument",
                                nm,
                                nargs,
                                x.args()[0].atom(),
                                nm,
                                ps.len(),
                                required
                            ));
                        }
                    }
                }
            }
        }
    }
    Ok(items.into_iter().filter(|x| !is_proto(x)).collect())
}

/// does the typed module declare a function (prototype) for which no implementation exists — the function itself, or, for a
/// function template, one of its instantiations?  The exporter refuses such a module (`GenerateError::FunctionNotDefined`:
/// parameter declarations live in the implementation, so even the prototype cannot be printed).
pub fn has_undefined_declaration(m: &rssl::ir::Module) -> bool {
    use rssl::ir;
    let reg = &m.function_registry;
    m.root_definitions.iter().any(|rd| match rd {
        ir::RootDefinition::FunctionDeclaration(id) | ir::RootDefinition::Function(id) => {
            let is_template = !reg.get_function_signature(*id).template_params.is_empty();
            if is_template {
                reg.iter().any(|c| match reg.get_template_instantiation_data(c) {
                    Some(d) => d.parent_id == *id && reg.get_function_implementation(c).is_none(),
                    None => false,
                })
            } else {
                reg.get_function_implementation(*id).is_none()
            }
        }
        _ => false,
    })
}

/// `precise` forbids value-changing optimisation of what is computed into the declared object; it has no effect on the
/// evaluators, so the exporter dropping / moving it would be invisible to them.  Positions of the `precise` declarations of
/// a function, IR side: parameters by index, local declarators by pre-order ordinal.
pub fn precise_of_ir(m: &rssl::ir::Module, id: rssl::ir::FunctionId) -> Vec<String> {
    use rssl::ir;
    let mut out = Vec::new();
    let imp = match m.function_registry.get_function_implementation(id) {
        Some(i) => i,
        None => return out,
    };
    for (i, p) in imp.params.iter().enumerate() {
        if p.precise {
            out.push(format!("param:{}", i));
        }
    }
    fn walk(m: &ir::Module, b: &ir::ScopeBlock, n: &mut usize, out: &mut Vec<String>) {
        for s in &b.0 {
            match &s.kind {
                ir::StatementKind::Var(d) => {
                    if m.variable_registry.get_local_variable(d.id).precise {
                        out.push(format!("local:{}", *n));
                    }
                    *n += 1;
                }
                ir::StatementKind::Block(b) | ir::StatementKind::If(_, b) | ir::StatementKind::While(_, b) | ir::StatementKind::DoWhile(b, _) | ir::StatementKind::Switch(_, b) => walk(m, b, n, out),
                ir::StatementKind::For(init, _, _, b) => {
                    if let ir::ForInit::Definitions(ds) = init {
                        for d in ds {
                            if m.variable_registry.get_local_variable(d.id).precise {
                                out.push(format!("local:{}", *n));
                            }
                            *n += 1;
                        }
                    }
                    walk(m, b, n, out);
                }
                ir::StatementKind::IfElse(_, t, f) => {
                    walk(m, t, n, out);
                    walk(m, f, n, out);
                }
                _ => {}
            }
        }
    }
    let mut n = 0;
    walk(m, &imp.scope_block, &mut n, &mut out);
    out
}

/// the same positions in an exported function (the exporter's own tree, not re-parsed)
pub fn precise_of_ast(f: &rssl_ast::FunctionDefinition) -> Vec<String> {
    use rssl_ast as ast;
    let has = |t: &ast::Type| t.modifiers.modifiers.iter().any(|m| m.node == ast::TypeModifier::Precise);
    let mut out = Vec::new();
    for (i, p) in f.params.iter().enumerate() {
        if has(&p.param_type) {
            out.push(format!("param:{}", i));
        }
    }
    fn var(d: &ast::VarDef, n: &mut usize, out: &mut Vec<String>) {
        let pr = d.local_type.modifiers.modifiers.iter().any(|m| m.node == ast::TypeModifier::Precise);
        for _ in &d.defs {
            if pr {
                out.push(format!("local:{}", *n));
            }
            *n += 1;
        }
    }
    fn walk(s: &ast::Statement, n: &mut usize, out: &mut Vec<String>) {
        match &s.kind {
            ast::StatementKind::Var(d) => var(d, n, out),
            ast::StatementKind::Block(b) => b.iter().for_each(|x| walk(x, n, out)),
            ast::StatementKind::If(_, b) | ast::StatementKind::While(_, b) | ast::StatementKind::DoWhile(b, _) | ast::StatementKind::Switch(_, b) => walk(b, n, out),
            ast::StatementKind::For(init, _, _, b) => {
                if let ast::InitStatement::Declaration(d) = init {
                    var(d, n, out);
                }
                walk(b, n, out);
            }
            ast::StatementKind::IfElse(_, t, f) => {
                walk(t, n, out);
                walk(f, n, out);
            }
            ast::StatementKind::CaseLabel(_, st) | ast::StatementKind::DefaultLabel(st) => walk(st, n, out),
            _ => {}
        }
    }
    let mut n = 0;
    if let Some(b) = &f.body {
        b.iter().for_each(|x| walk(x, &mut n, &mut out));
    }
    out
}

/// `precise` struct members of the typed module (`struct index:member index`) …
pub fn precise_members_of_ir(m: &rssl::ir::Module) -> Vec<String> {
    let mut out = Vec::new();
    for (si, sd) in m.struct_registry.iter().enumerate() {
        for (mi, mem) in sd.members.iter().enumerate() {
            if mem.precise {
                out.push(format!("{}:{}", sd.name.node, mi));
            }
        }
        let _ = si;
    }
    out.sort();
    out
}

/// … and of an exported module (by struct name : declarator ordinal)
pub fn precise_members_of_ast(m: &rssl_ast::Module) -> Vec<String> {
    use rssl_ast as ast;
    fn walk(defs: &[ast::RootDefinition], out: &mut Vec<String>) {
        for rd in defs {
            match rd {
                ast::RootDefinition::Struct(s) => {
                    let mut k = 0;
                    for e in &s.members {
                        if let ast::StructEntry::Variable(mem) = e {
                            let pr = mem.ty.modifiers.modifiers.iter().any(|m| m.node == ast::TypeModifier::Precise);
                            for _ in &mem.defs {
                                if pr {
                                    out.push(format!("{}:{}", s.name.node, k));
                                }
                                k += 1;
                            }
                        }
                    }
                }
                ast::RootDefinition::Namespace(_, inner) => walk(inner, out),
                _ => {}
            }
        }
    }
    let mut out = Vec::new();
    walk(&m.root_definitions, &mut out);
    out.sort();
    out
}

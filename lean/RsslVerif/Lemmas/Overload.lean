import RsslVerif.Spec.Overload
/-! Helper lemmas for C16: the lexicographic order of count vectors, the `best_order` fold, permutation
invariance of each stage of `resolveRanked`. Core Lean only. -/
namespace RsslVerif.Lemmas.Overload
open RsslVerif.Gen.RankTable RsslVerif.Model.Conv RsslVerif.Model.Overload RsslVerif.Spec.Overload

/-! ## tables -/

theorem isWorse_iff (c a : NumRank) : isWorse c a = true ↔ a.order < c.order := by
  cases c <;> cases a <;> decide

theorem isWorse_false_iff (c a : NumRank) : isWorse c a = false ↔ c.order ≤ a.order := by
  cases c <;> cases a <;> decide

theorem order_eq_badness (r : NumRank) : r.order = numBadness r := by
  cases r <;> rfl

theorem order_zero_iff (r : NumRank) : r.order = 0 ↔ r = .exact := by
  cases r <;> decide

/-! ## `Vec<usize>` order -/

theorem lexLt_irrefl : ∀ a, lexLt a a = false
  | [] => rfl
  | x :: xs => by simp [lexLt, lexLt_irrefl xs]

theorem lexLt_trans : ∀ a b c, lexLt a b = true → lexLt b c = true → lexLt a c = true
  | [], [], _ => by simp [lexLt]
  | [], _ :: _, [] => by simp [lexLt]
  | [], _ :: _, _ :: _ => by simp [lexLt]
  | _ :: _, [], _ => by simp [lexLt]
  | _ :: _, _ :: _, [] => by simp [lexLt]
  | x :: xs, y :: ys, z :: zs => by
    simp only [lexLt, Bool.or_eq_true, Bool.and_eq_true, decide_eq_true_eq, beq_iff_eq]
    intro h1 h2
    rcases h1 with h1 | ⟨h1, h1'⟩ <;> rcases h2 with h2 | ⟨h2, h2'⟩
    · left; omega
    · left; omega
    · left; omega
    · right; exact ⟨by omega, lexLt_trans xs ys zs h1' h2'⟩

theorem lexLt_antisymm : ∀ a b, lexLt a b = false → lexLt b a = false → a = b
  | [], [] => by simp
  | [], _ :: _ => by simp [lexLt]
  | _ :: _, [] => by simp [lexLt]
  | x :: xs, y :: ys => by
    simp only [lexLt, Bool.or_eq_false_iff, Bool.and_eq_false_iff, decide_eq_false_iff_not, beq_eq_false_iff_ne]
    intro h1 h2
    have hxy : x = y := by omega
    subst hxy
    have := lexLt_antisymm xs ys (by simpa using h1.2) (by simpa using h2.2)
    rw [this]

/-! ## the `best_order` fold -/

theorem bestOrder_spec (first : List Nat) (os : List (List Nat)) :
    (bestOrder first os = first ∨ bestOrder first os ∈ os) ∧
    lexLt first (bestOrder first os) = false ∧ ∀ o ∈ os, lexLt o (bestOrder first os) = false := by
  induction os generalizing first with
  | nil => simp [bestOrder, lexLt_irrefl]
  | cons o os ih =>
    simp only [bestOrder, List.foldl_cons]
    by_cases h : lexLt o first = true
    · simp only [h, if_true]
      have ⟨hm, hf, ha⟩ := ih o
      simp only [bestOrder] at hm hf ha
      refine ⟨?_, ?_, ?_⟩
      · rcases hm with hm | hm
        · right; rw [hm]; exact List.mem_cons_self
        · right; exact List.mem_cons_of_mem _ hm
      · -- first is not below the result: otherwise o < first < result, contradiction with hf
        cases hc : lexLt first (List.foldl (fun best o => if lexLt o best = true then o else best) o os) with
        | false => rfl
        | true =>
          have := lexLt_trans _ _ _ h hc
          rw [hf] at this; exact absurd this (by simp)
      · intro x hx
        rcases List.mem_cons.mp hx with hx | hx
        · subst hx; exact hf
        · exact ha x hx
    · have h' : lexLt o first = false := by simpa using h
      simp only [h', Bool.false_eq_true, if_false]
      have ⟨hm, hf, ha⟩ := ih first
      simp only [bestOrder] at hm hf ha
      refine ⟨?_, hf, ?_⟩
      · rcases hm with hm | hm
        · left; exact hm
        · right; exact List.mem_cons_of_mem _ hm
      · intro x hx
        rcases List.mem_cons.mp hx with hx | hx
        · subst hx
          -- x ≥ first ≥ result
          cases hc : lexLt x (List.foldl (fun best o => if lexLt o best = true then o else best) first os) with
          | false => rfl
          | true =>
            -- x < result; result ≤ ... we need a contradiction with first ≤ x? use totality via antisymm
            exfalso
            -- from hf: ¬ first < result.  from h': ¬ x < first.  from hc: x < result.
            -- if result < first then x < first by trans: contradiction. Otherwise result = first by antisymm, so x < first.
            cases hr : lexLt (List.foldl (fun best o => if lexLt o best = true then o else best) first os) first with
            | true =>
              have := lexLt_trans _ _ _ hc hr
              rw [h'] at this; exact absurd this (by simp)
            | false =>
              have e := lexLt_antisymm _ _ hf hr
              rw [← e] at hc
              rw [h'] at hc; exact absurd hc (by simp)
        · exact ha x hx

/-- the minimum is characterised by membership + lower bound, hence independent of the order -/
theorem min_unique (os : List (List Nat)) (a b : List Nat)
    (ha : a ∈ os) (hb : b ∈ os) (la : ∀ o ∈ os, lexLt o a = false) (lb : ∀ o ∈ os, lexLt o b = false) : a = b :=
  lexLt_antisymm a b (lb a ha) (la b hb)

/-! ## permutation invariance, stage by stage -/

theorem all_perm {α : Type} {l l' : List α} (h : List.Perm l l') (f : α → Bool) : l.all f = l'.all f := by
  rw [Bool.eq_iff_iff]
  simp [List.all_eq_true, h.mem_iff]

theorem any_perm {α : Type} {l l' : List α} (h : List.Perm l l') (f : α → Bool) : l.any f = l'.any f := by
  rw [Bool.eq_iff_iff]
  simp [List.any_eq_true, h.mem_iff]

theorem mem_winners {l : List (Nat × List Rank)} {x : Nat × List Rank} :
    x ∈ winners l ↔ x ∈ l ∧ ∀ a ∈ l, a.1 = x.1 ∨ notWorse x.2 a.2 = true := by
  simp [winners, List.mem_filter, List.all_eq_true]

theorem winners_perm {l l' : List (Nat × List Rank)} (h : List.Perm l l') :
    List.Perm (winners l) (winners l') := by
  unfold winners
  have e : (fun c : Nat × List Rank => l.all fun a => a.1 == c.1 || notWorse c.2 a.2) =
           (fun c : Nat × List Rank => l'.all fun a => a.1 == c.1 || notWorse c.2 a.2) := by
    funext c; exact all_perm h _
  rw [e]
  exact h.filter _

/-- `finals` keeps exactly the winners whose count vector is minimal -/
theorem finals_eq (w : List (Nat × List Rank)) :
    finals w = w.filter fun x => w.all fun y => !lexLt (order y.2) (order x.2) := by
  cases w with
  | nil => rfl
  | cons c t =>
    simp only [finals]
    apply List.filter_congr
    intro x hx
    have ⟨hm, _, hlow⟩ := bestOrder_spec (order c.2) (List.map (fun x => order x.2) (c :: t))
    have hmem : bestOrder (order c.2) (List.map (fun x => order x.2) (c :: t)) ∈
        List.map (fun x => order x.2) (c :: t) := by
      rcases hm with hm | hm
      · rw [hm]; exact List.mem_map.mpr ⟨c, List.mem_cons_self, rfl⟩
      · exact hm
    rw [Bool.eq_iff_iff]
    simp only [beq_iff_eq, List.all_eq_true, Bool.not_eq_true']
    constructor
    · intro e y hy
      rw [e]
      exact hlow _ (List.mem_map.mpr ⟨y, hy, rfl⟩)
    · intro hmin
      apply min_unique (List.map (fun x => order x.2) (c :: t)) _ _
        (List.mem_map.mpr ⟨x, hx, rfl⟩) hmem
      · intro o ho
        obtain ⟨y, hy, rfl⟩ := List.mem_map.mp ho
        exact hmin y hy
      · exact hlow

theorem mem_finals {w : List (Nat × List Rank)} {x : Nat × List Rank} :
    x ∈ finals w ↔ x ∈ w ∧ ∀ y ∈ w, lexLt (order y.2) (order x.2) = false := by
  rw [finals_eq]
  simp [List.mem_filter, List.all_eq_true]

theorem finals_perm {w w' : List (Nat × List Rank)} (h : List.Perm w w') :
    List.Perm (finals w) (finals w') := by
  rw [finals_eq, finals_eq]
  have e : (fun x : Nat × List Rank => w.all fun y => !lexLt (order y.2) (order x.2)) =
           (fun x : Nat × List Rank => w'.all fun y => !lexLt (order y.2) (order x.2)) := by
    funext x; exact all_perm h _
  rw [e]
  exact h.filter _

theorem resolveRanked_perm {l l' : List (Nat × List Rank)} (h : List.Perm l l') :
    Outcome.Equiv (resolveRanked l) (resolveRanked l') := by
  have hf := finals_perm (winners_perm h)
  unfold resolveRanked
  generalize finals (winners l) = f at hf
  generalize finals (winners l') = f' at hf
  match f, f', hf with
  | [], f', hf =>
    have := hf.nil_eq; subst this; simp [Outcome.Equiv]
  | [c], f', hf =>
    have : [c] = f' := List.singleton_perm.mp hf
    subst this; simp [Outcome.Equiv]
  | c :: d :: t, [], hf => exact absurd hf.eq_nil (by simp)
  | c :: d :: t, [x], hf => exact absurd (List.perm_singleton.mp hf) (by simp)
  | c :: d :: t, x :: y :: u, hf =>
    simp only [Outcome.Equiv]
    exact hf.map _

end RsslVerif.Lemmas.Overload

import RsslVerif.Model.Names
import RsslVerif.Spec.Names
import RsslVerif.Gen.Reserved
/-!
Finite facts about the regenerated tables and the concrete negation witnesses, proved by `decide`
(kept in their own module so that the kernel evaluation is cached between runs; `Thm/C15.lean` restates them).
-/
namespace RsslVerif.Lemmas.NamesTables
open RsslVerif.Model.Names

/-! ## the tables and the source facts the model rests on (re-extracted from /repo on every run) -/

/-- The lines of `NameMap::build` the model transcribes are still there, the candidate format is `{}_{}`,
symbols are pushed in the order namespace, struct, enum, global, function, and the two exporters pass
`intrinsics_are_reserved = true / false`. -/
theorem source_fingerprints :
    Gen.Reserved.candFormat = "{}_{}" ∧
    Gen.Reserved.pushOrder = ["Namespace", "Struct", "Enum", "EnumValue", "GlobalVariable", "Function"] ∧
    Gen.Reserved.fact_claimLoop = true ∧ Gen.Reserved.fact_keepCondition = true ∧
    Gen.Reserved.fact_scopeLoopInsert = true ∧
    Gen.Reserved.fact_scopeUsedStartsReserved = true ∧ Gen.Reserved.fact_allScopesStartsReserved = true ∧
    Gen.Reserved.fact_sortedByName = true ∧ Gen.Reserved.fact_usageOfAllFunctions = true ∧
    Gen.Reserved.fact_usageKinds = true ∧ Gen.Reserved.fact_usageReserves = true ∧
    Gen.Reserved.fact_localTest = true ∧
    Gen.Reserved.fact_localLoop = true ∧ Gen.Reserved.fact_localKeeps = true ∧
    Gen.Reserved.fact_counterStartsAtZero = true ∧
    Gen.Reserved.hlslIntrinsicsReserved = true ∧ Gen.Reserved.mslIntrinsicsReserved = false := by
  decide

/-- **reserved_complete** (full): every entry of the independent keyword / built-in lists of HLSL and MSL is
in the `RESERVED_NAMES` table of the corresponding exporter.  (False before /repo 05e2470: the HLSL table had
the entry `"SamplerState,"` and 90 HLSL / 43 MSL names were missing.) -/
theorem reserved_complete :
    (∀ n ∈ Spec.Names.hlslKeywords, n ∈ Gen.Reserved.hlsl) ∧
    (∀ n ∈ Spec.Names.mslKeywords, n ∈ Gen.Reserved.msl) := by
  decide +kernel

/-- the entries whose absence was the defect are present after the fix -/
example : "SamplerState" ∈ Gen.Reserved.hlsl ∧ "SamplerState," ∉ Gen.Reserved.hlsl ∧
    "device" ∈ Gen.Reserved.msl ∧ "threadgroup" ∈ Gen.Reserved.msl := by
  decide +kernel

/-! ## the former negation witnesses, now examples of the repaired behaviour (/repo 0dfd8dd, 6bac604) -/

/-- overloads `a`, `a` and a function `a_0` in one scope -/
def witnessVerbatim : Input :=
  { nss := [], locals := [], used := []
    entries := [⟨⟨.func, 0⟩, none, "a"⟩, ⟨⟨.func, 1⟩, none, "a"⟩, ⟨⟨.func, 2⟩, none, "a_0"⟩] }

/-- the user's `a_0` is claimed first; the overloads take `a_1`, `a_2` (before 0dfd8dd: `a_0, a_1, a_0_0`) -/
theorem verbatim_witness_fixed :
    (build Gen.Reserved.hlsl witnessVerbatim).toOption.map (·.map (·.name)) = some ["a_1", "a_2", "a_0"] ∧
    (build Gen.Reserved.msl witnessVerbatim).toOption.map (·.map (·.name)) = some ["a_1", "a_2", "a_0"] := by
  decide +kernel

/-- a function `kernel_0` that the body of `f` calls, and `f`'s parameter `kernel` (reserved in MSL) -/
def witnessCapture : Input :=
  { nss := [], locals := ["kernel"], used := [⟨.func, 0⟩]
    entries := [⟨⟨.func, 0⟩, none, "kernel_0"⟩, ⟨⟨.func, 1⟩, none, "f"⟩] }

/-- the parameter skips `kernel_0` because a body uses the function of that name (before 6bac604 it took it) -/
theorem capture_witness_fixed :
    (build Gen.Reserved.msl witnessCapture).toOption.map (·.map (fun n => (n.sym.kind, n.name))) =
      some [(.func, "f"), (.func, "kernel_0"), (.localVar, "kernel_1")] := by
  decide +kernel

end RsslVerif.Lemmas.NamesTables

/-!
# C04 — how the declarations of ONE function are paired by the front end and by the HLSL exporter

A function may be declared several times (prototypes) and defined once.  Transcribed from

* `typer/src/typer/functions.rs` `parse_function`: the signature (with `non_default_params`, the number of parameters
  without a default expression) is registered by the FIRST declaration; a later declaration / definition of the same
  parameter types takes the id of the pre-declaration (`Some(id) => id`) and its own signature is dropped;
  `parse_function_body` (definition only) stores the parameter list of the DEFINITION, default expressions included,
  in `FunctionImplementation.params`;
* `hlsl/src/ast_generate.rs` `generate_function_inner`: every declaration — `RootDefinition::FunctionDeclaration`
  (`only_declare = true`) and `RootDefinition::Function` alike — is printed from `decl.params`, where `decl` is the
  `FunctionImplementation`; without an implementation the exporter fails (`FunctionNotDefined`).

Default expressions are opaque tokens here (their own export / re-reading is the expression part of C04).
Core Lean only.
-/
namespace RsslVerif.Model.FixpointProto

/-- one declaration of the function: prototype or definition, and per parameter the default expression if any -/
structure FDecl where
  isDef : Bool
  defaults : List (Option String)
deriving DecidableEq, Repr

/-- `non_default_params` of `parse_function_signature` -/
def nonDefault (ps : List (Option String)) : Nat := (ps.filter (·.isNone)).length

/-- the signature the calls are checked against: that of the first declaration -/
def sigNonDefault : List FDecl → Option Nat
  | [] => none
  | d :: _ => some (nonDefault d.defaults)

/-- `FunctionImplementation.params`: the parameter list of the definition -/
def implParams (ds : List FDecl) : Option (List (Option String)) := (ds.find? (·.isDef)).map (·.defaults)

/-- the declarations as the exporter prints them (`none` = `GenerateError::FunctionNotDefined`) -/
def exportDecls (ds : List FDecl) : Option (List FDecl) :=
  match implParams ds with
  | none => none
  | some ps => some (ds.map fun d => { d with defaults := ps })

/-- a call with `n` arguments has enough arguments for the registered signature (the upper bound, the number of
    parameters, is the same for every declaration of one function and is not modelled) -/
def CallOk (ds : List FDecl) (n : Nat) : Prop := ∃ k, sigNonDefault ds = some k ∧ k ≤ n

instance (ds : List FDecl) (n : Nat) : Decidable (CallOk ds n) :=
  match h : sigNonDefault ds with
  | none => isFalse (by intro ⟨k, hk, _⟩; simp [h] at hk)
  | some k => if hk : k ≤ n then isTrue ⟨k, h, hk⟩ else isFalse (by intro ⟨k', hk', hle⟩; simp [h] at hk'; omega)

end RsslVerif.Model.FixpointProto

//! Declaration forms (every tier): function prototypes next to definitions in every order, repeated, of the function under
//! test itself, with other parameter names, with out / inout / vector / struct / array parameters, in (re-opened) namespaces,
//! of overloads and function templates; default arguments on the definition with a prototype around; value template
//! parameters, template instantiations with a struct argument, `precise`, four-column matrices.  Before this stream no
//! generator wrote a prototype at all (`RootDefinition::FunctionDeclaration` and `generate_function(_, true, _)` of the
//! exporter were never executed) and the text evaluators answered "unsupported" for a module that contained one.
//!
//! Scalar programs are `C01.fn` requests (the Lean model recomputes tree and both semantics), the others `C01.vfn`.
//! Every program defines `f1(int x, int y)`.
#![allow(dead_code)]

pub fn grid_text() -> String {
    ["i:00000000,i:00000000", "i:00000002,i:00000005", "i:ffffffff,i:00000007", "i:7fffffff,i:80000000", "i:0000000a,i:fffffffd"].join(";")
}

const H_P: &str = "int h(int a, int b);\n";
const H_D: &str = "int h(int a, int b)\n{\n    return a * 10 + b;\n}\n";
const F1: &str = "int f1(int x, int y)\n{\n    int r = h(x, y) + h(y, 3);\n    return r - h(r, x);\n}\n";
const F1_P: &str = "int f1(int x, int y);\n";

/// (tag, source) — scalar subset, `C01.fn`
pub fn scalar_stream() -> Vec<(String, String)> {
    let mut out: Vec<(String, String)> = Vec::new();
    let mut add = |tag: &str, parts: &[&str]| out.push((tag.to_string(), parts.join("\n")));
    // every order of prototype P, definition D and user F in which P or D precedes F
    add("P-D-F", &[H_P, H_D, F1]);
    add("P-F-D", &[H_P, F1, H_D]);
    add("D-P-F", &[H_D, H_P, F1]);
    add("D-F-P", &[H_D, F1, H_P]);
    add("P-P-F-D", &[H_P, H_P, F1, H_D]);
    add("P-D-P-F-P", &[H_P, H_D, H_P, F1, H_P]);
    add("P-F-P-D", &[H_P, F1, H_P, H_D]);
    // the function under test has prototypes itself
    add("self:Pf-D-F", &[F1_P, H_D, F1]);
    add("self:D-F-Pf", &[H_D, F1, F1_P]);
    add("self:Pf-P-F-D-Pf", &[F1_P, H_P, F1, H_D, F1_P]);
    // a chain: g uses h through the prototype, h is defined after g, f1 uses g through a prototype as well
    add(
        "chain",
        &["int g(int a);\n", H_P, F1_P, "int f1(int x, int y)\n{\n    return g(x) - g(y) * 2;\n}\n", "int g(int a)\n{\n    return h(a, 4) + 1;\n}\n", H_D],
    );
    // the prototype spells the parameters differently / not at all / with names the exporter has to rename
    add("param-names-differ", &["int h(int first, int second);\n", H_D, F1]);
    add("param-names-swapped", &["int h(int b, int a);\n", F1, H_D]);
    add("param-names-reserved", &["int h(int pass, int texture);\n", F1, "int h(int texture, int pass)\n{\n    return texture * 10 + pass;\n}\n"]);
    // out / inout parameters, void, other scalar types
    add(
        "out-inout",
        &[
            "void k(inout int a, out int b, in int c);\n",
            "int f1(int x, int y)\n{\n    int o;\n    k(x, o, y);\n    k(y, x, o);\n    return x * 100 + y * 10 + o;\n}\n",
            "void k(inout int a, out int b, in int c)\n{\n    b = a + c;\n    a = a * 2 - c;\n}\n",
        ],
    );
    add(
        "types",
        &[
            "bool t(float a, uint b);\nfloat u(bool a);\nuint v(int a, float b);\n",
            "int f1(int x, int y)\n{\n    float r = u(t((float)x, (uint)y));\n    return (int)v(x, r) + (int)r;\n}\n",
            "uint v(int a, float b)\n{\n    return (uint)a + (uint)b;\n}\n",
            "float u(bool a)\n{\n    return a ? 2.5f : -1.0f;\n}\n",
            "bool t(float a, uint b)\n{\n    return a < (float)b;\n}\n",
        ],
    );
    // a static global declared between prototype and definition, read and written through the prototype
    add(
        "global-between",
        &[
            "int bump(int a);\n",
            "static int gs = 7;\n",
            "int f1(int x, int y)\n{\n    int r = bump(x);\n    r += bump(y) * gs;\n    return r;\n}\n",
            "int bump(int a)\n{\n    gs += a;\n    return gs - 1;\n}\n",
        ],
    );
    // a prototype for a function that is defined but never used, and one used only by an unused function
    add("unused", &["int idle(int a);\n", H_P, H_D, F1, "int idle(int a)\n{\n    return h(a, a);\n}\n"]);
    // loops / switch in the function defined after its use
    add(
        "body-forms",
        &[
            "int w(int n, int s);\n",
            "int f1(int x, int y)\n{\n    return w(x & 7, y) + w(3, x);\n}\n",
            "int w(int n, int s)\n{\n    int r = s;\n    for (int i = 0; i < n; ++i)\n    {\n        switch (i & 3)\n        {\n            case 0:\n                r += 1;\n                break;\n            case 1:\n                r *= 2;\n            default:\n                r -= i;\n                break;\n        }\n    }\n    while (r > 1000)\n    {\n        r /= 3;\n    }\n    return r;\n}\n",
        ],
    );
    out
}

/// (tag, source) — `C01.vfn`
pub fn vector_stream() -> Vec<(String, String)> {
    let mut out: Vec<(String, String)> = Vec::new();
    let mut add = |tag: &str, parts: &[&str]| out.push((tag.to_string(), parts.join("\n")));
    let hd_default = "int h(int a, int b = 3, int c = 4)\n{\n    return a * 100 + b * 10 + c;\n}\n";
    let f_default = "int f1(int x, int y)\n{\n    return h(x) + h(x, y) * 2 + h(y, x, 7) * 3;\n}\n";
    // default arguments on the definition; prototypes (without defaults) after it
    add("default:D-F", &[hd_default, f_default]);
    // (a prototype of `h` *after* this definition is a known finding — the exporter prints the defaults on both declarations,
    // which HLSL rejects as a redefinition of the default argument — and lives in the corpus, as does a default given on a
    // prototype only, which is lost: corpus/C01.txt, known_findings.jsonl)
    add("default:P-other-D-F", &["int other(int a, int b);\n", hd_default, "int other(int a, int b)\n{\n    return h(a, b) - h(b);\n}\n", "int f1(int x, int y)\n{\n    return h(x) + h(x, y) * 2 + h(y, x, 7) * 3 + other(x, y);\n}\n"]);
    // default arguments that are expressions over a global / another function declared by a prototype
    add(
        "default:expr",
        &[
            "static int gd = 5;\nint dflt(int a);\n",
            "int h(int a, int b = dflt(2) + gd, float c = 2)\n{\n    return a * 100 + b * 10 + (int)c;\n}\n",
            "int f1(int x, int y)\n{\n    gd += x;\n    return h(x) + h(y, 1) + h(x, y, 2.5f);\n}\n",
            "int dflt(int a)\n{\n    return a * 3;\n}\n",
        ],
    );
    // vector / struct / array / enum parameters and results
    add(
        "types",
        &[
            "struct S\n{\n    int k;\n    float2 p;\n};\nenum E\n{\n    EA,\n    EB = 5\n};\n",
            "float3 sw(float3 v, int2 i);\nS mk(int a, float b);\nint sum(int v[4], E e);\nvoid split(S s, out int k, inout float2 p);\n",
            "int f1(int x, int y)\n{\n    float3 v = sw(float3(x, y, 1), int2(y, x));\n    S s = mk(x, v.y);\n    int a[4] = { x, y, 3, 4 };\n    int k;\n    float2 p = v.zx;\n    split(s, k, p);\n    return sum(a, x > 0 ? EB : EA) + k + (int)p.x + (int)p.y;\n}\n",
            "void split(S s, out int k, inout float2 p)\n{\n    k = s.k * 2;\n    p += s.p;\n}\n",
            "int sum(int v[4], E e)\n{\n    return v[0] + v[1] * 2 + v[2] * 3 + v[3] + (int)e;\n}\n",
            "S mk(int a, float b)\n{\n    S s;\n    s.k = a + 1;\n    s.p = float2(b, a);\n    return s;\n}\n",
            "float3 sw(float3 v, int2 i)\n{\n    return v.zxy + float3(i, 2).yzx;\n}\n",
        ],
    );
    // overloads: prototypes in another order than the definitions
    add(
        "overloads",
        &[
            "int g(int a);\nfloat g(float a);\nint g(int a, int b);\n",
            "int f1(int x, int y)\n{\n    return g(x) + (int)g(2.5f) + g(x, y);\n}\n",
            "int g(int a, int b)\n{\n    return a - b;\n}\n",
            "float g(float a)\n{\n    return a * 2;\n}\n",
            "int g(int a)\n{\n    return a + 1;\n}\n",
        ],
    );
    // namespaces: prototype in a namespace that is re-opened for the definition; nested; used qualified and unqualified
    add(
        "namespace-reopened",
        &[
            "namespace N\n{\n    int h(int a, int b);\n    static int gn = 3;\n}\n",
            "int f1(int x, int y)\n{\n    return N::h(x, y) + N::gn;\n}\n",
            "namespace N\n{\n    int h(int a, int b)\n    {\n        gn += a;\n        return a * 10 + b + gn;\n    }\n}\n",
        ],
    );
    add(
        "namespace-nested",
        &[
            "namespace N\n{\n    namespace M\n    {\n        int h(int a, int b);\n    }\n    int q(int a)\n    {\n        return M::h(a, 2) + 1;\n    }\n}\n",
            "int h(int a, int b);\n",
            "int f1(int x, int y)\n{\n    return N::q(x) + h(y, x) + N::M::h(x, y);\n}\n",
            "namespace N\n{\n    namespace M\n    {\n        int h(int a, int b)\n        {\n            return a * 10 + b;\n        }\n    }\n}\n",
            "int h(int a, int b)\n{\n    return a - b;\n}\n",
        ],
    );
    // function template with a prototype; instantiated with scalars, a vector and a struct
    add(
        "template-proto",
        &[
            "template<typename T> T sel(T a, T b, bool c);\n",
            "int f1(int x, int y)\n{\n    float2 v = sel(float2(x, y), float2(y, x), x > y);\n    return sel(x, y, x < y) + (int)v.x + (int)sel<float>(x, 2.5f, false);\n}\n",
            "template<typename T> T sel(T a, T b, bool c)\n{\n    if (c)\n    {\n        return a;\n    }\n    return b;\n}\n",
        ],
    );
    add(
        "template-struct-arg",
        &[
            "struct S\n{\n    int k;\n};\n",
            "template<typename T> T pick(T a, T b, bool c)\n{\n    if (c)\n    {\n        return a;\n    }\n    return b;\n}\n",
            "int f1(int x, int y)\n{\n    S s;\n    s.k = x;\n    S t;\n    t.k = y;\n    return pick(s, t, x > y).k * 10 + pick<S>(t, s, x > 2).k + pick(x, y, false);\n}\n",
        ],
    );
    // value template parameters
    add(
        "template-value",
        &[
            "template<int N> int addn(int a)\n{\n    return a * N + N;\n}\n",
            "template<uint N, typename T> T scale(T a)\n{\n    return a * N;\n}\n",
            "int f1(int x, int y)\n{\n    return addn<3>(x) + addn<-2>(y) + addn<3>(y) + (int)scale<2u, float>(x) + scale<5u, int>(y);\n}\n",
        ],
    );
    // precise parameters / locals / members (a hint to the optimiser; values are unaffected)
    add(
        "precise",
        &[
            "struct S\n{\n    precise float p;\n    int k;\n};\n",
            "float pm(precise float a, float b, out precise float c);\n",
            "int f1(int x, int y)\n{\n    precise float r = x * 0.5f;\n    float o;\n    S s;\n    s.p = pm(r, y, o);\n    s.k = (int)o;\n    return (int)s.p + s.k;\n}\n",
            "float pm(precise float a, float b, out precise float c)\n{\n    precise float r = a * b;\n    c = r + a;\n    return r - b;\n}\n",
        ],
    );
    // one-component vectors: scalar <-> vector(1) <-> vector(n) dimension casts (typer/src/casting.rs DimensionCast)
    add(
        "vec1",
        &["float1 one(float1 a, int1 b);\n", "int f1(int x, int y)\n{\n    float1 a = x;\n    float s = a;\n    float3 w = a;\n    int1 i = y;\n    int2 j = i;\n    float1 c = one(s, y) + one(a, i);\n    a.x += c;\n    return (int)s + (int)w.z + j.y + (int)a + (int)c.x;\n}\n", "float1 one(float1 a, int1 b)\n{\n    return a * 2 + b;\n}\n"],
    );
    // an unsuffixed float literal converted to int / uint / bool is folded by ImplicitConversion::apply
    add(
        "literal-fold",
        &["int f1(int x, int y)\n{\n    int i = 2.5;\n    uint u = 3.75;\n    bool b = 0.25;\n    int n = -7.9;\n    bool z = 0.0;\n    return i + (int)u * 10 + (b ? 100 : 0) + n * 1000 + (z ? 5 : 6) + x;\n}\n"],
    );
    // overload resolution with an enum argument (EnumToNumeric rank) and a literal (promotion ranks); the exporter calls the chosen overload by its own name
    add(
        "overloads-enum-arg",
        &[
            "enum E\n{\n    EA,\n    EB = 5\n};\n",
            "int g(int a);\nint g(uint a);\nfloat g(float a);\nint g(E a);\n",
            "int f1(int x, int y)\n{\n    E e = x > 0 ? EB : EA;\n    return g(e) + g(EB) * 3 + g(x) + g((uint)y) + (int)g(1.5f) + (int)g(2.5);\n}\n",
            "int g(E a)\n{\n    return (int)a + 1000;\n}\n",
            "float g(float a)\n{\n    return a * 2;\n}\n",
            "int g(uint a)\n{\n    return (int)(a >> 1);\n}\n",
            "int g(int a)\n{\n    return a + 1;\n}\n",
        ],
    );
    // four-column matrices: the component letter of the fourth column
    add(
        "matrix-four-columns",
        &["int f1(int x, int y)\n{\n    float4 a = float4(x, y, 1, 2);\n    float2x4 m = float2x4(a, a.wzyx);\n    m._m13 = m._m03 + 1;\n    m._24 += m._14;\n    float4x4 q = float4x4(a, a.yzwx, a.zwxy, a.wxyz);\n    q._m33 = q._m30 + q._m03;\n    q[3].w += q[2][3];\n    return (int)(m._14 * 10 + m._m13 + m[1].w + q._44 + q._m23 + q._m32);\n}\n"],
    );
    out
}

/// Source-level variation of a generated program (one definition per blank-line separated chunk, as pgen / vgen write them):
/// some of the plain top-level functions get prototypes — immediately before the definition, hoisted in front of the first
/// function, after the definition, repeated at the end — and some definitions move to the end of the module, so that they
/// are used through the prototype only.  Functions with default arguments (see the known findings), templates, methods and
/// the members of namespaces are left alone.  Every use still follows a declaration, so the front end accepts the result
/// whenever it accepts the original.  Returns the new source and the number of prototypes written.
pub fn protoize(src: &str, rng: &mut crate::util::Rng) -> (String, usize) {
    let chunks: Vec<&str> = src.split("\n\n").collect();
    let header = |c: &str| -> Option<String> {
        let mut lines = c.lines();
        let h = lines.next()?;
        let open = lines.next()?;
        let plain = !h.starts_with(' ')
            && !["static", "struct", "enum", "namespace", "template", "const", "typedef", "//"].iter().any(|k| h.starts_with(k))
            && h.contains('(')
            && h.ends_with(')')
            && !h.contains('=')
            && open == "{";
        if plain { Some(h.to_string()) } else { None }
    };
    let first_fn = match chunks.iter().position(|c| header(c).is_some()) {
        Some(i) => i,
        None => return (src.to_string(), 0),
    };
    // hoisting is safe only when every type / global is declared before the first function
    let can_hoist = chunks[first_fn..].iter().all(|c| c.trim().is_empty() || header(c).is_some());
    let mut hoisted: Vec<String> = Vec::new();
    let mut body: Vec<String> = Vec::new();
    let mut moved: Vec<String> = Vec::new();
    let mut trailing: Vec<String> = Vec::new();
    let mut n = 0;
    for c in &chunks {
        let h = match header(c) {
            Some(h) if rng.chance(1, 2) => h,
            _ => {
                body.push(c.to_string());
                continue;
            }
        };
        let proto = format!("{};", h);
        let def = c.trim_end_matches('\n').to_string();
        match rng.below(5) {
            0 => {
                body.push(proto);
                body.push(def);
                n += 1;
            }
            1 if can_hoist => {
                hoisted.push(proto);
                body.push(def);
                n += 1;
            }
            2 if can_hoist => {
                hoisted.push(proto);
                moved.push(def);
                n += 1;
            }
            3 => {
                body.push(proto.clone());
                moved.push(def);
                trailing.push(proto);
                n += 2;
            }
            _ => {
                body.push(def);
                body.push(proto.clone());
                n += 1;
                if rng.chance(1, 2) {
                    trailing.push(proto);
                    n += 1;
                }
            }
        }
    }
    let mut out: Vec<String> = Vec::new();
    for (i, c) in body.into_iter().enumerate() {
        if i == first_fn {
            out.append(&mut hoisted);
        }
        out.push(c);
    }
    out.append(&mut hoisted);
    out.append(&mut moved);
    out.append(&mut trailing);
    let mut text = out.iter().map(|c| c.trim_end_matches('\n')).filter(|c| !c.is_empty()).collect::<Vec<_>>().join("\n\n");
    text.push('\n');
    (text, n)
}

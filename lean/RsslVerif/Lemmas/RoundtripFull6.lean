import RsslVerif.Lemmas.RoundtripFull5
/-! Round trip for the full expression model: expression-or-type positions and template argument lists. -/
set_option linter.unusedSimpArgs false
set_option linter.unusedVariables false
namespace RsslVerif.Lemmas.RoundtripFull
open RsslVerif.Gen.FmtTables RsslVerif.Gen.ParseTables RsslVerif.Gen.SyntaxTables RsslVerif.Model.Format
open RsslVerif.Model.FormatFull RsslVerif.Model.ParseFull RsslVerif.Lemmas.FmtParseTables

variable (W : List String)

def RTArg (sym : Bool) (a : TArg) : Prop :=
  ∀ rest, TyRest rest → (hasLtArg a = true → TmplFree (toks (fmtEOT a true) ++ rest) = true) →
    ∃ N, ∀ f, N ≤ f → parseEOT W f sym (toks (fmtEOT a true) ++ rest) = some (a, rest)

theorem posOk_top : PosOk topPrec topSide := Or.inl (by decide)

theorem posOk_eot : PosOk eotExprPrec eotExprSide := Or.inl (by decide)

theorem needParen_false_le {p outer : Nat} {side : Side} (h : needParen p outer side = false) : p ≤ outer := by
  unfold needParen at h
  split at h
  · cases h
  · omega

/-- an expression-or-type position parenthesises the shift operators and everything that binds less tightly (e8e0be6):
what is printed bare has a precedence below the one of the shift operators -/
theorem eot_bare_prec {p : Nat} (h : needParen p eotExprPrec eotExprSide = false) : p ≤ 6 := by
  have h7 := needParen_false_le h
  have h7' : p ≤ 7 := h7
  rcases Nat.lt_or_ge p 7 with hlt | hge
  · omega
  · have : p = 7 := by omega
    subst this
    revert h; decide

/-- **the point of e8e0be6**: a tree whose top node binds tighter than the shift operators exposes none of `>`, `>=`, `>>`,
`,` outside parentheses / brackets — every operand that is printed bare binds at least as tightly as its parent -/
theorem gtFree_of_prec : (x : XExpr) → x.prec ≤ 6 → gtFree x = true
  | .lit _, _ => by simp [gtFree]
  | .id _, _ => by simp [gtFree]
  | .un op x, h => by
    simp only [gtFree, gtFreeSub, Bool.or_eq_true]
    cases hp : needParen x.prec (unPrec op) (if isPostfix op then postfixOperandSide else prefixOperandSide) with
    | true => exact Or.inl rfl
    | false =>
      right
      have h1 := needParen_false_le hp
      have h2 : unPrec op ≤ 3 := by cases op <;> decide
      exact gtFree_of_prec x (by omega)
  | .bin op l r, h => by
    have hop : gtOp op = false := by cases op <;> simp [XExpr.prec, binPrec] at h <;> rfl
    have hb : binPrec op ≤ 6 := h
    simp only [gtFree, gtFreeSub, hop, Bool.not_false, Bool.true_and, Bool.and_eq_true, Bool.or_eq_true]
    refine ⟨?_, ?_⟩
    · cases hp : needParen l.prec (binPrec op) binLeftSide with
      | true => exact Or.inl rfl
      | false => exact Or.inr (gtFree_of_prec l (by have := needParen_false_le hp; omega))
    · cases hp : needParen r.prec (binPrec op) binRightSide with
      | true => exact Or.inl rfl
      | false => exact Or.inr (gtFree_of_prec r (by have := needParen_false_le hp; omega))
  | .tern _ _ _, h => by simp [XExpr.prec, precTernaryConditional] at h
  | .sub o _, _ => by
    simp only [gtFree, gtFreeSub, Bool.or_eq_true]
    cases hp : needParen o.prec precArraySubscript subObjectSide with
    | true => exact Or.inl rfl
    | false => exact Or.inr (gtFree_of_prec o (by have := needParen_false_le hp; simp [precArraySubscript] at this; omega))
  | .mem o _, _ => by
    simp only [gtFree, gtFreeSub, Bool.or_eq_true]
    cases hp : needParen o.prec precMember memObjectSide with
    | true => exact Or.inl rfl
    | false => exact Or.inr (gtFree_of_prec o (by have := needParen_false_le hp; simp [precMember] at this; omega))
  | .call f _ _, _ => by
    simp only [gtFree, gtFreeSub, Bool.or_eq_true]
    cases hp : needParen f.prec callObjectPrec callObjectSide with
    | true => exact Or.inl rfl
    | false => exact Or.inr (gtFree_of_prec f (by have := needParen_false_le hp; simp [callObjectPrec] at this; omega))
  | .cast _ x, _ => by
    simp only [gtFree, gtFreeSub, Bool.or_eq_true]
    cases hp : needParen x.prec precCast castOperandSide with
    | true => exact Or.inl rfl
    | false => exact Or.inr (gtFree_of_prec x (by have := needParen_false_le hp; simp [precCast] at this; omega))
  | .sizeof _, _ => by simp [gtFree]

/-- what is printed bare in an expression-or-type position is produced below the shift level of the parser -/
theorem pos_eot (x : XExpr) (h : needParen x.prec eotExprPrec eotExprSide = false) : x.lvl ≤ 4 := by
  cases x with
  | lit l => simp only [XExpr.prec, XExpr.lvl, litPrec] at h ⊢ <;> generalize litNegative l = b at h ⊢ <;> cases b <;> revert h <;> decide
  | un o _ => cases o <;> simp only [XExpr.prec, XExpr.lvl] at h ⊢ <;> revert h <;> decide
  | bin o _ _ => cases o <;> simp only [XExpr.prec, XExpr.lvl] at h ⊢ <;> revert h <;> decide
  | _ => simp only [XExpr.prec, XExpr.lvl] at h ⊢ <;> revert h <;> decide

/-- an expression in an expression-or-type position: printed under `(eotExprPrec, eotExprSide)` — bare when it binds
tighter than the shift operators (then nothing in it is misread under `Terminator::TypeList`), in parentheses otherwise
(then it is read under `Standard`) — and its first token starts no type -/
theorem rtArg_e (sym : Bool) (x : XExpr) (hw : WFArg W sym (.e x)) (ihx : RT W x) : RTArg W sym (.e x) := by
  intro rest hrest hsafe
  obtain ⟨hwx, hhead⟩ := hw
  obtain ⟨t0, r0, rfl, hcl⟩ := tyRest_closes hrest
  have htoks : toks (fmtEOT (.e x) true) = toks (fmtSubX x eotExprPrec eotExprSide) := rfl
  rw [htoks] at hsafe ⊢
  have hP : Parses W 15 .TypeList (toks (fmtSubX x eotExprPrec eotExprSide) ++ t0 :: r0) (x, t0 :: r0) :=
    rts_self W ihx _ _ 15 .TypeList _ (Nat.le_refl _)
      (fun hp => ⟨lvl_le x, fun h => by have := pos_eot x hp; omega,
        fun _ => gtFree_of_prec x (eot_bare_prec hp)⟩)
      (fun hp => parenDead W x hwx (needParen_prec posOk_eot hp) _)
      (fun hl => hsafe (by simpa [hasLtArg] using hl))
      (noLow_closes W 15 _ _ _ hcl) (fun _ => inert_closes W 15 _ _ _ hcl)
  obtain ⟨t, ts', h1, _, _⟩ := head_fmt W x hwx eotExprPrec eotExprSide posOk_eot
  have hty : ∀ f, parseTyId W f sym (toks (fmtSubX x eotExprPrec eotExprSide) ++ t0 :: r0) = none := by
    intro f
    rw [h1]
    obtain ⟨hstop, hid⟩ := tyHeadDead_of_B W sym t ts' (by rw [← h1]; exact hhead)
    cases t with
    | id n =>
      obtain ⟨rfl, hn⟩ := hid n rfl
      exact parseTyId_notW W f n _ hstop hn
    | _ => exact parseTyId_badhead W f sym _ _ hstop (by intro n h; cases h)
  obtain ⟨N, h⟩ := hP
  refine ⟨N + 1, fun f hf => ?_⟩
  obtain ⟨f', rfl, hf'⟩ := succ_of_pos hf
  unfold parseEOT
  rw [hty f']
  have := h f' hf'
  simp only [eotTerminator]
  rw [this]

/-- a bare type name in front of a token that continues no type: for every fuel ≥ 4 -/
theorem parseTyId_bare (sym : Bool) (n : String) (u : Tok) (rest : List Tok)
    (hs : modBeforeStep (.id n) = .stop) (hsym : sym = true → W.contains n = true) (h0 : u.isLt = false)
    (h1 : u ≠ .p .Asterix) (h2 : u ≠ .p .Ampersand) (h3 : u ≠ .p .LeftSquareBracket)
    (h4 : u ≠ .p .Const) (h5 : u ≠ .p .Volatile) :
    ∀ f, 4 ≤ f → parseTyId W f sym (.id n :: u :: rest) = some (.mk [] n .nil .empty, u :: rest) := by
  intro f hf
  obtain ⟨f1, rfl, hf1⟩ := succ_of_pos hf
  obtain ⟨f2, rfl, hf2⟩ := succ_of_pos hf1
  obtain ⟨f3, rfl, hf3⟩ := succ_of_pos hf2
  unfold parseTyId
  rw [takeModsBefore_stop _ _ hs]
  have hsym' : (sym && !W.contains n) = false := by
    cases sym with
    | false => rfl
    | true => have := hsym rfl; simp at this; simp [this]
  simp only [hsym', Bool.false_eq_true, if_false, parseTArgsReq_notlt W _ u rest h0, takeModsAfter_stop u rest h4 h5]
  have hd : parseDecl W (f3 + 1 + 1) true (u :: rest) = some (.empty, u :: rest) := by
    unfold parseDecl
    split
    · rename_i heq; simp at heq; exact absurd heq.1 h1
    · rename_i heq; simp at heq; exact absurd heq.1 h1
    · rename_i heq; simp at heq; exact absurd heq.1 h2
    · rename_i heq; simp at heq; exact absurd heq.1 h2
    · simp only [if_true]
      exact arrDims_stop W .empty (u :: rest) (by intro r h; simp at h; exact h3 h.1) _ (by omega)
  rw [hd]
  rfl

theorem rtArg_both (sym : Bool) (x : XExpr) (t : TyId) (hw : WFArg W sym (.both x t)) : RTArg W sym (.both x t) := by
  intro rest hrest _
  obtain ⟨n, rfl, rfl, hstop, hsym⟩ := hw
  obtain ⟨t0, r0, rfl, hcl⟩ := tyRest_closes hrest
  have hdr := tyRest_declRest hrest
  simp only [DeclRest] at hdr
  obtain ⟨d1, d2, d3, d4, d5, d6, _⟩ := hdr
  have htoks : toks (fmtEOT (.both (.id n) (.mk [] n .nil .empty)) true) = [.id n] := toks_id n
  rw [htoks]
  have hP : Parses W 15 .TypeList ([.id n] ++ t0 :: r0) (.id n, t0 :: r0) := by
    have := rt_id W n 15 .TypeList (t0 :: r0) (.id n, t0 :: r0) (fun _ => by simp [gtFree]) (by simp [XExpr.lvl]) (Nat.le_refl _)
      (fun h => by simp [XExpr.lvl] at h) (noLow_closes W 15 _ _ _ hcl) (fun h => by simp [hasLt] at h)
      (fin_self W _ _ 15 .TypeList _ (by simp [XExpr.lvl]) (fun _ => inert_closes W 15 _ _ _ hcl))
    rwa [toks_id] at this
  obtain ⟨N, h⟩ := hP
  refine ⟨max N 4 + 1, fun f hf => ?_⟩
  obtain ⟨f', rfl, hf'⟩ := succ_of_pos hf
  unfold parseEOT
  simp only [List.singleton_append] at h ⊢
  rw [parseTyId_bare W sym n t0 r0 hstop hsym d6 d1 d2 d3 d4 d5 f' (by omega)]
  simp only [eotTerminator]
  rw [h f' (by omega)]
  simp

theorem rtArg_t (sym : Bool) (ty : TyId) (hw : WFArg W sym (.t ty)) (iht : RTTy W ty) : RTArg W sym (.t ty) := by
  intro rest hrest hsafe
  obtain ⟨_, hsym, _, hkw⟩ := hw
  obtain ⟨m, ms, k, hmods, hk⟩ := kwModHead_spec ty hkw
  obtain ⟨N, h⟩ := iht sym true rest hsym hrest (fun hl => hsafe (by simpa [hasLtArg] using hl))
  have htoks : toks (fmtEOT (.t ty) true) = toks (fmtTyId ty true) := rfl
  rw [htoks]
  have hex : ∀ f, xparseLvl W f 15 eotTerminator (toks (fmtTyId ty true) ++ rest) = none := by
    intro f
    obtain ⟨mods, n, targs, d⟩ := ty
    simp only [tyMods] at hmods
    subst hmods
    rw [toks_fmtTyId]
    simp only [List.map_cons, List.cons_append, hk]
    exact xparseLvl_badhead W _ _ (badHead_modKw m k hk) _ _ _
  refine ⟨N + 1, fun f hf => ?_⟩
  obtain ⟨f', rfl, hf'⟩ := succ_of_pos hf
  unfold parseEOT
  rw [h f' hf', hex f']

/-! ## Template argument lists -/

/-- the elements of a template argument list, up to (not including) the closing `>` -/
def RTList : TArgs → Prop
  | .nil => True
  | .cons a r => ∀ b rest, shiftAssignHead rest = false → NoEq rest →
      (hasLtTArgs (.cons a r) = true →
        TmplFree (toks (fmtEOT a true) ++ (toks (fmtTArgTail r) ++ .gt b :: rest)) = true) →
      ∃ N, ∀ f, N ≤ f → parseTArgList W f (toks (fmtEOT a true) ++ (toks (fmtTArgTail r) ++ .gt b :: rest)) =
        some (.cons a r, .gt b :: rest)

theorem rtList_single (a : TArg) (iha : RTArg W false a) : RTList W (.cons a .nil) := by
  intro b rest hsh hne hsafe
  simp only [fmtTArgTail, toks_nil, List.nil_append] at hsafe ⊢
  obtain ⟨N, h⟩ := iha (.gt b :: rest) ⟨hsh, hne⟩ (fun hl => hsafe (by simp [hasLtTArgs, hl]))
  refine ⟨N + 1, fun f hf => ?_⟩
  obtain ⟨f', rfl, hf'⟩ := succ_of_pos hf
  unfold parseTArgList
  rw [h f' hf']

theorem rtList_cons (a b : TArg) (r : TArgs) (iha : RTArg W false a) (ihr : RTList W (.cons b r)) :
    RTList W (.cons a (.cons b r)) := by
  intro g rest hsh hne hsafe
  have htail : toks (fmtTArgTail (.cons b r)) = .p .Comma :: (toks (fmtEOT b true) ++ toks (fmtTArgTail r)) := by
    simp [fmtTArgTail, comma, pp]
  rw [htail] at hsafe ⊢
  simp only [List.cons_append, List.append_assoc] at hsafe ⊢
  obtain ⟨N1, h1⟩ := iha (.p .Comma :: (toks (fmtEOT b true) ++ (toks (fmtTArgTail r) ++ .gt g :: rest))) trivial
    (fun hl => hsafe (by simp [hasLtTArgs, hl]))
  obtain ⟨N2, h2⟩ := ihr g rest hsh hne (fun hl => tmplFree_suffix
    ((List.suffix_cons _ _).trans (List.suffix_append _ _)) (hsafe (by
      simp only [hasLtTArgs, Bool.or_eq_true] at hl ⊢
      exact Or.inr hl)))
  refine ⟨max N1 N2 + 1, fun f hf => ?_⟩
  obtain ⟨f', rfl, hf'⟩ := succ_of_pos hf
  unfold parseTArgList
  rw [h1 f' (by omega)]
  simp only [h2 f' (by omega)]

/-- the first token of a printed expression-or-type is not `>` -/
theorem eot_head (sym : Bool) (a : TArg) (hw : WFArg W sym a) :
    ∃ t r, toks (fmtEOT a true) = t :: r ∧ t.isGt = false := by
  cases a with
  | e x =>
    obtain ⟨t, ts', h1, h2, _⟩ := head_fmt W x hw.1 eotExprPrec eotExprSide posOk_eot
    exact ⟨t, ts', h1, h2.1.2.2⟩
  | both x t =>
    obtain ⟨n, rfl, rfl, _⟩ := hw
    exact ⟨.id n, [], toks_id n, rfl⟩
  | t ty =>
    obtain ⟨_, _, _, hkw⟩ := hw
    obtain ⟨m, ms, k, hmods, hk⟩ := kwModHead_spec ty hkw
    obtain ⟨mods, n, targs, d⟩ := ty
    simp only [tyMods] at hmods
    subst hmods
    have : toks (fmtEOT (.t (.mk (m :: ms) n targs d)) true) =
        .p k :: (ms.map modTok ++ (.id n :: (toks (fmtTArgs targs (startsTok (fmtDecl d true) true)) ++ toks (fmtDecl d true)))) := by
      show toks (fmtTyId _ true) = _
      rw [toks_fmtTyId]
      simp only [List.map_cons, List.cons_append, hk]
    exact ⟨.p k, _, this, rfl⟩

theorem rtTArgs (a : TArg) (r : TArgs) (hwa : WFArg W false a) (ih : RTList W (.cons a r)) : RTTArgs W (.cons a r) := by
  intro a' r' heq fol rest hsh hne hsafe
  have htoks : toks (fmtTArgs (.cons a r) fol) ++ rest =
      .lt true :: (toks (fmtEOT a true) ++ (toks (fmtTArgTail r) ++ .gt fol :: rest)) := by
    simp [fmtTArgs, ltT, gtP]
  rw [htoks] at hsafe ⊢
  obtain ⟨N, h⟩ := ih fol rest hsh hne (fun hl => tmplFree_suffix (List.suffix_cons _ _) (hsafe hl))
  obtain ⟨t, ts', ht, hg⟩ := eot_head W false a hwa
  refine ⟨N + 1, fun f hf => ?_⟩
  obtain ⟨f', rfl, hf'⟩ := succ_of_pos hf
  have := h f' hf'
  rw [ht] at this ⊢
  unfold parseTArgsReq
  simp only [List.cons_append]
  split
  · rename_i heq2
    simp only [List.cons.injEq] at heq2
    obtain ⟨_, rfl, _⟩ := heq2
    simp [Tok.isGt] at hg
  · rename_i heq2
    simp only [List.cons.injEq] at heq2
    obtain ⟨_, rfl⟩ := heq2
    simp only [List.cons_append] at this
    rw [this]
  · rename_i h1 h2
    exact absurd rfl (h2 _ _)

end RsslVerif.Lemmas.RoundtripFull

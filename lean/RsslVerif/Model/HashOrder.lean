/-!
# Model of hash-container iteration (C07)

A `HashMap`/`HashSet` is a finite collection whose iteration order is an *unspecified permutation* that
differs between instances and processes.  Every place where rssl iterates one is modelled as a function
of the iteration-order list; determinism of the site = invariance under `List.Perm`.

Site shapes (each site of the source inventory `Gen.HashSites.sites` is classified into one of these in
`Thm/C07.lean`):
* `collectSort`     collect into a `Vec`, then `sort()` / `sort_by(key)`           (Rust `sort` = any function
                    returning a sorted permutation; stable, so keys must be distinct for `sort_by`)
* `insertOnly`      results are inserted into another map under distinct keys, or folded with a
                    commutative-idempotent operation (set union, `||`, assertions)
* `fixpoint`        monotone closure iterated to a fixpoint (usage analysis)
* `unobserved`      the ordered result is stored but no consumer reads its order
* `firstFailure`    checks only (`assert!`, `unreachable!`, `return None`): whether one fails never depends on the
                    order; which one is reported does not either when all failures carry the same payload
-/
namespace RsslVerif.Model.HashOrder

/-- `Vec::from_iter(hash).sort_by(le)`; `mergeSort` stands for Rust's stable sort -/
def collectSort {α : Type} (le : α → α → Bool) (iterationOrder : List α) : List α :=
  iterationOrder.mergeSort le

/-- inserting `(key, value)` pairs into a map and reading it back by key -/
def lookupAfterInserts {κ ν : Type} [BEq κ] (iterationOrder : List (κ × ν)) (k : κ) : Option ν :=
  iterationOrder.lookup k

/-- folding the elements with a binary operation (e.g. set union into `used_names_all_scopes`) -/
def foldAll {α β : Type} (op : β → α → β) (init : β) (iterationOrder : List α) : β :=
  iterationOrder.foldl op init

/-- a loop whose only effect is to leave at the first element that fails a check (`assert!`, `unreachable!`,
    `return None`, `?`): the result is the first failure met in iteration order -/
def firstFailure {α ε : Type} (check : α → Option ε) (iterationOrder : List α) : Except ε Unit :=
  match iterationOrder.findSome? check with
  | none => .ok ()
  | some e => .error e

end RsslVerif.Model.HashOrder

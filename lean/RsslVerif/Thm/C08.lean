import RsslVerif.Gen.PanicSites
import RsslVerif.Model.Progress
import RsslVerif.Lemmas.Progress
import RsslVerif.Lemmas.PanicClasses
/-!
# C08 — compilation is total

What a proof can say about totality of a 50 kLoC compiler is (1) *which* explicit panic sites exist and
that each one has been looked at (`panic_sites_classified`, tied to the source by the regenerated
inventory), and (2) that the loops whose termination is a progress argument do terminate within a bound
that is linear in the input (`parse_list_progress`, `root_loop_progress`, `lex_progress`,
`cond_chain_total`), for *every* input and every element parser / single-token lexer satisfying the stated
progress condition — together with the witness that the condition is necessary
(`parse_multiple_diverges_without_progress`).  Stack depth, allocation failure and wall-clock time are
runtime facts: they are observed by the supervised harness run, never claimed here.
-/
namespace RsslVerif.Thm.C08
open RsslVerif.Model.Progress RsslVerif.Lemmas.Progress
open RsslVerif.Gen.PanicSites

variable {τ ε α γ : Type}

/-! ## the parser's list combinators -/

/-- Tie to the source: `parse_list_base`, `parse_optional` and the loop of `parse_internal` have the
    shape the model mirrors (continue only after separator and element succeeded, on the element's
    remaining input; stop without consuming on an unconsumed failure; fail on a consumed failure). -/
theorem parser_loops_as_modelled : parserLoopShape = ⟨true, true, true, true, true, true, true⟩ := by decide

/-- **parse_list_base terminates within `|input| + 1` loop iterations** for every element parser that
    does not grow its input and every separator/element pair of which one consumes a token on success;
    the values it returns plus the input it leaves never exceed the input it was given plus one
    (the first element is parsed without a separator). -/
theorem parse_list_progress (sep : Parser τ ε γ) (elem : Parser τ ε α) (allowEmpty : Bool)
    (hp : Productive sep elem) (hn : NonIncreasing elem) (input : List τ) :
    ∃ r, parseListBase sep elem allowEmpty (input.length + 1) input = some r ∧
      ∀ rest vs, r = .ok (rest, vs) → vs.length + rest.length ≤ input.length + 1 := by
  unfold parseListBase
  cases he : elem input with
  | error e =>
    obtain ⟨rest, err⟩ := e
    simp only
    split
    · refine ⟨_, rfl, ?_⟩
      intro rest vs h
      simp only [Except.ok.injEq, Prod.mk.injEq] at h
      obtain ⟨rfl, rfl⟩ := h
      simp
    · refine ⟨_, rfl, ?_⟩
      intro rest vs h
      cases h
  | ok w =>
    obtain ⟨rest, e⟩ := w
    simp only
    have hr := hn input rest e he
    obtain ⟨r, hr'⟩ := listLoop_terminates hp (input.length + 1) rest [e] (by omega)
    refine ⟨r, hr', ?_⟩
    intro rest' vs h
    subst h
    have := listLoop_count hp _ _ _ _ _ hr'
    simp only [List.length_cons, List.length_nil] at this
    omega

/-- The result does not depend on the fuel once there is enough of it (the model's `none` really means
    "the Rust loop is still running", not an artefact of the bound). -/
theorem parse_list_fuel_irrelevant (sep : Parser τ ε γ) (elem : Parser τ ε α) (n k : Nat)
    (input : List τ) (acc : List α) (r : PR τ ε (List α))
    (h : listLoop sep elem n input acc = some r) : listLoop sep elem (n + k) input acc = some r := by
  induction k with
  | zero => exact h
  | succ k ih => exact listLoop_fuel_mono (n + k) input acc r ih

/-- `parse_multiple` (no separator) terminates whenever the element parser consumes on success. -/
theorem parse_multiple_progress (elem : Parser τ ε α) (he : Consuming elem) (input : List τ) :
    ∃ r, parseMultiple elem (input.length + 1) input = some r ∧
      ∀ rest vs, r = .ok (rest, vs) → vs.length + rest.length ≤ input.length + 1 := by
  unfold parseMultiple
  apply parse_list_progress
  · apply productive_of_elem_consuming _ he
    intro i rest a h
    simp only [Except.ok.injEq, Prod.mk.injEq] at h
    rw [← h.1]
    exact Nat.le_refl _
  · intro i rest a h
    exact Nat.le_of_lt (he i rest a h)

/-- **The progress condition is necessary**: the combinator has no consumed-check of its own on the
    success path.  With an element parser that succeeds without consuming, `parse_multiple` never
    returns (for every amount of fuel the loop is still running). -/
theorem parse_multiple_diverges_without_progress (input : List τ) (a : α) (fuel : Nat) :
    parseMultiple (ε := ε) (fun i => .ok (i, a)) fuel input = none := by
  unfold parseMultiple parseListBase
  simp only
  suffices h : ∀ (n : Nat) (acc : List α),
      listLoop (τ := τ) (ε := ε) (γ := Unit) (fun i => .ok (i, ())) (fun i => .ok (i, a)) n input acc = none from h fuel [a]
  intro n
  induction n with
  | zero => intro acc; rfl
  | succ n ih => intro acc; unfold listLoop; exact ih (a :: acc)

/-- `parse_optional` is total and keeps the input when it reports `None`. -/
theorem parse_optional_total (elem : Parser τ ε α) (input : List τ) :
    (∃ rest a, elem input = .ok (rest, a) ∧ parseOptional elem input = .ok (rest, some a)) ∨
    parseOptional elem input = .ok (input, none) ∨
    (∃ rest err, elem input = .error (rest, err) ∧ rest.length ≠ input.length ∧
      parseOptional elem input = .error (rest, err)) := by
  unfold parseOptional
  cases he : elem input with
  | ok w => obtain ⟨rest, a⟩ := w; exact Or.inl ⟨rest, a, rfl, rfl⟩
  | error e =>
    obtain ⟨rest, err⟩ := e
    simp only
    by_cases hl : rest.length = input.length
    · right; left; simp [hl]
    · right; right; exact ⟨rest, err, rfl, hl, by simp [hl]⟩

/-- The root-definition loop of `parse_internal` terminates within `|input| + 1` iterations when a root
    definition consumes at least one token. -/
theorem root_loop_progress (root : Parser τ ε α) (isEof : τ → Bool) (hc : Consuming root) :
    ∀ (n : Nat) (input : List τ) (acc : List α), input.length < n →
      ∃ r, rootLoop root isEof n input acc = some r := by
  intro n
  induction n with
  | zero => intro input acc h; omega
  | succ n ih =>
    intro input acc hlt
    unfold rootLoop
    cases hr : root input with
    | ok w =>
      obtain ⟨remaining, r⟩ := w
      simp only
      have := hc input remaining r hr
      exact ih remaining (r :: acc) (by omega)
    | error e =>
      simp only
      split
      · split <;> exact ⟨_, rfl⟩
      · exact ⟨_, rfl⟩

/-- Tie to the source: every call of `parse_list` / `parse_list_nonempty` / `parse_multiple` in the
    parser is a reviewed one (see `Lemmas/PanicClasses.lean: reviewedListUses` for who consumes). -/
theorem list_uses_reviewed :
    listUses.all (fun u => (RsslVerif.Lemmas.PanicClasses.reviewedListUses.map (·.1)).contains u) = true := by
  decide +kernel

/-! ## TokenStream -/

/-- Tie to the source: `TokenStream::{new, next, end_of_stream, read_to_end}` have the modelled shape and
    every caller of `next` sits under a `while !end_of_stream()` head. -/
theorem lex_shape_as_modelled :
    lexShape = ⟨true, true, true, true, true, true, true, true, true⟩ ∧
    lexNextCallers.all (fun c => c.2.2 == "guarded") = true := by decide

theorem readToEnd_gen (lex : Lex) :
    ∀ (n : Nat) (s : Stream) (acc : List Span), s.off ≤ s.len → s.addTrailing = true →
      (∀ off nl e, lex off = some (nl, e) → nl ≤ s.len) → potential s < n →
      ∃ r, readToEnd lex n s acc = some r ∧ r ≠ .panicAssertEndline ∧
        ((∀ off nl e, lex off = some (nl, e) → off < nl) → r ≠ .panicNoProgress) ∧
        ∀ l, r = .tokens l → l.length ≤ acc.length + potential s := by
  intro n
  induction n with
  | zero => intro s acc _ _ _ h; omega
  | succ n ih =>
    intro s acc hr ht hlex hpot
    unfold readToEnd
    by_cases heos : s.endOfStream = true
    · simp only [heos, if_true]
      refine ⟨_, rfl, by simp, fun _ => by simp, ?_⟩
      intro l h
      simp only [ReadResult.tokens.injEq] at h
      subst h
      simp
    · simp only [heos]
      cases hn : s.next lex with
      | token sp s' =>
        simp only
        obtain ⟨hdec, hlen, hr', ht'⟩ := next_potential_decreases lex s s' sp hr ht hlex hn
        obtain ⟨r, h1, h2, h3, h4⟩ := ih s' (sp :: acc) hr' ht' (by rw [hlen]; exact hlex) (by omega)
        refine ⟨r, h1, h2, h3, ?_⟩
        intro l hl
        have := h4 l hl
        simp only [List.length_cons] at this
        omega
      | lexError => exact ⟨_, rfl, by simp, fun _ => by simp, fun l h => by cases h⟩
      | panicNoProgress =>
        refine ⟨_, rfl, by simp, ?_, fun l h => by cases h⟩
        intro hprod
        exfalso
        unfold Stream.next at hn
        split at hn
        · split at hn <;> cases hn
        · split at hn
          · cases hn
          · rename_i nl endl hlx
            have := hprod s.off nl endl hlx
            simp [this] at hn
      | panicAssertEndline =>
        exfalso
        unfold Stream.next at hn
        split at hn
        · rename_i hc
          split at hn
          · rename_i hl
            simp only [Bool.and_eq_true, beq_iff_eq] at hc
            have : s.endOfStream = true := by
              simp [Stream.endOfStream, hc.2, hl]
            exact heos this
          · cases hn
        · split at hn
          · cases hn
          · split at hn <;> cases hn

/-- **`read_to_end` terminates on every byte string and every single-token lexer** (whose results stay
    inside the input): within `len + 2` iterations it returns at most `len + 1` tokens or a lexer error;
    the `assert!(!self.last_was_endline)` of the synthetic-endline branch can never fire under the
    `end_of_stream` guard; and the progress `debug_assert` can only fire if the single-token lexer
    returns without consuming a byte. -/
theorem lex_progress (lex : Lex) (len : Nat)
    (hrange : ∀ off nl e, lex off = some (nl, e) → nl ≤ len) :
    ∃ r, readToEnd lex (len + 2) (Stream.new len) [] = some r ∧ r ≠ .panicAssertEndline ∧
      ((∀ off nl e, lex off = some (nl, e) → off < nl) → r ≠ .panicNoProgress) ∧
      ∀ l, r = .tokens l → l.length ≤ len + 1 := by
  have hpot : potential (Stream.new len) ≤ len + 1 := by
    unfold potential Stream.new
    by_cases h : 0 < len
    · simp [h]
    · simp [h]
  obtain ⟨r, h1, h2, h3, h4⟩ := readToEnd_gen lex (len + 2) (Stream.new len) []
    (by simp [Stream.new]) rfl hrange (by omega)
  refine ⟨r, h1, h2, h3, ?_⟩
  intro l hl
  have := h4 l hl
  simp only [List.length_nil] at this
  omega

/-! ## ConditionChain -/

/-- Tie to the source: `ConditionChain::{switch, pop, is_active}` and their users have the modelled shape. -/
theorem cond_shape_as_modelled :
    condShape = ⟨true, true, true, true, true, true, true, true, true, true, true⟩ := by decide

theorem run_depth (ds : List Dir) : ∀ (st : List CS) (out : List Nat),
    (match run ds st out with | .ok (st', _) => Except.ok st'.length | .error e => .error e) =
      depthSpec ds st.length := by
  induction ds with
  | nil => intro st out; rfl
  | cons d ds ih =>
    intro st out
    cases d with
    | ifD a =>
      simp only [run, step, depthSpec]
      by_cases hact : isActive st = true
      · rw [if_pos hact]; exact ih _ _
      · rw [if_neg hact]; exact ih _ _
    | elif a =>
      cases st with
      | nil => simp [run, step, switch, depthSpec]
      | cons v rest =>
        simp only [run, step, switch, depthSpec, List.length_cons, Nat.add_one_ne_zero, if_false]
        exact ih _ _
    | els =>
      cases st with
      | nil => simp [run, step, switch, depthSpec]
      | cons v rest =>
        simp only [run, step, switch, depthSpec, List.length_cons, Nat.add_one_ne_zero, if_false]
        exact ih _ _
    | endif =>
      cases st with
      | nil => simp [run, step, pop, depthSpec]
      | cons v rest =>
        simp only [run, step, pop, depthSpec, List.length_cons, Nat.add_one_ne_zero, if_false,
          Nat.add_sub_cancel]
        exact ih _ _
    | text id =>
      simp only [run, step, depthSpec]
      exact ih _ _

/-- **The condition chain is total and its verdict depends on nesting depth alone**: for every directive
    sequence the run ends in the emitted text or in exactly one of the three diagnostics, and which one is
    decided by counting `#if`s and `#endif`s — an `#else`/`#elif`/`#endif` at depth 0 is the matching error,
    a non-empty chain at the end of the file is `ConditionChainNotFinished`.  No state of the chain panics. -/
theorem cond_chain_total (ds : List Dir) :
    (match runFile ds with | .ok _ => Except.ok () | .error e => .error e) =
      (match depthSpec ds 0 with
       | .error e => .error e
       | .ok 0 => .ok ()
       | .ok (_ + 1) => .error .notFinished) := by
  have h := run_depth ds [] []
  simp only [List.length_nil] at h
  unfold runFile
  cases hr : run ds [] [] with
  | error e =>
    rw [hr] at h
    simp only at h
    rw [← h]
  | ok w =>
    obtain ⟨st, out⟩ := w
    rw [hr] at h
    simp only at h
    rw [← h]
    cases st with
    | nil => simp
    | cons v rest => simp

/-- the chain never gets deeper than the number of directives seen -/
theorem cond_depth_bounded (ds : List Dir) : ∀ (d n : Nat), depthSpec ds d = .ok n → n ≤ d + ds.length := by
  induction ds with
  | nil => intro d n h; simp only [depthSpec, Except.ok.injEq] at h; simp [h]
  | cons x ds ih =>
    intro d n h
    cases x with
    | ifD a => have := ih _ _ h; simp only [List.length_cons]; omega
    | elif a =>
      simp only [depthSpec] at h
      split at h
      · cases h
      · have := ih _ _ h; simp only [List.length_cons]; omega
    | els =>
      simp only [depthSpec] at h
      split at h
      · cases h
      · have := ih _ _ h; simp only [List.length_cons]; omega
    | endif =>
      simp only [depthSpec] at h
      split at h
      · cases h
      · have := ih _ _ h; simp only [List.length_cons]; omega
    | text id => have := ih _ _ h; simp only [List.length_cons]; omega

/-! ## recursion guard of the macro expander, rendering of errors -/

/-- Tie to the source: the recursive expansion of a macro body is bracketed by disabling that macro,
    arguments are expanded under the caller's disabled set (fix d00f5aa), disabled macros are skipped. -/
theorem macro_guard_as_modelled : macroShape = ⟨true, true, true, true⟩ := by decide

/-- Tie to the source: every stage error in `compile()`/`build_pipeline()` is mapped to
    `CompileError::Text(format!("{}", err.display(..)))` (5 stage arms + the layout check). -/
theorem stage_errors_rendered : renderedErrorArms = 5 ∧ layoutErrorRendered = true := by decide

/-! ## the panic-site inventory -/

open RsslVerif.Lemmas.PanicClasses in
/-- **Every explicit panic site of the current tree is a reviewed one** with a class in
    {unreachable-by-invariant, reachable-known-finding, internal-assert}.  Both lists are sorted, so the
    check is a linear sub-list test; a new `panic!/todo!/unimplemented!/unreachable!/assert*/unwrap/expect`
    (or an existing one that moved to another function or changed its text) breaks the obligation. -/
theorem panic_sites_classified :
    List.isSublist sites (reviewed.map (·.1)) = true ∧
    reviewed.all (fun r => classNames.contains r.2.1) = true := by
  constructor <;> decide +kernel

/-! ## non-vacuity -/

/-- a consuming element parser: one token per element -/
def oneTok : Parser Nat Unit Nat := fun i => match i with | [] => .error ([], ()) | t :: r => .ok (r, t)

example : Consuming oneTok := by
  intro i rest a h
  cases i with
  | nil => cases h
  | cons t r => simp only [oneTok, Except.ok.injEq, Prod.mk.injEq] at h; rw [← h.1]; simp

example : parseMultiple oneTok 4 [7, 8, 9] = some (.ok ([], [7, 8, 9])) := rfl

example : readToEnd (fun off => if off < 3 then some (off + 1, off == 1) else none) 5 (Stream.new 3) [] =
    some (.tokens [⟨0, 1, false⟩, ⟨1, 2, true⟩, ⟨2, 3, false⟩, ⟨3, 3, true⟩]) := by decide

example : runFile [.ifD false, .text 1, .elif true, .text 2, .els, .text 3, .endif, .text 4] = .ok [2, 4] := rfl
example : runFile [.ifD true, .els, .endif, .endif] = .error .endIfNotMatched := rfl
example : runFile [.ifD true, .ifD false] = .error .notFinished := rfl

end RsslVerif.Thm.C08

import RsslVerif.Spec.Sem
/-!
# `Spec.SemStmt` — statements, function bodies and whole programs for both semantics

Loops run at most `fuel` iterations each (`none` = stuck or out of fuel); the loop combinators are shared: they are the
meaning of iteration, applied by each semantics to its own reading of condition, body and increment.
Observables of a function call (the property's words): return value, final values of the parameters
(`out`/`inout`), final store (static globals).
-/
namespace RsslVerif.Spec.Sem
open RsslVerif.Gen.HlslGenTables RsslVerif.Model
open RsslVerif.Model.Ir (Ty Var Const Dir)

inductive Flow where
  | normal
  | brk
  | cont
  | ret (v : Option Val)
  deriving DecidableEq, Repr, Inhabited

abbrev SR := Option (Flow × Store)

/-- `while`/`for`: test, body, increment -/
def loopW : Nat → (Store → Option (Bool × Store)) → (Store → SR) → (Store → Option Store) → Store → SR
  | 0, _, _, _, _ => none
  | n + 1, cond, body, inc, σ =>
    match cond σ with
    | none => none
    | some (false, σ1) => some (.normal, σ1)
    | some (true, σ1) =>
      match body σ1 with
      | none => none
      | some (.brk, σ2) => some (.normal, σ2)
      | some (.ret v, σ2) => some (.ret v, σ2)
      | some (_, σ2) =>
        match inc σ2 with
        | none => none
        | some σ3 => loopW n cond body inc σ3

/-- `do … while` -/
def loopD : Nat → (Store → SR) → (Store → Option (Bool × Store)) → Store → SR
  | 0, _, _, _ => none
  | n + 1, body, cond, σ =>
    match body σ with
    | none => none
    | some (.brk, σ1) => some (.normal, σ1)
    | some (.ret v, σ1) => some (.ret v, σ1)
    | some (_, σ1) =>
      match cond σ1 with
      | none => none
      | some (false, σ2) => some (.normal, σ2)
      | some (true, σ2) => loopD n body cond σ2

def condOf (r : R Val) : Option (Bool × Store) :=
  match r with
  | some (.b x, σ) => some (x, σ)
  | _ => none

/-- a statement condition is contextually converted to `bool` (the type checker inserts no cast there) -/
def condOfB (P : Prim) (r : R Val) : Option (Bool × Store) :=
  match r with
  | some (v, σ) =>
    match castVal P .bool v with
    | some (.b x) => some (x, σ)
    | _ => none
  | none => none

def dropVal (r : R Val) : Option Store :=
  match r with
  | some (_, σ) => some σ
  | none => none

def retOf (r : R Val) : SR :=
  match r with
  | some (v, σ) => some (.ret (some v), σ)
  | none => none

def setOf (x : Var) (r : R Val) : Option Store :=
  match r with
  | some (v, σ) => some (σ.set x v)
  | none => none

def normalOf (r : Option Store) : SR :=
  match r with
  | some σ => some (.normal, σ)
  | none => none

def alwaysTrue (σ : Store) : Option (Bool × Store) := some (true, σ)

namespace Ir
open RsslVerif.Model.Ir

def execVarDef (W : World) (id : Nat) (init : Option Expr) (σ : Store) : Option Store :=
  match init with
  | none => some σ
  | some e => setOf (.loc id) (eval W e σ)

def execForDefs (W : World) : List (Nat × Option Expr) → Store → Option Store
  | [], σ => some σ
  | (id, init) :: r, σ =>
    match execVarDef W id init σ with
    | none => none
    | some σ1 => execForDefs W r σ1

def execForInit (W : World) : ForInit → Store → Option Store
  | .empty, σ => some σ
  | .expr e, σ => dropVal (eval W e σ)
  | .defs ds, σ => execForDefs W ds σ

def condFn (W : World) : Option Expr → Store → Option (Bool × Store)
  | none => alwaysTrue
  | some c => fun σ => condOfB W.P (eval W c σ)

def incFn (W : World) : Option Expr → Store → Option Store
  | none => some
  | some e => fun σ => dropVal (eval W e σ)

mutual
def exec (W : World) (fuel : Nat) : Stmt → Store → SR
  | .expr e, σ => normalOf (dropVal (eval W e σ))
  | .var id init, σ => normalOf (execVarDef W id init σ)
  | .block b, σ => execs W fuel b σ
  | .ifThen c b, σ =>
    match condOfB W.P (eval W c σ) with
    | none => none
    | some (true, σ1) => execs W fuel b σ1
    | some (false, σ1) => some (.normal, σ1)
  | .ifElse c t f, σ =>
    match condOfB W.P (eval W c σ) with
    | none => none
    | some (true, σ1) => execs W fuel t σ1
    | some (false, σ1) => execs W fuel f σ1
  | .for init cond inc b, σ =>
    match execForInit W init σ with
    | none => none
    | some σ0 => loopW fuel (condFn W cond) (fun s => execs W fuel b s) (incFn W inc) σ0
  | .while c b, σ => loopW fuel (condFn W (some c)) (fun s => execs W fuel b s) some σ
  | .doWhile b c, σ => loopD fuel (fun s => execs W fuel b s) (condFn W (some c)) σ
  | .break, σ => some (.brk, σ)
  | .continue, σ => some (.cont, σ)
  | .ret none, σ => some (.ret none, σ)
  | .ret (some e), σ => retOf (eval W e σ)
def execs (W : World) (fuel : Nat) : Stmts → Store → SR
  | .nil, σ => some (.normal, σ)
  | .cons s r, σ =>
    match exec W fuel s σ with
    | none => none
    | some (.normal, σ1) => execs W fuel r σ1
    | some (fl, σ1) => some (fl, σ1)
end

def bindParams : List (Nat × Dir × Ty) → List Val → Store → Store
  | (id, _, _) :: ps, v :: vs, σ => bindParams ps vs (σ.set (.loc id) v)
  | _, _, σ => σ

def retVal : Flow → Val
  | .ret (some v) => v
  | _ => .void

/-- run a function body on argument values: (return value, final parameter values, final store) -/
def callFunc (W : World) (fuel : Nat) (fn : Func) (vals : List Val) (σ : Store) : Option (Val × List Val × Store) :=
  if vals.length ≠ fn.params.length then none else
  match execs W fuel fn.body (bindParams fn.params vals σ) with
  | none => none
  | some (fl, σ1) => some (retVal fl, fn.params.map (fun p => σ1 (.loc p.1)), σ1)

def sigOf (prog : List Func) : Sig := fun f =>
  match prog.find? (fun fn => fn.id == f) with
  | none => none
  | some fn => some (fn.ret, fn.params.map (fun p => (p.2.1, p.2.2)))

/-- the callable functions of a program at call depth ≤ `d` -/
def phi (P : Prim) (prog : List Func) (fuel : Nat) : Nat → FEnv
  | 0 => fun _ _ _ => none
  | d + 1 => fun f vals σ =>
    match prog.find? (fun fn => fn.id == f) with
    | none => none
    | some fn => callFunc { P := P, phi := phi P prog fuel d, sig := sigOf prog } fuel fn vals σ

end Ir

namespace Ast
open RsslVerif.Model.HlslAst

/-- condition: must be well-typed; contextually converted to `bool` -/
def condE (W : World) (env : Env) (c : Expr) (σ : Store) : Option (Bool × Store) :=
  match typeOf W.sig env c with
  | none => none
  | some _ => condOfB W.P (eval W env c σ)

def execVarDef (W : World) (env : Env) (T : Ty) (name : String) (init : Option Expr) (σ : Store) : Option Store :=
  match env.res name with
  | none => none
  | some x =>
    match init with
    | none => some σ
    | some e =>
      match typeOf W.sig env e with
      | none => none
      | some te => setOf x (convR W.P te T (eval W env e σ))

def execForDefs (W : World) (env : Env) (T : Ty) : List (String × Option Expr) → Store → Option Store
  | [], σ => some σ
  | (name, init) :: r, σ =>
    match execVarDef W env T name init σ with
    | none => none
    | some σ1 => execForDefs W env T r σ1

def execForInit (W : World) (env : Env) : ForInit → Store → Option Store
  | .empty, σ => some σ
  | .expr e, σ => dropVal (eval W env e σ)
  | .decl ty ds, σ =>
    match tyOfName ty with
    | none => none
    | some T => execForDefs W env T ds σ

def condFn (W : World) (env : Env) : Option Expr → Store → Option (Bool × Store)
  | none => alwaysTrue
  | some c => condE W env c

def incFn (W : World) (env : Env) : Option Expr → Store → Option Store
  | none => some
  | some e => fun σ => dropVal (eval W env e σ)

mutual
/-- `rt` = declared return type of the enclosing function (a `return` converts to it) -/
def exec (W : World) (env : Env) (rt : Ty) (fuel : Nat) : Stmt → Store → SR
  | .expr e, σ => normalOf (dropVal (eval W env e σ))
  | .var ty name init, σ =>
    match tyOfName ty with
    | none => none
    | some T => normalOf (execVarDef W env T name init σ)
  | .block b, σ => execs W env rt fuel b σ
  | .ifThen c b, σ =>
    match condE W env c σ with
    | none => none
    | some (true, σ1) => exec W env rt fuel b σ1
    | some (false, σ1) => some (.normal, σ1)
  | .ifElse c t f, σ =>
    match condE W env c σ with
    | none => none
    | some (true, σ1) => exec W env rt fuel t σ1
    | some (false, σ1) => exec W env rt fuel f σ1
  | .for init cond inc b, σ =>
    match execForInit W env init σ with
    | none => none
    | some σ0 => loopW fuel (condFn W env cond) (fun s => exec W env rt fuel b s) (incFn W env inc) σ0
  | .while c b, σ => loopW fuel (condFn W env (some c)) (fun s => exec W env rt fuel b s) some σ
  | .doWhile b c, σ => loopD fuel (fun s => exec W env rt fuel b s) (condFn W env (some c)) σ
  | .break, σ => some (.brk, σ)
  | .continue, σ => some (.cont, σ)
  | .ret none, σ => some (.ret none, σ)
  | .ret (some e), σ =>
    match typeOf W.sig env e with
    | none => none
    | some te => retOf (convR W.P te rt (eval W env e σ))
def execs (W : World) (env : Env) (rt : Ty) (fuel : Nat) : Stmts → Store → SR
  | .nil, σ => some (.normal, σ)
  | .cons s r, σ =>
    match exec W env rt fuel s σ with
    | none => none
    | some (.normal, σ1) => execs W env rt fuel r σ1
    | some (fl, σ1) => some (fl, σ1)
end

def bindParams (env : Env) : List (String × Dir × String) → List Val → Store → Option Store
  | (n, _, _) :: ps, v :: vs, σ =>
    match env.res n with
    | none => none
    | some x => bindParams env ps vs (σ.set x v)
  | _, _, σ => some σ

def finalParams (env : Env) (σ : Store) : List (String × Dir × String) → Option (List Val)
  | [] => some []
  | (n, _, _) :: ps =>
    match env.res n, finalParams env σ ps with
    | some x, some l => some (σ x :: l)
    | _, _ => none

/-- run an emitted function definition on argument values -/
def callFunc (W : World) (env : Env) (fuel : Nat) (fn : Func) (vals : List Val) (σ : Store) : Option (Val × List Val × Store) :=
  if vals.length ≠ fn.params.length then none else
  match tyOfName fn.ret, bindParams env fn.params vals σ with
  | some rt, some σ0 =>
    match execs W env rt fuel fn.body σ0 with
    | none => none
    | some (fl, σ1) =>
      match finalParams env σ1 fn.params with
      | none => none
      | some l => some (Ir.retVal fl, l, σ1)
  | _, _ => none

def paramSig : List (String × Dir × String) → Option (List (Dir × Ty))
  | [] => some []
  | (_, d, t) :: ps =>
    match tyOfName t, paramSig ps with
    | some T, some l => some ((d, T) :: l)
    | _, _ => none

/-- the signature table a C front end builds from the emitted definitions -/
def sigOf (env : Env) (prog : List Func) : Sig := fun f =>
  match prog.find? (fun fn => env.fres fn.name == some f) with
  | none => none
  | some fn =>
    match tyOfName fn.ret, paramSig fn.params with
    | some rt, some ps => some (rt, ps)
    | _, _ => none

/-- the callable functions of an emitted program at call depth ≤ `d` -/
def phi (P : Prim) (env : Env) (prog : List Func) (fuel : Nat) : Nat → FEnv
  | 0 => fun _ _ _ => none
  | d + 1 => fun f vals σ =>
    match prog.find? (fun fn => env.fres fn.name == some f) with
    | none => none
    | some fn => callFunc { P := P, phi := phi P env prog fuel d, sig := sigOf env prog } env fuel fn vals σ

end Ast
end RsslVerif.Spec.Sem

import RsslVerif.Spec.MslDup
/-!
# C02 — an operand accepted by a sound side-effect test can be written any number of times
-/
namespace RsslVerif.Lemmas.MslDup
open RsslVerif.Gen.MslDupSites RsslVerif.Gen.MslGenTables RsslVerif.Model.MslDup RsslVerif.Spec.MslDup

variable {Val Store : Type}

/-- what soundness gives for the row the test picks for a constructor -/
theorem sound_row {rows : List GuardRow} (hs : Sound rows = true) {c : String} {r : GuardRow}
    (hf : findRow rows c = some r) :
    strictPure.contains c = true ∧ ∃ k, ctorOf c = some k ∧ k.arity = r.arity ∧
      ∀ j, k.exprFields.contains j = true → r.recursed.contains j = true := by
  unfold findRow at hf
  have hmem := List.mem_of_find?_eq_some hf
  have hp := List.find?_some hf
  have hc : r.ctor = c := by simpa using hp
  unfold Sound at hs
  rw [List.all_eq_true] at hs
  have h := hs r hmem
  rw [hc] at h
  rw [Bool.and_eq_true] at h
  refine ⟨h.1, ?_⟩
  cases hk : ctorOf c with
  | none => rw [hk] at h; exact absurd h.2 (by simp)
  | some k =>
    rw [hk] at h
    have h2 := h.2
    simp only [Bool.and_eq_true, List.all_eq_true] at h2
    refine ⟨k, rfl, by simpa using h2.1, ?_⟩
    intro j hj
    exact h2.2 j (by simpa using hj)

mutual
/-- evaluating an accepted operand does not change the store -/
theorem guard_keeps_store (I : Interp Val Store) {rows : List GuardRow} (hs : Sound rows = true) :
    ∀ (e : DExpr), wf e = true → testExpr rows e = true →
      ∀ σ v σ', eval I e σ = some (v, σ') → σ' = σ
  | .node c fs, hw, hg, σ, v, σ', he => by
    unfold testExpr at hg
    cases hf : findRow rows c with
    | none => rw [hf] at hg; exact absurd hg (by simp)
    | some r =>
      rw [hf] at hg
      obtain ⟨hp, k, hk, _, hrec⟩ := sound_row hs hf
      unfold wf at hw
      rw [hk] at hw
      simp only [Bool.and_eq_true] at hw hg
      unfold eval at he
      rw [if_pos hp] at he
      cases hfs : evalFields I fs σ with
      | none => rw [hfs] at he; exact absurd he (by simp)
      | some p =>
        obtain ⟨vs, σ1⟩ := p
        simp only [hfs] at he
        have h1 : σ1 = σ := guardFields_keeps_store I hs k.exprFields r.recursed hrec fs 0 hw.2 hg.2 σ vs σ1 hfs
        cases hst : I.step c fs.payloads vs σ1 with
        | none => rw [hst] at he; exact absurd he (by simp)
        | some w =>
          simp only [hst, Option.some.injEq, Prod.mk.injEq] at he
          rw [← he.2, h1]
theorem guardFields_keeps_store (I : Interp Val Store) {rows : List GuardRow} (hs : Sound rows = true)
    (exprFields recursed : List Nat) (hrec : ∀ j, exprFields.contains j = true → recursed.contains j = true) :
    ∀ (fs : DFields) (i : Nat), wfFields exprFields i fs = true → testFields rows recursed i fs = true →
      ∀ σ vs σ', evalFields I fs σ = some (vs, σ') → σ' = σ
  | .nil, _, _, _, σ, vs, σ', he => by
    unfold evalFields at he
    simp only [Option.some.injEq, Prod.mk.injEq] at he
    exact he.2.symm
  | .payload _ r, i, hw, hg, σ, vs, σ', he => by
    unfold wfFields at hw
    unfold testFields at hg
    unfold evalFields at he
    simp only [Bool.and_eq_true] at hw
    exact guardFields_keeps_store I hs exprFields recursed hrec r (i + 1) hw.2 hg σ vs σ' he
  | .one e r, i, hw, hg, σ, vs, σ', he => by
    unfold wfFields at hw
    unfold testFields at hg
    unfold evalFields at he
    simp only [Bool.and_eq_true] at hw hg
    have hri := hrec i hw.1.1
    rw [if_pos hri] at hg
    cases h1 : eval I e σ with
    | none => rw [h1] at he; exact absurd he (by simp)
    | some p =>
      obtain ⟨v, σ1⟩ := p
      simp only [h1] at he
      have e1 : σ1 = σ := guard_keeps_store I hs e hw.1.2 hg.1 σ v σ1 h1
      cases h2 : evalFields I r σ1 with
      | none => rw [h2] at he; exact absurd he (by simp)
      | some q =>
        obtain ⟨ws, σ2⟩ := q
        simp only [h2] at he
        have e2 : σ2 = σ1 := guardFields_keeps_store I hs exprFields recursed hrec r (i + 1) hw.2 hg.2 σ1 ws σ2 h2
        simp only [Option.some.injEq, Prod.mk.injEq] at he
        rw [← he.2, e2, e1]
  | .many es r, i, hw, hg, σ, vs, σ', he => by
    unfold wfFields at hw
    unfold testFields at hg
    simp only [Bool.and_eq_true] at hw hg
    have hri := hrec i hw.1.1
    rw [hri] at hg
    exact absurd hg.1 (by simp)
end

/-- … so writing it `n` times gives `n` copies of the one value and the store of one evaluation -/
theorem repeat_of_keeps_store (I : Interp Val Store) (e : DExpr)
    (hpure : ∀ σ v σ', eval I e σ = some (v, σ') → σ' = σ) :
    ∀ (n : Nat) σ v σ', eval I e σ = some (v, σ') → evalRepeat I e n σ = some (List.replicate n v, σ')
  | 0, σ, v, σ', he => by
    have := hpure σ v σ' he
    subst this
    rfl
  | n + 1, σ, v, σ', he => by
    have h := hpure σ v σ' he
    subst h
    unfold evalRepeat
    have ih := repeat_of_keeps_store I e hpure n σ' v σ' he
    simp only [he, ih, List.replicate_succ]

/-! ## the local tests of the floating-point `%=` arm (tables of `PlaceRow`) -/

/-- what soundness gives for the row a test picks -/
theorem soundTabs_row {rows : List PlaceRow} {more : List (List PlaceRow)} (hs : SoundTabs (rows :: more) = true)
    {c : String} {fs : DFields} {r : PlaceRow} (hf : findPlaceRow rows c fs = some r) :
    r.ctor = c ∧ opOK r fs = true ∧ soundRow r = true := by
  unfold findPlaceRow at hf
  have hmem := List.mem_of_find?_eq_some hf
  have hp := List.find?_some hf
  simp only [Bool.and_eq_true, beq_iff_eq] at hp
  unfold SoundTabs at hs
  simp only [List.all_cons, Bool.and_eq_true, List.all_eq_true] at hs
  exact ⟨hp.1, hp.2, hs.1 r hmem⟩

theorem soundTabs_tail {rows : List PlaceRow} {more : List (List PlaceRow)} (hs : SoundTabs (rows :: more) = true) :
    SoundTabs more = true := by
  unfold SoundTabs at hs ⊢
  simp only [List.all_cons, Bool.and_eq_true] at hs
  exact hs.2

/-- a covered `Box` field the test accepts was handed to the test itself or to the next one -/
theorem one_field {rows : List PlaceRow} {more : List (List PlaceRow)} {r : PlaceRow} {i : Nat} {e : DExpr}
    (hcov : (r.self.contains i = true ∨ r.other.contains i = true) ∨ r.allOf.contains i = true)
    (hna : (!r.allOf.contains i) = true)
    (hg : (if r.self.contains i = true then testD (rows :: more) e else if r.other.contains i = true then testD more e else true) = true) :
    testD (rows :: more) e = true ∨ testD more e = true := by
  rcases hcov with (h | h) | h
  · rw [if_pos h] at hg; exact .inl hg
  · by_cases h' : r.self.contains i = true
    · rw [if_pos h'] at hg; exact .inl hg
    · rw [if_neg h', if_pos h] at hg; exact .inr hg
  · rw [h] at hna; exact absurd hna (by simp)

mutual
/-- evaluating an operand accepted by a sound chain of tests does not change the store -/
theorem testD_keeps_store (I : Interp Val Store) :
    ∀ (e : DExpr) (tabs : List (List PlaceRow)), SoundTabs tabs = true → wf e = true → testD tabs e = true →
      ∀ σ v σ', eval I e σ = some (v, σ') → σ' = σ
  | .node c fs, [], _, _, hg, _, _, _, _ => by simp [testD] at hg
  | .node c fs, rows :: more, hs, hw, hg, σ, v, σ', he => by
    unfold testD at hg
    cases hf : findPlaceRow rows c fs with
    | none => rw [hf] at hg; exact absurd hg (by simp)
    | some r =>
      rw [hf] at hg
      simp only [Bool.and_eq_true] at hg
      obtain ⟨hrc, hop, hsr⟩ := soundTabs_row hs hf
      unfold soundRow at hsr
      rw [hrc] at hsr
      unfold wf at hw
      cases hk : ctorOf c with
      | none => rw [hk] at hsr; exact absurd hsr (by simp)
      | some k =>
        rw [hk] at hsr hw
        simp only [Bool.and_eq_true, List.all_eq_true, Bool.or_eq_true] at hsr hw
        obtain ⟨⟨_, hcov⟩, hkind⟩ := hsr
        have hcov' : ∀ j, k.exprFields.contains j = true →
            (r.self.contains j = true ∨ r.other.contains j = true) ∨ r.allOf.contains j = true := by
          intro j hj; exact hcov j (by simpa using hj)
        by_cases hops : r.ops.isEmpty = true
        · rw [if_pos hops] at hkind
          simp only [Bool.or_eq_true, Bool.and_eq_true, beq_iff_eq] at hkind
          by_cases hp : strictPure.contains c = true
          · -- strict pure constructor
            unfold eval at he
            rw [if_pos hp] at he
            cases hfs : evalFields I fs σ with
            | none => rw [hfs] at he; exact absurd he (by simp)
            | some p =>
              obtain ⟨vs, σ1⟩ := p
              simp only [hfs] at he
              have h1 : σ1 = σ := testDFields_keeps_store I fs rows more r hs k.exprFields hcov' 0 hw.2 hg.2 σ vs σ1 hfs
              cases hst : I.step c fs.payloads vs σ1 with
              | none => rw [hst] at he; exact absurd he (by simp)
              | some w =>
                simp only [hst, Option.some.injEq, Prod.mk.injEq] at he
                rw [← he.2, h1]
          · -- `?:`
            obtain ⟨hc, hnoall⟩ : c = "TernaryConditional" ∧ r.allOf.isEmpty = true := by
              rcases hkind with h | h
              · exact absurd h hp
              · exact h
            subst hc
            have hk' : k = ⟨"TernaryConditional", 3, [0, 1, 2]⟩ := by
              have : ctorOf "TernaryConditional" = some ⟨"TernaryConditional", 3, [0, 1, 2]⟩ := by decide
              rw [this] at hk; exact (Option.some.inj hk).symm
            subst hk'
            have hall : ∀ i, r.allOf.contains i = false := by
              intro i
              have : r.allOf = [] := by simpa using hnoall
              simp [this]
            have hwf := hw.2
            have hgf := hg.2
            have hlen := hw.1
            match fs, hwf, hgf, hlen, he with
            | .one cond (.one t (.one f .nil)), hwf, hgf, _, he =>
              simp only [wfFields, Bool.and_eq_true] at hwf
              obtain ⟨⟨_, hwc⟩, ⟨⟨_, hwt⟩, ⟨⟨_, hwf'⟩, _⟩⟩⟩ := hwf
              simp only [testDFields, Bool.and_eq_true] at hgf
              obtain ⟨⟨hna0, hgc⟩, ⟨⟨hna1, hgt⟩, ⟨⟨hna2, hgf'⟩, _⟩⟩⟩ := hgf
              have pc := one_field (hcov' 0 (by decide)) hna0 hgc
              have pt := one_field (hcov' 1 (by decide)) hna1 hgt
              have pf := one_field (hcov' 2 (by decide)) hna2 hgf'
              have kc : ∀ σ v σ', eval I cond σ = some (v, σ') → σ' = σ := by
                rcases pc with h | h
                · exact testD_keeps_store I cond (rows :: more) hs hwc h
                · exact testD_keeps_store I cond more (soundTabs_tail hs) hwc h
              have kt : ∀ σ v σ', eval I t σ = some (v, σ') → σ' = σ := by
                rcases pt with h | h
                · exact testD_keeps_store I t (rows :: more) hs hwt h
                · exact testD_keeps_store I t more (soundTabs_tail hs) hwt h
              have kf : ∀ σ v σ', eval I f σ = some (v, σ') → σ' = σ := by
                rcases pf with h | h
                · exact testD_keeps_store I f (rows :: more) hs hwf' h
                · exact testD_keeps_store I f more (soundTabs_tail hs) hwf' h
              unfold eval at he
              rw [if_neg hp, if_neg (by decide), if_pos rfl] at he
              simp only at he
              cases h1 : eval I cond σ with
              | none => rw [h1] at he; exact absurd he (by simp)
              | some p =>
                obtain ⟨vc, σ1⟩ := p
                have e1 := kc σ vc σ1 h1
                subst e1
                simp only [h1] at he
                cases hch : I.choose vc with
                | none => rw [hch] at he; exact absurd he (by simp)
                | some b =>
                  rw [hch] at he
                  cases b with
                  | true => exact kt σ1 v σ' he
                  | false => exact kf σ1 v σ' he
            | .nil, _, _, hlen, _ => simp [DFields.length] at hlen
            | .payload _ _, hwf, _, _, _ => simp [wfFields] at hwf
            | .many _ _, _, hgf, _, _ =>
              have h0 := hcov' 0 (by decide)
              simp only [testDFields, Bool.and_eq_true, Bool.not_eq_true'] at hgf
              rcases h0 with (h | h) | h
              · rw [hgf.1.1.1] at h; exact absurd h (by simp)
              · rw [hgf.1.1.2] at h; exact absurd h (by simp)
              · rw [hall 0] at h; exact absurd h (by simp)
            | .one _ .nil, _, _, hlen, _ => simp [DFields.length] at hlen
            | .one _ (.payload _ _), hwf, _, _, _ => simp [wfFields] at hwf
            | .one _ (.many _ _), _, hgf, _, _ =>
              have h0 := hcov' 1 (by decide)
              simp only [testDFields, Bool.and_eq_true, Bool.not_eq_true'] at hgf
              rcases h0 with (h | h) | h
              · rw [hgf.2.1.1.1] at h; exact absurd h (by simp)
              · rw [hgf.2.1.1.2] at h; exact absurd h (by simp)
              · rw [hall 1] at h; exact absurd h (by simp)
            | .one _ (.one _ .nil), _, _, hlen, _ => simp [DFields.length] at hlen
            | .one _ (.one _ (.payload _ _)), hwf, _, _, _ => simp [wfFields] at hwf
            | .one _ (.one _ (.many _ _)), _, hgf, _, _ =>
              have h0 := hcov' 2 (by decide)
              simp only [testDFields, Bool.and_eq_true, Bool.not_eq_true'] at hgf
              rcases h0 with (h | h) | h
              · rw [hgf.2.2.1.1.1] at h; exact absurd h (by simp)
              · rw [hgf.2.2.1.1.2] at h; exact absurd h (by simp)
              · rw [hall 2] at h; exact absurd h (by simp)
            | .one _ (.one _ (.one _ (.payload _ _))), _, _, hlen, _ => simp [DFields.length] at hlen
            | .one _ (.one _ (.one _ (.one _ _))), _, _, hlen, _ => simp [DFields.length] at hlen
            | .one _ (.one _ (.one _ (.many _ _))), _, _, hlen, _ => simp [DFields.length] at hlen
        · -- an `IntrinsicOp` restricted to pure operators
          rw [if_neg hops] at hkind
          simp only [Bool.and_eq_true, beq_iff_eq, List.all_eq_true] at hkind
          obtain ⟨⟨⟨hc, hpure⟩, hself⟩, hother⟩ := hkind
          subst hc
          have hk' : k = ⟨"IntrinsicOp", 2, [1]⟩ := by
            have : ctorOf "IntrinsicOp" = some ⟨"IntrinsicOp", 2, [1]⟩ := by decide
            rw [this] at hk; exact (Option.some.inj hk).symm
          subst hk'
          have hs0 : ∀ i, r.self.contains i = false := by
            intro i; have : r.self = [] := by simpa using hself
            simp [this]
          have ho0 : ∀ i, r.other.contains i = false := by
            intro i; have : r.other = [] := by simpa using hother
            simp [this]
          have hwf := hw.2
          have hgf := hg.2
          have hlen := hw.1
          match fs, hwf, hgf, hlen, he, hop with
          | .payload p (.many es .nil), hwf, hgf, _, he, hop =>
            simp only [wfFields, Bool.and_eq_true] at hwf
            have hwes : wfList es = true := hwf.2.1.2
            have hall1 : r.allOf.contains 1 = true := by
              rcases hcov' 1 (by decide) with (h | h) | h
              · rw [hs0 1] at h; exact absurd h (by simp)
              · rw [ho0 1] at h; exact absurd h (by simp)
              · exact h
            simp only [testDFields, Bool.and_eq_true] at hgf
            have hges : testDAll rows more es = true := by
              have := hgf.1.2
              rw [if_pos hall1] at this
              exact this
            have hpi : pureOpIdx p = true := by
              unfold opOK at hop
              have hne : r.ops.isEmpty = false := by simpa using hops
              rw [hne, Bool.false_or] at hop
              unfold pureOpIdx
              cases hn : intrinsicOpNames[p]? with
              | none => simp [hn] at hop
              | some n =>
                simp only [hn] at hop ⊢
                exact hpure n (by simpa using hop)
            unfold eval at he
            rw [if_neg (by decide), if_pos rfl] at he
            simp only [hpi, if_true] at he
            exact testDAll_keeps_lazy I es rows more hs hwes hges p [] σ v σ' he
          | .nil, _, _, hlen, _, _ => simp [DFields.length] at hlen
          | .one _ _, hwf, _, _, _, _ => simp [wfFields] at hwf
          | .many _ _, hwf, _, _, _, _ => simp [wfFields] at hwf
          | .payload _ .nil, _, _, hlen, _, _ => simp [DFields.length] at hlen
          | .payload _ (.payload _ _), hwf, _, _, _, _ => simp [wfFields] at hwf
          | .payload _ (.one _ _), _, hgf, _, _, _ =>
            have h0 := hcov' 1 (by decide)
            simp only [testDFields, Bool.and_eq_true, Bool.not_eq_true'] at hgf
            rcases h0 with (h | h) | h
            · rw [hs0 1] at h; exact absurd h (by simp)
            · rw [ho0 1] at h; exact absurd h (by simp)
            · rw [hgf.1.1] at h; exact absurd h (by simp)
          | .payload _ (.many _ (.payload _ _)), _, _, hlen, _, _ => simp [DFields.length] at hlen
          | .payload _ (.many _ (.one _ _)), _, _, hlen, _, _ => simp [DFields.length] at hlen
          | .payload _ (.many _ (.many _ _)), _, _, hlen, _, _ => simp [DFields.length] at hlen
theorem testDFields_keeps_store (I : Interp Val Store) :
    ∀ (fs : DFields) (rows : List PlaceRow) (more : List (List PlaceRow)) (r : PlaceRow), SoundTabs (rows :: more) = true →
      ∀ (exprFields : List Nat), (∀ j, exprFields.contains j = true →
          (r.self.contains j = true ∨ r.other.contains j = true) ∨ r.allOf.contains j = true) →
      ∀ (i : Nat), wfFields exprFields i fs = true → testDFields rows more r i fs = true →
      ∀ σ vs σ', evalFields I fs σ = some (vs, σ') → σ' = σ
  | .nil, _, _, _, _, _, _, _, _, _, σ, vs, σ', he => by
    unfold evalFields at he
    simp only [Option.some.injEq, Prod.mk.injEq] at he
    exact he.2.symm
  | .payload _ rest, rows, more, r, hs, ef, hcov, i, hw, hg, σ, vs, σ', he => by
    unfold wfFields at hw
    unfold testDFields at hg
    unfold evalFields at he
    simp only [Bool.and_eq_true] at hw
    exact testDFields_keeps_store I rest rows more r hs ef hcov (i + 1) hw.2 hg σ vs σ' he
  | .one e rest, rows, more, r, hs, ef, hcov, i, hw, hg, σ, vs, σ', he => by
    unfold wfFields at hw
    unfold testDFields at hg
    unfold evalFields at he
    simp only [Bool.and_eq_true] at hw hg
    have pe := one_field (hcov i hw.1.1) hg.1.1 hg.1.2
    cases h1 : eval I e σ with
    | none => rw [h1] at he; exact absurd he (by simp)
    | some p =>
      obtain ⟨v, σ1⟩ := p
      simp only [h1] at he
      have e1 : σ1 = σ := by
        rcases pe with h | h
        · exact testD_keeps_store I e (rows :: more) hs hw.1.2 h σ v σ1 h1
        · exact testD_keeps_store I e more (soundTabs_tail hs) hw.1.2 h σ v σ1 h1
      cases h2 : evalFields I rest σ1 with
      | none => rw [h2] at he; exact absurd he (by simp)
      | some q =>
        obtain ⟨ws, σ2⟩ := q
        simp only [h2] at he
        have e2 : σ2 = σ1 := testDFields_keeps_store I rest rows more r hs ef hcov (i + 1) hw.2 hg.2 σ1 ws σ2 h2
        simp only [Option.some.injEq, Prod.mk.injEq] at he
        rw [← he.2, e2, e1]
  | .many es rest, rows, more, r, hs, ef, hcov, i, hw, hg, σ, vs, σ', he => by
    unfold wfFields at hw
    unfold testDFields at hg
    unfold evalFields at he
    simp only [Bool.and_eq_true, Bool.not_eq_true'] at hw hg
    have hall : r.allOf.contains i = true := by
      rcases hcov i hw.1.1 with (h | h) | h
      · rw [hg.1.1.1] at h; exact absurd h (by simp)
      · rw [hg.1.1.2] at h; exact absurd h (by simp)
      · exact h
    have hges : testDAll rows more es = true := by
      have := hg.1.2
      rw [if_pos hall] at this
      exact this
    cases h1 : evalList I es σ with
    | none => rw [h1] at he; exact absurd he (by simp)
    | some p =>
      obtain ⟨ws, σ1⟩ := p
      simp only [h1] at he
      have e1 : σ1 = σ := testDAll_keeps_list I es rows more hs hw.1.2 hges σ ws σ1 h1
      cases h2 : evalFields I rest σ1 with
      | none => rw [h2] at he; exact absurd he (by simp)
      | some q =>
        obtain ⟨us, σ2⟩ := q
        simp only [h2] at he
        have e2 : σ2 = σ1 := testDFields_keeps_store I rest rows more r hs ef hcov (i + 1) hw.2 hg.2 σ1 us σ2 h2
        simp only [Option.some.injEq, Prod.mk.injEq] at he
        rw [← he.2, e2, e1]
theorem testDAll_keeps_list (I : Interp Val Store) :
    ∀ (es : DExprs) (rows : List PlaceRow) (more : List (List PlaceRow)), SoundTabs (rows :: more) = true →
      wfList es = true → testDAll rows more es = true → ∀ σ vs σ', evalList I es σ = some (vs, σ') → σ' = σ
  | .nil, _, _, _, _, _, σ, vs, σ', he => by
    unfold evalList at he
    simp only [Option.some.injEq, Prod.mk.injEq] at he
    exact he.2.symm
  | .cons e rest, rows, more, hs, hw, hg, σ, vs, σ', he => by
    unfold wfList at hw
    unfold testDAll at hg
    unfold evalList at he
    simp only [Bool.and_eq_true] at hw hg
    cases h1 : eval I e σ with
    | none => rw [h1] at he; exact absurd he (by simp)
    | some p =>
      obtain ⟨v, σ1⟩ := p
      simp only [h1] at he
      have e1 : σ1 = σ := testD_keeps_store I e (rows :: more) hs hw.1 hg.1 σ v σ1 h1
      cases h2 : evalList I rest σ1 with
      | none => rw [h2] at he; exact absurd he (by simp)
      | some q =>
        obtain ⟨ws, σ2⟩ := q
        simp only [h2] at he
        have e2 : σ2 = σ1 := testDAll_keeps_list I rest rows more hs hw.2 hg.2 σ1 ws σ2 h2
        simp only [Option.some.injEq, Prod.mk.injEq] at he
        rw [← he.2, e2, e1]
theorem testDAll_keeps_lazy (I : Interp Val Store) :
    ∀ (es : DExprs) (rows : List PlaceRow) (more : List (List PlaceRow)), SoundTabs (rows :: more) = true →
      wfList es = true → testDAll rows more es = true →
      ∀ (p : Nat) (acc : List Val) σ v σ', evalLazy I p es acc σ = some (v, σ') → σ' = σ
  | .nil, _, _, _, _, _, p, acc, σ, v, σ', he => by
    unfold evalLazy at he
    cases hst : I.step "IntrinsicOp" [p] acc σ with
    | none => rw [hst] at he; exact absurd he (by simp)
    | some w =>
      simp only [hst, Option.map_some, Option.some.injEq, Prod.mk.injEq] at he
      exact he.2.symm
  | .cons e rest, rows, more, hs, hw, hg, p, acc, σ, v, σ', he => by
    unfold wfList at hw
    unfold testDAll at hg
    unfold evalLazy at he
    simp only [Bool.and_eq_true] at hw hg
    cases h1 : eval I e σ with
    | none => rw [h1] at he; exact absurd he (by simp)
    | some q =>
      obtain ⟨w, σ1⟩ := q
      simp only [h1] at he
      have e1 : σ1 = σ := testD_keeps_store I e (rows :: more) hs hw.1 hg.1 σ w σ1 h1
      cases hea : I.early p (acc ++ [w]) σ1 with
      | some r' =>
        simp only [hea, Option.some.injEq, Prod.mk.injEq] at he
        rw [← he.2, e1]
      | none =>
        simp only [hea] at he
        have e2 := testDAll_keeps_lazy I rest rows more hs hw.2 hg.2 p (acc ++ [w]) σ1 v σ' he
        rw [e2, e1]
end

/-! ## the clauses of a struct cast -/

/-- a clause that converts evaluates the operand, then the cast's own step on the operand's value -/
theorem eval_convert (I : Interp Val Store) (e : DExpr) (t : Nat) (σ : Store) :
    eval I (clauseExpr e (.convert t)) σ =
      match eval I e σ with
      | none => none
      | some (v, σ1) => (I.step "Cast" [t] [v] σ1).map (fun w => (w, σ1)) := by
  have hcast : ∀ fs, eval I (.node "Cast" fs) σ =
      (match evalFields I fs σ with
        | none => none
        | some (vs, σ1) => match I.step "Cast" fs.payloads vs σ1 with
          | none => none
          | some v => some (v, σ1)) := by
    intro fs; unfold eval; rw [if_pos (by decide)]; rfl
  simp only [clauseExpr]
  rw [hcast]
  simp only [evalFields, DFields.payloads]
  cases eval I e σ with
  | none => rfl
  | some p =>
    obtain ⟨v, σ1⟩ := p
    simp only []
    cases I.step "Cast" [t] [v] σ1 <;> rfl

/-- one clause: the operand evaluated once, converted if the clause converts -/
theorem eval_clause (I : Interp Val Store) (e : DExpr) (c : Clause) (σ : Store) (v : Val) (σ' : Store)
    (he : eval I e σ = some (v, σ')) : eval I (clauseExpr e c) σ = (clauseVal I v σ' c).map (fun w => (w, σ')) := by
  cases c with
  | copy => simp [clauseExpr, clauseVal, he]
  | convert t => rw [eval_convert, he]; rfl

/-- the clauses of an operand that keeps the store: each the operand's one value, converted where the clause converts, and
the store unchanged — or undefined exactly when one of the conversions is -/
theorem clauses_of_keeps_store (I : Interp Val Store) (e : DExpr) (σ : Store) (v : Val) (he : eval I e σ = some (v, σ)) :
    ∀ (cs : List Clause), evalClauses I e cs σ = (mapOptL (clauseVal I v σ) cs).map (fun vs => (vs, σ))
  | [] => rfl
  | c :: cs => by
    unfold evalClauses mapOptL
    rw [eval_clause I e c σ v σ he]
    cases clauseVal I v σ c with
    | none => rfl
    | some w =>
      simp only [Option.map_some]
      rw [clauses_of_keeps_store I e σ v he cs]
      cases mapOptL (clauseVal I v σ) cs <;> rfl

end RsslVerif.Lemmas.MslDup

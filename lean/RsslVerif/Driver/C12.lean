import RsslVerif.Model.Include
import RsslVerif.Driver.Util
/-! Line-protocol front end of the C12 model (request syntax: see harness/src/c12.rs). -/
namespace RsslVerif.Driver.C12
open RsslVerif.Model.Macro RsslVerif.Model.Include RsslVerif.Driver

def isIdentString (s : String) : Bool :=
  match s.toList with
  | [] => false
  | c :: r => (c.isAlpha || c == '_') && r.all (fun d => d.isAlphanum || d == '_')

def parseTok (s : String) : Option Tok :=
  if s == "~" then some .ws
  else if s == "/**/" then some .ws
  else if s == "(" then some .lparen
  else if s == ")" then some .rparen
  else if s == "," then some .comma
  else if s == "##" then some .hashhash
  else if ["+", "-", "*", ";", "=", "{", "}"].contains s then some (.punct s)
  else if isDigitString s then some (.int s)
  else if isIdentString s then some (.id s)
  else none

def parseToks (s : String) : Option (List Tok) :=
  sequenceOpt (((s.splitOn " ").filter (· ≠ "")).map parseTok)

def parseLine (s : String) : Option Line :=
  let s := s.trimAscii.toString
  let (k, rest) := match s.splitOn " " with
    | [] => ("", "")
    | k :: r => (k, " ".intercalate r)
  match k with
  | "D" => (parseToks rest).map (fun t => .define (located t))
  | "U" => (parseToks rest).map (fun t => .undef (located t))
  | "I" => some (.incl rest.trimAscii.toString)
  | "O" => some .pragmaOnce
  | "W" => some .pragmaWarning
  | "T" => (parseToks rest).map (fun t => .text (located t))
  | _ => none

def parseFile (s : String) : Option (String × List Line) :=
  match s.splitOn "|" with
  | [] => none
  | head :: ls =>
    let name := match head.trimAscii.toString.splitOn ">" with
      | n :: _ => n
      | [] => ""
    (sequenceOpt (ls.map parseLine)).map (fun l => (name, l))

/-- an API entry is `NAME value-tokens`, or `name-tokens := value-tokens` when the name is not one identifier -/
def parseApi (s : String) : Option (List ApiDefine) :=
  if s == "-" then some []
  else sequenceOpt ((s.splitOn "|").map fun e =>
    let ws := (e.trimAscii.toString.splitOn " ").filter (· ≠ "")
    match ws.span (· ≠ ":=") with
    | (n, _ :: v) =>
      match sequenceOpt (n.map parseTok), sequenceOpt (v.map parseTok) with
      | some n, some v => some ⟨n, v⟩
      | _, _ => none
    | (_, []) =>
      match ws with
      | [] => none
      | n :: v =>
        match parseTok n, sequenceOpt (v.map parseTok) with
        | some n, some v => some ⟨[n], v⟩
        | _, _ => none)

def handlerOf (files : List (String × List Line)) : Handler :=
  fun n => (files.find? (·.1 == n)).map (·.2)

def showTok : Tok → String
  | .id s | .int s | .punct s => s
  | .lparen => "("
  | .rparen => ")"
  | .comma => ","
  | .ws => "~"
  | .endline => "~"
  | .hashhash => "##"
  | .concat => "?Concat"
  | .arg i => "?MacroArg(" ++ toString i ++ ")"

def showErr : Err → String
  | .invalidDefine => "err InvalidDefine"
  | .invalidUndef => "err InvalidUndef"
  | .macroRequiresArguments n => "err MacroRequiresArguments(" ++ n ++ ")"
  | .macroArgumentsNeverEnd => "err MacroArgumentsNeverEnd"
  | .macroExpectsDifferentNumberOfArguments => "err MacroExpectsDifferentNumberOfArguments"
  | .concatMissingLeftToken => "err ConcatMissingLeftToken"
  | .concatMissingRightToken => "err ConcatMissingRightToken"
  | .concatFailed => "err ConcatFailed"
  | .failedToFindFile n => "err FailedToFindFile(" ++ n ++ ")"
  | .panic site => "panic " ++ site
  | .hang => "model-hang"
  | .guard w => "model-guard " ++ w
  | .unsupported w => "unsupported " ++ w
  | .includeFuel => "unsupported include depth"

def run (api : List ApiDefine) (files : List (String × List Line)) : String :=
  match files with
  | [] => "bad-request"
  | (entry, _) :: _ =>
    match preprocess (handlerOf files) 64 api entry with
    | .error e => showErr e
    | .ok ts =>
      match prepare ts with
      | .error e => showErr e
      | .ok out => (" ".intercalate ("ok" :: out.map showTok))

def handle (op : String) (args : List String) : String :=
  match op, args with
  | "C12.run", api :: files =>
    match parseApi api, sequenceOpt (files.map parseFile) with
    | some api, some files => run api files
    | _, _ => "bad-request"
  | "C12.limit", _ => "unsupported (resource test on the real code only)"
  | _, _ => "unsupported-op"

end RsslVerif.Driver.C12

import RsslVerif.Lemmas.RoundtripFull0
/-! Every function of the full parser model returns a suffix of its input; consequences for `expr_p1_call`'s
template-argument attempt. -/
set_option linter.unusedSimpArgs false
set_option linter.unusedVariables false
namespace RsslVerif.Lemmas.RoundtripFull
open RsslVerif.Gen.FmtTables RsslVerif.Gen.ParseTables RsslVerif.Gen.SyntaxTables RsslVerif.Model.Format
open RsslVerif.Model.FormatFull RsslVerif.Model.ParseFull RsslVerif.Lemmas.FmtParseTables

variable (W : List String)

theorem suf_cons {r ts : List Tok} (t : Tok) (h : r <:+ ts) : r <:+ t :: ts := h.trans (List.suffix_cons t ts)

theorem takeModsBefore_suffix : ∀ ts, (takeModsBefore ts).2 <:+ ts
  | [] => by simp [takeModsBefore]
  | t :: rest => by
    unfold takeModsBefore
    split
    · simp only []; exact suf_cons t (takeModsBefore_suffix rest)
    · exact suf_cons t (takeModsBefore_suffix rest)
    · exact List.suffix_refl _

theorem takeModsAfter_suffix : ∀ ts, (takeModsAfter ts).2 <:+ ts
  | [] => by simp [takeModsAfter]
  | t :: rest => by
    unfold takeModsAfter
    split
    · simp only []; exact suf_cons t (takeModsAfter_suffix rest)
    · exact List.suffix_refl _

theorem matchPrefix_suffix : ∀ ps ts r, matchPrefix ps ts = some r → r <:+ ts
  | [], ts, r, h => by simp [matchPrefix] at h; subst h; exact List.suffix_refl _
  | p :: ps, [], r, h => by simp [matchPrefix] at h
  | p :: ps, t :: ts, r, h => by
    simp only [matchPrefix] at h
    split at h
    · exact suf_cons t (matchPrefix_suffix ps ts r h)
    · cases h


theorem firstArm_mem {α : Type} : ∀ (l : List (Option (Option α))) (x : α), firstArm l = some x → some (some x) ∈ l
  | [], x, h => by simp [firstArm] at h
  | some r :: rest, x, h => by simp [firstArm] at h; subst h; simp
  | none :: rest, x, h => by
    simp only [firstArm] at h
    exact List.mem_cons_of_mem _ (firstArm_mem rest x h)

/-- one generated arm -/
theorem arm_suffix (ps : List (Tok → Bool)) (ts : List Tok) (g : List Tok → Option (Option (BinOp × List Tok)))
    (op : BinOp) (r : List Tok)
    (hg : ∀ rest, g rest = some (some (op, r)) → r = rest)
    (h : (match matchPrefix ps ts with | some rest => g rest | none => none) = some (some (op, r))) : r <:+ ts := by
  split at h
  · rename_i rest heq
    have := hg rest h
    subst this
    exact matchPrefix_suffix _ _ _ heq
  · cases h

macro "arms_suffix" : tactic => `(tactic|
  (intro hmem
   simp only [List.mem_cons, List.mem_nil_iff, or_false] at hmem
   repeat' (rcases hmem with hmem | hmem)
   all_goals
     (apply arm_suffix _ _ _ _ _ _ hmem.symm
      intro rest hr
      first
        | (simp only [Option.some.injEq, Prod.mk.injEq] at hr; exact hr.2.symm)
        | (split at hr <;> first | (simp only [Option.some.injEq, Prod.mk.injEq] at hr; exact hr.2.symm) | cases hr)
        | cases hr)))

theorem parseOp3_suffix (term : Terminator) (ts : List Tok) (op : BinOp) (r : List Tok)
    (h : parseOp3 term ts = some (op, r)) : r <:+ ts := by
  have := firstArm_mem _ _ h
  revert this
  arms_suffix
theorem parseOp4_suffix (term : Terminator) (ts : List Tok) (op : BinOp) (r : List Tok)
    (h : parseOp4 term ts = some (op, r)) : r <:+ ts := by
  have := firstArm_mem _ _ h
  revert this
  arms_suffix
theorem parseOp5_suffix (term : Terminator) (ts : List Tok) (op : BinOp) (r : List Tok)
    (h : parseOp5 term ts = some (op, r)) : r <:+ ts := by
  have := firstArm_mem _ _ h
  revert this
  arms_suffix
theorem parseOp6_suffix (term : Terminator) (ts : List Tok) (op : BinOp) (r : List Tok)
    (h : parseOp6 term ts = some (op, r)) : r <:+ ts := by
  have := firstArm_mem _ _ h
  revert this
  arms_suffix
theorem parseOp7_suffix (term : Terminator) (ts : List Tok) (op : BinOp) (r : List Tok)
    (h : parseOp7 term ts = some (op, r)) : r <:+ ts := by
  have := firstArm_mem _ _ h
  revert this
  arms_suffix
theorem parseOp8_suffix (term : Terminator) (ts : List Tok) (op : BinOp) (r : List Tok)
    (h : parseOp8 term ts = some (op, r)) : r <:+ ts := by
  have := firstArm_mem _ _ h
  revert this
  arms_suffix
theorem parseOp9_suffix (term : Terminator) (ts : List Tok) (op : BinOp) (r : List Tok)
    (h : parseOp9 term ts = some (op, r)) : r <:+ ts := by
  have := firstArm_mem _ _ h
  revert this
  arms_suffix
theorem parseOp10_suffix (term : Terminator) (ts : List Tok) (op : BinOp) (r : List Tok)
    (h : parseOp10 term ts = some (op, r)) : r <:+ ts := by
  have := firstArm_mem _ _ h
  revert this
  arms_suffix
theorem parseOp11_suffix (term : Terminator) (ts : List Tok) (op : BinOp) (r : List Tok)
    (h : parseOp11 term ts = some (op, r)) : r <:+ ts := by
  have := firstArm_mem _ _ h
  revert this
  arms_suffix
theorem parseOp12_suffix (term : Terminator) (ts : List Tok) (op : BinOp) (r : List Tok)
    (h : parseOp12 term ts = some (op, r)) : r <:+ ts := by
  have := firstArm_mem _ _ h
  revert this
  arms_suffix
theorem parseOp14_suffix (term : Terminator) (ts : List Tok) (op : BinOp) (r : List Tok)
    (h : parseOp14 term ts = some (op, r)) : r <:+ ts := by
  have := firstArm_mem _ _ h
  revert this
  arms_suffix
theorem parseOp15_suffix (term : Terminator) (ts : List Tok) (op : BinOp) (r : List Tok)
    (h : parseOp15 term ts = some (op, r)) : r <:+ ts := by
  have := firstArm_mem _ _ h
  revert this
  arms_suffix

theorem parseOpAt_suffix (k : Nat) (term : Terminator) (ts : List Tok) (op : BinOp) (r : List Tok)
    (h : parseOpAt k term ts = some (op, r)) : r <:+ ts := by
  unfold parseOpAt at h
  split at h
  · exact parseOp3_suffix term ts op r h
  · exact parseOp4_suffix term ts op r h
  · exact parseOp5_suffix term ts op r h
  · exact parseOp6_suffix term ts op r h
  · exact parseOp7_suffix term ts op r h
  · exact parseOp8_suffix term ts op r h
  · exact parseOp9_suffix term ts op r h
  · exact parseOp10_suffix term ts op r h
  · exact parseOp11_suffix term ts op r h
  · exact parseOp12_suffix term ts op r h
  · exact parseOp14_suffix term ts op r h
  · exact parseOp15_suffix term ts op r h
  · cases h

theorem suf_of_cons {t : Tok} {r ts : List Tok} (h : (t :: r) <:+ ts) : r <:+ ts := (List.suffix_cons t r).trans h

/-- every parser function returns a suffix of its input -/
def SufAll (f : Nat) : Prop :=
  (∀ k term ts e r, xparseLvl W f k term ts = some (e, r) → r <:+ ts) ∧
  (∀ term ts e r, castAlt W f term ts = some (e, r) → r <:+ ts) ∧
  (∀ k term acc ts e r, xcont W f k term acc ts = some (e, r) → r <:+ ts) ∧
  (∀ ts a r, xparseArgs W f ts = some (a, r) → r <:+ ts) ∧
  (∀ ts a r, xparseArgs1 W f ts = some (a, r) → r <:+ ts) ∧
  (∀ ts a r, parseTArgsReq W f ts = some (a, r) → r <:+ ts) ∧
  (∀ ts a r, parseTArgList W f ts = some (a, r) → r <:+ ts) ∧
  (∀ sym ts a r, parseEOT W f sym ts = some (a, r) → r <:+ ts) ∧
  (∀ sym ts a r, parseTyId W f sym ts = some (a, r) → r <:+ ts) ∧
  (∀ ab ts a r, parseDecl W f ab ts = some (a, r) → r <:+ ts) ∧
  (∀ acc ts a r, parseArrDims W f acc ts = some (a, r) → r <:+ ts)

theorem sufAll_zero : SufAll W 0 := by
  refine ⟨?_, ?_, ?_, ?_, ?_, ?_, ?_, ?_, ?_, ?_, ?_⟩ <;> intros <;> rename_i h <;>
    simp [xparseLvl, castAlt, xcont, xparseArgs, xparseArgs1, parseTArgsReq, parseTArgList, parseEOT, parseTyId,
      parseDecl, parseArrDims] at h

theorem sufAll_succ (f : Nat) (ih : SufAll W f) : SufAll W (f + 1) := by
  obtain ⟨iL, iC, iK, iA, iA1, iT, iTL, iE, iTy, iD, iAD⟩ := ih
  refine ⟨?_, ?_, ?_, ?_, ?_, ?_, ?_, ?_, ?_, ?_, ?_⟩
  · -- xparseLvl
    intro k term ts e r h
    cases k with
    | zero =>
      unfold xparseLvl at h
      split at h
      · simp only [Option.some.injEq, Prod.mk.injEq] at h; obtain ⟨_, rfl⟩ := h; exact List.suffix_cons _ _
      · simp only [Option.some.injEq, Prod.mk.injEq] at h; obtain ⟨_, rfl⟩ := h; exact List.suffix_cons _ _
      · split at h
        · rename_i heq
          simp only [Option.some.injEq, Prod.mk.injEq] at h; obtain ⟨_, rfl⟩ := h
          exact suf_cons _ (suf_of_cons (iL _ _ _ _ _ heq))
        · cases h
      · cases h
    | succ k =>
      unfold xparseLvl at h
      split at h
      · -- level 2
        split at h
        · cases h
        · rename_i t rest
          split at h
          · split at h
            · rename_i heq
              simp only [Option.some.injEq, Prod.mk.injEq] at h; obtain ⟨_, rfl⟩ := h
              exact suf_cons _ (iL _ _ _ _ _ heq)
            · cases h
          · split at h
            · split at h
              · split at h
                · rename_i heq
                  simp only [Option.some.injEq, Prod.mk.injEq] at h; obtain ⟨_, rfl⟩ := h
                  exact suf_cons _ (suf_cons _ (suf_of_cons (iE _ _ _ _ heq)))
                · cases h
              · cases h
            · split at h
              · rename_i res heq
                simp only [Option.some.injEq] at h; subst h
                split at heq
                · exact suf_cons _ (iC _ _ _ _ heq)
                · cases heq
              · split at h
                · rename_i heq
                  exact (iK _ _ _ _ _ _ h).trans (iL _ _ _ _ _ heq)
                · cases h
      · split at h
        · rename_i heq
          exact (iK _ _ _ _ _ _ h).trans (iL _ _ _ _ _ heq)
        · cases h
  · -- castAlt
    intro term ts e r h
    unfold castAlt at h
    split at h
    · rename_i heq
      split at h
      · rename_i heq2
        simp only [Option.some.injEq, Prod.mk.injEq] at h; obtain ⟨_, rfl⟩ := h
        exact (iL _ _ _ _ _ heq2).trans (suf_of_cons (iTy _ _ _ _ heq))
      · cases h
    · cases h
  · -- xcont
    intro k term acc ts e r h
    unfold xcont at h
    split at h
    · -- level 1
      split at h
      · exact suf_cons _ (iK _ _ _ _ _ _ h)
      · exact suf_cons _ (iK _ _ _ _ _ _ h)
      · exact suf_cons _ (suf_cons _ (iK _ _ _ _ _ _ h))
      · cases h
      · split at h
        · rename_i heq
          exact suf_cons _ ((iK _ _ _ _ _ _ h).trans (suf_of_cons (iL _ _ _ _ _ heq)))
        · cases h
      · split at h
        · rename_i heq
          exact suf_cons _ ((iK _ _ _ _ _ _ h).trans (iA _ _ _ heq))
        · cases h
      · split at h
        · rename_i heq
          split at h
          · rename_i heq2
            exact (iK _ _ _ _ _ _ h).trans ((iA _ _ _ heq2).trans (suf_of_cons (iT _ _ _ heq)))
          · cases h
        · simp only [Option.some.injEq, Prod.mk.injEq] at h; obtain ⟨_, rfl⟩ := h; exact List.suffix_refl _
      · simp only [Option.some.injEq, Prod.mk.injEq] at h; obtain ⟨_, rfl⟩ := h; exact List.suffix_refl _
    · split at h
      · simp only [Option.some.injEq, Prod.mk.injEq] at h; obtain ⟨_, rfl⟩ := h; exact List.suffix_refl _
      · split at h
        · -- 13
          split at h
          · split at h
            · rename_i heq
              split at h
              · rename_i heq2
                simp only [Option.some.injEq, Prod.mk.injEq] at h; obtain ⟨_, rfl⟩ := h
                exact suf_cons _ ((iL _ _ _ _ _ heq2).trans (suf_of_cons (iL _ _ _ _ _ heq)))
              · simp only [Option.some.injEq, Prod.mk.injEq] at h; obtain ⟨_, rfl⟩ := h; exact List.suffix_refl _
            · simp only [Option.some.injEq, Prod.mk.injEq] at h; obtain ⟨_, rfl⟩ := h; exact List.suffix_refl _
          · simp only [Option.some.injEq, Prod.mk.injEq] at h; obtain ⟨_, rfl⟩ := h; exact List.suffix_refl _
        · split at h
          · -- 14
            split at h
            · rename_i heq
              split at h
              · rename_i heq2
                simp only [Option.some.injEq, Prod.mk.injEq] at h; obtain ⟨_, rfl⟩ := h
                exact (iL _ _ _ _ _ heq2).trans (parseOpAt_suffix _ _ _ _ _ heq)
              · simp only [Option.some.injEq, Prod.mk.injEq] at h; obtain ⟨_, rfl⟩ := h; exact List.suffix_refl _
            · simp only [Option.some.injEq, Prod.mk.injEq] at h; obtain ⟨_, rfl⟩ := h; exact List.suffix_refl _
          · split at h
            · rename_i heq
              split at h
              · rename_i heq2
                exact (iK _ _ _ _ _ _ h).trans ((iL _ _ _ _ _ heq2).trans (parseOpAt_suffix _ _ _ _ _ heq))
              · cases h
            · simp only [Option.some.injEq, Prod.mk.injEq] at h; obtain ⟨_, rfl⟩ := h; exact List.suffix_refl _
  · -- xparseArgs
    intro ts a r h
    unfold xparseArgs at h
    split at h
    · simp only [Option.some.injEq, Prod.mk.injEq] at h; obtain ⟨_, rfl⟩ := h; exact List.suffix_cons _ _
    · exact iA1 _ _ _ h
  · -- xparseArgs1
    intro ts a r h
    unfold xparseArgs1 at h
    split at h
    · rename_i heq
      split at h
      · rename_i heq2
        simp only [Option.some.injEq, Prod.mk.injEq] at h; obtain ⟨_, rfl⟩ := h
        exact (iA1 _ _ _ heq2).trans (suf_of_cons (iL _ _ _ _ _ heq))
      · cases h
    · rename_i heq
      simp only [Option.some.injEq, Prod.mk.injEq] at h; obtain ⟨_, rfl⟩ := h
      exact suf_of_cons (iL _ _ _ _ _ heq)
    · cases h
  · -- parseTArgsReq
    intro ts a r h
    unfold parseTArgsReq at h
    split at h
    · simp only [Option.some.injEq, Prod.mk.injEq] at h; obtain ⟨_, rfl⟩ := h
      exact suf_cons _ (List.suffix_cons _ _)
    · split at h
      · rename_i heq
        simp only [Option.some.injEq, Prod.mk.injEq] at h; obtain ⟨_, rfl⟩ := h
        exact suf_cons _ (suf_of_cons (iTL _ _ _ heq))
      · cases h
    · cases h
  · -- parseTArgList
    intro ts a r h
    unfold parseTArgList at h
    split at h
    · rename_i heq
      split at h
      · rename_i heq2
        simp only [Option.some.injEq, Prod.mk.injEq] at h; obtain ⟨_, rfl⟩ := h
        exact (iTL _ _ _ heq2).trans (suf_of_cons (iE _ _ _ _ heq))
      · cases h
    · rename_i heq
      simp only [Option.some.injEq, Prod.mk.injEq] at h; obtain ⟨_, rfl⟩ := h
      exact iE _ _ _ _ heq
    · cases h
  · -- parseEOT
    intro sym ts a r h
    unfold parseEOT at h
    split at h
    · rename_i heq1 heq2
      split at h
      · simp only [Option.some.injEq, Prod.mk.injEq] at h; obtain ⟨_, rfl⟩ := h; exact iTy _ _ _ _ heq1
      · split at h
        · simp only [Option.some.injEq, Prod.mk.injEq] at h; obtain ⟨_, rfl⟩ := h; exact iTy _ _ _ _ heq1
        · simp only [Option.some.injEq, Prod.mk.injEq] at h; obtain ⟨_, rfl⟩ := h; exact iL _ _ _ _ _ heq2
    · rename_i heq1 heq2
      simp only [Option.some.injEq, Prod.mk.injEq] at h; obtain ⟨_, rfl⟩ := h; exact iTy _ _ _ _ heq1
    · rename_i heq1 heq2
      simp only [Option.some.injEq, Prod.mk.injEq] at h; obtain ⟨_, rfl⟩ := h; exact iL _ _ _ _ _ heq2
    · cases h
  · -- parseTyId
    intro sym ts a r h
    unfold parseTyId at h
    split at h
    · rename_i mods n r0 heq
      have h0 : (.id n :: r0) <:+ ts := by
        have := takeModsBefore_suffix ts
        rw [heq] at this
        exact this
      split at h
      · cases h
      · have h1 : ∀ x, (match parseTArgsReq W f r0 with | some x => x | none => (TArgs.nil, r0)) = x → x.2 <:+ r0 := by
          intro x hx
          split at hx
          · rename_i y hy; subst hx; exact iT _ _ _ hy
          · subst hx; exact List.suffix_refl _
        simp only [] at h
        split at h
        · rename_i heq3
          simp only [Option.some.injEq, Prod.mk.injEq] at h; obtain ⟨_, rfl⟩ := h
          exact (iD _ _ _ _ heq3).trans ((takeModsAfter_suffix _).trans ((h1 _ rfl).trans (suf_of_cons h0)))
        · cases h
    · cases h
  · -- parseDecl
    intro ab ts a r h
    unfold parseDecl at h
    split at h
    · cases h
    · simp only [] at h
      split at h
      · rename_i heq
        simp only [Option.some.injEq, Prod.mk.injEq] at h; obtain ⟨_, rfl⟩ := h
        exact suf_cons _ ((iD _ _ _ _ heq).trans (takeModsAfter_suffix _))
      · cases h
    · cases h
    · split at h
      · rename_i heq
        simp only [Option.some.injEq, Prod.mk.injEq] at h; obtain ⟨_, rfl⟩ := h
        exact suf_cons _ (iD _ _ _ _ heq)
      · cases h
    · split at h
      · exact iAD _ _ _ _ h
      · split at h
        · exact suf_cons _ (iAD _ _ _ _ h)
        · cases h
  · -- parseArrDims
    intro acc ts a r h
    unfold parseArrDims at h
    split at h
    · split at h
      · rename_i heq
        exact suf_cons _ ((iAD _ _ _ _ h).trans (suf_of_cons (iL _ _ _ _ _ heq)))
      · simp only [Option.some.injEq, Prod.mk.injEq] at h; obtain ⟨_, rfl⟩ := h; exact List.suffix_refl _
      · split at h
        · exact suf_cons _ (suf_cons _ (iAD _ _ _ _ h))
        · simp only [Option.some.injEq, Prod.mk.injEq] at h; obtain ⟨_, rfl⟩ := h; exact List.suffix_refl _
    · simp only [Option.some.injEq, Prod.mk.injEq] at h; obtain ⟨_, rfl⟩ := h; exact List.suffix_refl _

theorem sufAll : ∀ f, SufAll W f
  | 0 => sufAll_zero W
  | f + 1 => sufAll_succ W f (sufAll f)

/-! ## The template-argument attempt needs a `>` directly followed by `(` -/

/-- no `>` is directly followed by `(` -/
def TmplFree : List Tok → Bool
  | .gt _ :: .p .LeftParen :: _ => false
  | _ :: rest => TmplFree rest
  | [] => true

theorem tmplFree_suffix : ∀ {ts r : List Tok}, r <:+ ts → TmplFree ts = true → TmplFree r = true := by
  intro ts
  induction ts with
  | nil => intro r h _; have := List.eq_nil_of_suffix_nil h; subst this; rfl
  | cons t ts ih =>
    intro r h hf
    rcases List.suffix_cons_iff.mp h with rfl | h'
    · exact hf
    · apply ih h'
      cases t with
      | gt b =>
        cases ts with
        | nil => rfl
        | cons u ts' =>
          by_cases hu : u = .p .LeftParen
          · subst hu; simp [TmplFree] at hf
          · unfold TmplFree at hf
            split at hf
            · rename_i heq; simp at heq; exact absurd heq.2.1 hu
            · rename_i heq; simp at heq; obtain ⟨_, rfl⟩ := heq; exact hf
            · rename_i heq; cases heq
      | _ => simpa [TmplFree] using hf

theorem tmplFree_append_left {a b : List Tok} (h : TmplFree (a ++ b) = true) : TmplFree b = true :=
  tmplFree_suffix (List.suffix_append a b) h

/-- a successful `parse_template_args_req` ends with its closing `>` -/
theorem targsReq_shape (f : Nat) (ts : List Tok) (a : TArgs) (r : List Tok) (h : parseTArgsReq W f ts = some (a, r)) :
    ∃ b, (.gt b :: r) <:+ ts := by
  cases f with
  | zero => simp [parseTArgsReq] at h
  | succ f =>
    unfold parseTArgsReq at h
    split at h
    · rename_i b1 b2 r0
      simp only [Option.some.injEq, Prod.mk.injEq] at h; obtain ⟨_, rfl⟩ := h
      exact ⟨b2, List.suffix_cons _ _⟩
    · split at h
      · rename_i b1 r0 _ as b2 r' heq
        simp only [Option.some.injEq, Prod.mk.injEq] at h; obtain ⟨_, rfl⟩ := h
        exact ⟨b2, suf_cons _ ((sufAll W f).2.2.2.2.2.2.1 _ _ _ heq)⟩
      · cases h
    · cases h

theorem tmplDead_of_free (ts : List Tok) (h : TmplFree ts = true) : TmplDead W ts := by
  intro f
  split
  · rename_i a r heq
    obtain ⟨b, hs⟩ := targsReq_shape W f ts a _ heq
    have := tmplFree_suffix hs h
    simp [TmplFree] at this
  · trivial

end RsslVerif.Lemmas.RoundtripFull

"""Gen.CompileTables: facts re-extracted from src/compile.rs and every reader of `Module.pipelines`."""
import os
import re


def register(gen, T):
    R = T  # translate module

    @gen("CompileTables")
    def compile_tables():
        from rustsrc import ExtractError, fn_body, first_match, match_arms, lean_str, normws
        compile_rs = T.src("src/compile.rs")
        out = [T.header("CompileTables", ["src/compile.rs", "all crates (readers of Module.pipelines)"])]
        body = fn_body(compile_rs, "compile")
        bp = fn_body(compile_rs, "build_pipeline")

        # --- MSL entry point names per stage (match stage.stage inside the Msl arm of build_pipeline)
        m = re.search(r'entry_point:\s*String::from\(\s*match\s+stage\.stage\s*\{', bp)
        if not m:
            raise ExtractError("MSL entry_point match not found in build_pipeline")
        scrut, arms_text, _ = first_match(bp, r'^stage\.stage$', m.start())
        stages = []
        for pats, guard, result in match_arms(arms_text):
            if guard is not None:
                raise ExtractError("guard in MSL entry name match")
            sm = re.fullmatch(r'"([A-Za-z0-9_]+)"', result)
            if not sm:
                raise ExtractError(f"MSL entry name {result!r}")
            for p in pats:
                pm = re.fullmatch(r'ShaderStage::([A-Za-z]+)', p)
                if not pm:
                    raise ExtractError(f"stage pattern {p!r}")
                stages.append((pm.group(1), sm.group(1)))
        out.append("inductive Stage where | Vertex | Task | Mesh | Pixel | Compute\n  deriving DecidableEq, Repr, Inhabited\n\n")
        out.append("def Stage.name : Stage → String\n  | .Vertex => \"Vertex\" | .Task => \"Task\" | .Mesh => \"Mesh\" | .Pixel => \"Pixel\" | .Compute => \"Compute\"\n\n")
        out.append("/-- entry point names reported for Metal (build_pipeline, Msl arm) -/\ndef mslEntryName : Stage → String\n")
        seen = set()
        for st, nm in stages:
            if st in seen:
                continue
            seen.add(st)
            out.append(f"  | .{st} => {lean_str(nm)}\n")
        if seen != {"Vertex", "Task", "Mesh", "Pixel", "Compute"}:
            raise ExtractError(f"MSL entry names cover {sorted(seen)}")
        # HLSL reports the name the exporter generated for each stage's entry function (in stage order)
        nbp0 = normws(bp)
        hl = (re.search(r'for \(stage, entry_point\) in pipeline \.stages \.iter\(\) \.zip\(&exported_source\.entry_point_names\)', nbp0)
              and re.search(r'entry_point: entry_point\.clone\(\),', nbp0))
        hlsl_lib = normws(T.src("hlsl/src/ast_generate.rs"))
        gen_names = re.search(r'for stage in &module\.pipelines\[pipeline\]\.stages \{ entry_point_names\.push\(context\.get_function_name\(stage\.entry_point\)\?\.to_string\(\)\); \}', hlsl_lib)
        out.append(f"\n/-- HLSL stages report the exporter's generated name of the entry function, one per stage in order -/\ndef hlslReportsEmittedName : Bool := {'true' if (hl and gen_names) else 'false'}\n\n")
        # --- shape of the selection loop
        nb = normws(body)
        facts = {
            "noPipelineModeBuildsOnce": r'if args\.no_pipeline_mode \{ output_pipelines\.push\(build_pipeline\( &args, &ir, &source_manager, &binding_params, None,',
            "loopsOverPipelinesInOrder": r'\} else \{ for pipeline in &ir\.pipelines \{',
            "nameFilterSkips": r'if let Some\(name\) = args\.pipeline_name && pipeline\.name\.node != name \{ continue; \}',
            "buildsSelected": r'output_pipelines\.push\(build_pipeline\( &args, &ir, &source_manager, &binding_params, Some\(pipeline\),',
            "multiplePanics": r'if let Some\(name\) = args\.pipeline_name \{ if output_pipelines\.len\(\) > 1 \{ panic!\(',
            "unknownNameIsError": r'if output_pipelines\.is_empty\(\) \{ return Err\(CompileError::Text\(format!\( "Shader does not contain the pipeline: \{\}", name \)\)\); \}',
            "noPipelineIsError": r'\} else if output_pipelines\.is_empty\(\) && !args\.no_pipeline_mode \{ return Err\(CompileError::Text\(String::from\( "Shader does not contain a single pipeline", \)\)\); \}',
            "returnsAllOutputs": r'Ok\(output_pipelines\)\s*$',
        }
        out.append("/-- syntactic facts about compile()'s selection loop (each is a regex over the normalised source) -/\n")
        out.append("structure LoopShape where\n" + "".join(f"  {k} : Bool\n" for k in facts) + "  deriving DecidableEq, Repr\n\n")
        vals = []
        for k, rx in facts.items():
            vals.append(f"{k} := {'true' if re.search(rx, nb) else 'false'}")
        out.append("def loopShape : LoopShape := { " + ", ".join(vals) + " }\n\n")
        # build_pipeline selects by name and clones
        nbp = normws(bp)
        sel = re.search(r'let ir = ir\.clone\(\); let ir = if let Some\(pipeline\) = pipeline \{ ir\.select_pipeline\(&pipeline\.name\)\.unwrap\(\) \} else \{ ir \};', nbp)
        out.append(f"def buildClonesAndSelectsByName : Bool := {'true' if sel else 'false'}\n\n")

        # --- every textual use of `.pipelines` in non-test sources, classified
        uses = []
        for crate in ["src", "ir/src", "hlsl/src", "msl/src", "typer/src", "parser/src", "formatter/src", "preprocess/src", "text/src", "ast/src"]:
            base = os.path.join(T.REPO, crate)
            for dp, _, files in os.walk(base):
                for fn in sorted(files):
                    if not fn.endswith(".rs") or fn.endswith("tests.rs"):
                        continue
                    rel = os.path.relpath(os.path.join(dp, fn), T.REPO)
                    text = T.src(rel)
                    for m in re.finditer(r'\.pipelines\b(\s*\[[^\]]*\]|\s*\.\s*[a-z_]+\s*\(|\s*\{)?', text):
                        tail = normws(m.group(1) or "")
                        pre = re.sub(r'\s*\.\s*', '.', text[max(0, m.start() - 60):m.start()] + '.')[:-1]
                        owner = re.search(r'([A-Za-z_\.]+)$', pre)
                        owner = owner.group(1) if owner else "?"
                        if tail.startswith("["):
                            idx = tail[1:-1].strip()
                            cls = "index:" + idx
                        elif tail.startswith("."):
                            cls = "method:" + re.sub(r'[\s\.\(]', '', tail)
                        else:
                            cls = "plain"
                        uses.append((rel, owner, cls))
        out.append("/-- every textual use of `.pipelines` in non-test sources: (file, receiver, use class) -/\n")
        out.append("def pipelineUses : List (String × String × String) := [\n")
        out.append(",\n".join(f"  ({lean_str(a)}, {lean_str(b)}, {lean_str(c)})" for a, b, c in sorted(set(uses))))
        out.append("\n]\n")
        out.append(T.footer("CompileTables"))
        return "".join(out)

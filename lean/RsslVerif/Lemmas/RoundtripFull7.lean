import RsslVerif.Lemmas.RoundtripFull6
/-! Round trip for the full expression model: cast, sizeof, calls (with template arguments), and the induction over
the mutually defined trees. -/
set_option linter.unusedSimpArgs false
set_option linter.unusedVariables false
namespace RsslVerif.Lemmas.RoundtripFull
open RsslVerif.Gen.FmtTables RsslVerif.Gen.ParseTables RsslVerif.Gen.SyntaxTables RsslVerif.Model.Format
open RsslVerif.Model.FormatFull RsslVerif.Model.ParseFull RsslVerif.Lemmas.FmtParseTables

variable (W : List String)

theorem rt_cast (t : TyId) (x : XExpr) (hwf : WF W (.cast t x)) (iht : RTTy W t) (ihx : RT W x) : RT W (.cast t x) := by
  intro k term rest out hgt hle hk htf hno hsafe hfin
  obtain ⟨hwt, hin, _, hwx⟩ := hwf
  have hlvl : (XExpr.cast t x).lvl = 2 := rfl
  rw [hlvl] at hle hfin
  rw [toks_cast] at hsafe ⊢
  simp only [List.cons_append, List.append_assoc] at hsafe ⊢
  have hpo : PosOk precCast castOperandSide := Or.inl (by decide)
  have hx : Parses W 2 term (toks (fmtSubX x precCast castOperandSide) ++ rest) (x, rest) :=
    rts_self W ihx _ _ 2 term rest (by omega)
      (fun hp => ⟨pos_castOperand x hp, fun h => by have := pos_castOperand x hp; omega,
        fun ht => gtSub (by have := hgt ht; simpa [gtFree] using this) hp⟩)
      (fun hp => parenDead W x hwx (needParen_prec hpo hp) _)
      (safe_child hsafe (fun h => by simp [hasLt, h])
        ((List.suffix_cons _ _).trans ((List.suffix_append _ _).trans (List.suffix_cons _ _))))
      (NoLow.mono W hno hle) (fun _ => inert2 W term rest)
  obtain ⟨N1, h1⟩ := iht true true (.p .RightParen :: (toks (fmtSubX x precCast castOperandSide) ++ rest))
    (fun _ => hin) trivial
    (fun hl => tmplFree_suffix (List.suffix_cons _ _) (hsafe (by simp [hasLt, hl])))
  have hp : Parses W 2 term (.p .LeftParen :: (toks (fmtTyId t true) ++
      (.p .RightParen :: (toks (fmtSubX x precCast castOperandSide) ++ rest)))) (.cast t x, rest) := by
    obtain ⟨N2, h2⟩ := hx
    refine ⟨max N1 N2 + 2, fun f hf => ?_⟩
    obtain ⟨f', rfl, hf'⟩ := succ_of_pos hf
    obtain ⟨f'', rfl, hf''⟩ := succ_of_pos hf'
    have hc : castAlt W (f'' + 1) term (toks (fmtTyId t true) ++
        (.p .RightParen :: (toks (fmtSubX x precCast castOperandSide) ++ rest))) = some (.cast t x, rest) := by
      unfold castAlt
      rw [h1 f'' (by omega)]
      simp [h2 f'' (by omega)]
    unfold xparseLvl
    simp [prefixOp, hc]
  exact finish_nonloop W hp (Or.inr (Or.inl rfl)) hle (fun h => by omega) hno hfin

theorem rt_sizeof (a : TArg) (iha : RTArg W true a) : RT W (.sizeof a) := by
  intro k term rest out hgt hle hk htf hno hsafe hfin
  have hlvl : (XExpr.sizeof a).lvl = 2 := rfl
  rw [hlvl] at hle hfin
  rw [toks_sizeof] at hsafe ⊢
  simp only [List.cons_append, List.append_assoc, List.nil_append] at hsafe ⊢
  obtain ⟨N1, h1⟩ := iha (.p .RightParen :: rest) trivial
    (fun hl => tmplFree_suffix ((List.suffix_cons _ _).trans (List.suffix_cons _ _)) (hsafe (by simpa [hasLt] using hl)))
  have hp : Parses W 2 term (.p .SizeOf :: .p .LeftParen :: (toks (fmtEOT a true) ++ .p .RightParen :: rest))
      (.sizeof a, rest) := by
    refine ⟨N1 + 1, fun f hf => ?_⟩
    obtain ⟨f', rfl, hf'⟩ := succ_of_pos hf
    unfold xparseLvl
    simp [prefixOp, h1 f' hf']
  exact finish_nonloop W hp (Or.inr (Or.inl rfl)) hle (fun h => by omega) hno hfin

/-- the invariant of a non-empty argument list: after `(`, `xparseArgs1` reads the printed list up to `)` -/
def A1 : XArgs → Prop
  | .nil => True
  | .cons e r => ∀ rest,
      (hasLtArgs (.cons e r) = true → TmplFree (toks (fmtArgsX (.cons e r)) ++ .p .RightParen :: rest) = true) →
      ∃ N, ∀ f, N ≤ f →
        xparseArgs1 W f (toks (fmtArgsX (.cons e r)) ++ .p .RightParen :: rest) = some (.cons e r, rest)

theorem posOk_arg : PosOk callArgPrec callArgSide := Or.inl (by decide)
theorem posOk_argMain : PosOk callArgMainPrec callArgMainSide := Or.inl (by decide)

theorem pos_argMain (x : XExpr) (h : needParen x.prec callArgMainPrec callArgMainSide = false) : x.lvl ≤ 14 := by
  cases x with
  | lit l => simp only [XExpr.prec, XExpr.lvl, litPrec] at h ⊢ <;> generalize litNegative l = b at h ⊢ <;> cases b <;> revert h <;> decide
  | un o _ => cases o <;> simp only [XExpr.prec, XExpr.lvl] at h ⊢ <;> revert h <;> decide
  | bin o _ _ => cases o <;> simp only [XExpr.prec, XExpr.lvl] at h ⊢ <;> revert h <;> decide
  | _ => simp only [XExpr.prec, XExpr.lvl] at h ⊢ <;> revert h <;> decide

theorem rtArgs_single (e : XExpr) (hw : WF W e) (ihe : RT W e) : A1 W (.cons e .nil) := by
  intro rest hsafe
  have hE : Parses W 15 .Sequence (toks (fmtSubX e callArgPrec callArgSide) ++ (.p .RightParen :: rest))
      (e, .p .RightParen :: rest) :=
    rts_self W ihe _ _ 15 .Sequence _ (Nat.le_refl _)
      (fun hp => ⟨by have := pos_arg e hp; omega, fun h => by have := pos_arg e hp; omega, fun h => by cases h⟩)
      (fun hp => parenDead W e hw (needParen_prec posOk_arg hp) _)
      (fun hl => by
        have := hsafe (by simp [hasLtArgs, hl])
        simpa [fmtArgsX] using this)
      (noLow_closes W 15 _ _ _ (Or.inl rfl)) (fun _ => inert_closes W 15 _ _ _ (Or.inl rfl))
  obtain ⟨N, h⟩ := hE
  refine ⟨N + 1, fun f hf => ?_⟩
  obtain ⟨f', rfl, hf'⟩ := succ_of_pos hf
  unfold xparseArgs1
  simp [fmtArgsX, callArgTerminator, h f' hf']

theorem rtArgs_cons (e e' : XExpr) (r' : XArgs) (hw : WF W e) (ihe : RT W e) (ihr : A1 W (.cons e' r')) :
    A1 W (.cons e (.cons e' r')) := by
  intro rest hsafe
  have htoks : toks (fmtArgsX (.cons e (.cons e' r'))) = toks (fmtSubX e callArgMainPrec callArgMainSide) ++
      (.p .Comma :: toks (fmtArgsX (.cons e' r'))) := by
    simp [fmtArgsX, comma, pp]
  rw [htoks] at hsafe ⊢
  simp only [List.append_assoc, List.cons_append] at hsafe ⊢
  obtain ⟨N2, h2⟩ := ihr rest (fun hl => tmplFree_suffix
    ((List.suffix_cons _ _).trans (List.suffix_append _ _)) (hsafe (by
      simp only [hasLtArgs, Bool.or_eq_true] at hl ⊢
      exact Or.inr hl)))
  have hE : Parses W 15 .Sequence (toks (fmtSubX e callArgMainPrec callArgMainSide) ++
      (.p .Comma :: (toks (fmtArgsX (.cons e' r')) ++ .p .RightParen :: rest)))
      (e, .p .Comma :: (toks (fmtArgsX (.cons e' r')) ++ .p .RightParen :: rest)) :=
    rts_self W ihe _ _ 15 .Sequence _ (Nat.le_refl _)
      (fun hp => ⟨by have := pos_argMain e hp; omega, fun h => by have := pos_argMain e hp; omega, fun h => by cases h⟩)
      (fun hp => parenDead W e hw (needParen_prec posOk_argMain hp) _)
      (fun hl => hsafe (by simp [hasLtArgs, hl]))
      (noLow_closes W 15 _ _ _ (Or.inr (Or.inr (Or.inr (Or.inr (Or.inl ⟨rfl, rfl⟩))))))
      (fun _ => inert_closes W 15 _ _ _ (Or.inr (Or.inr (Or.inr (Or.inr (Or.inl ⟨rfl, rfl⟩))))))
  obtain ⟨N1, h1⟩ := hE
  refine ⟨max N1 N2 + 1, fun f hf => ?_⟩
  obtain ⟨f', rfl, hf'⟩ := succ_of_pos hf
  unfold xparseArgs1
  simp [callArgTerminator, h1 f' (by omega), h2 f' (by omega)]

/-- the argument list after `(` -/
theorem args_read (args : XArgs) (hwa : WFA W args) (iha : A1 W args) (rest : List Tok)
    (hsafe : hasLtArgs args = true → TmplFree (toks (fmtArgsX args) ++ .p .RightParen :: rest) = true) :
    ∃ N, ∀ f, N ≤ f → xparseArgs W f (toks (fmtArgsX args) ++ .p .RightParen :: rest) = some (args, rest) := by
  match args, hwa, iha, hsafe with
  | .nil, _, _, _ =>
    exact ⟨1, fun f hf => by obtain ⟨f', rfl, _⟩ := succ_of_pos hf; simp [fmtArgsX, xparseArgs]⟩
  | .cons e r, hw, ih, hsafe =>
    obtain ⟨N, h⟩ := ih rest hsafe
    refine ⟨N + 1, fun f hf => ?_⟩
    obtain ⟨f', rfl, hf'⟩ := succ_of_pos hf
    have hne : ∃ t ts', toks (fmtArgsX (.cons e r)) ++ .p .RightParen :: rest = t :: ts' ∧ t ≠ .p .RightParen := by
      cases r with
      | nil =>
        obtain ⟨t, ts', h1, h2, _⟩ := head_fmt W e hw.1 callArgPrec callArgSide posOk_arg
        exact ⟨t, ts' ++ .p .RightParen :: rest, by simp [fmtArgsX, h1], h2.2⟩
      | cons e' r' =>
        obtain ⟨t, ts', h1, h2, _⟩ := head_fmt W e hw.1 callArgMainPrec callArgMainSide posOk_argMain
        exact ⟨t, _, by simp [fmtArgsX, h1]; rfl, h2.2⟩
    obtain ⟨t, ts', hts, hne⟩ := hne
    have h' := h f' hf'
    rw [hts] at h' ⊢
    unfold xparseArgs
    split
    · rename_i heq; cases heq; exact absurd rfl hne
    · exact h'

theorem rt_call (fn : XExpr) (targs : TArgs) (args : XArgs) (hwf : WF W (.call fn targs args)) (ihf : RT W fn)
    (ihT : RTTArgs W targs) (ihA : A1 W args) : RT W (.call fn targs args) := by
  intro k term rest out hgt hle hk htf hno hsafe hfin
  obtain ⟨hwfn, hwT, hwA⟩ := hwf
  have hlvl : (XExpr.call fn targs args).lvl = 1 := rfl
  rw [hlvl] at hle hfin
  rw [toks_call] at hsafe ⊢
  simp only [List.append_assoc, List.cons_append, List.nil_append] at hsafe ⊢
  have hpo : PosOk callObjectPrec callObjectSide := Or.inr ⟨rfl, Or.inl rfl⟩
  obtain ⟨NA, hA⟩ := args_read W args hwA ihA rest (fun hl => tmplFree_suffix
    ((List.suffix_cons _ _).trans ((List.suffix_append _ _).trans (List.suffix_append _ _)))
    (hsafe (by simp [hasLt, hl])))
  refine finish_loop W (lv := 1) ?_ (by decide) hle ?_ hno hfin
  · intro out' hc
    apply rts W ihf _ _ 1 term _ out' (by omega)
    · exact fun hp => ⟨pos_postfixLike fn _ (Or.inl rfl) hp, fun h => by have := pos_postfixLike fn _ (Or.inl rfl) hp; omega,
        fun ht => gtSub (by have := hgt ht; simpa [gtFree] using this) hp⟩
    · exact fun hp => parenDead W fn hwfn (needParen_prec hpo hp) _
    · exact safe_child hsafe (fun h => by simp [hasLt, h]) (List.suffix_refl _)
    · exact fun i h1 h2 => by omega
    · apply fin_of_conts W _ _ _ _ _ _ (by decide)
      obtain ⟨N2, h2⟩ := hc
      cases targs with
      | nil =>
        refine ⟨max NA N2 + 1, fun f hf => ?_⟩
        obtain ⟨f', rfl, hf'⟩ := succ_of_pos hf
        unfold xcont
        simp [fmtTArgs, hA f' (by omega), h2 f' (by omega)]
      | cons a r =>
        obtain ⟨NT, hT⟩ := ihT a r rfl true (.p .LeftParen :: (toks (fmtArgsX args) ++ .p .RightParen :: rest)) rfl trivial
          (fun hl => tmplFree_suffix (List.suffix_append _ _) (hsafe (by simp [hasLt, hl])))
        refine ⟨max (max NA N2) NT + 1, fun f hf => ?_⟩
        obtain ⟨f', rfl, hf'⟩ := succ_of_pos hf
        have hT' := hT f' (by omega)
        have hhead : ∃ r0, toks (fmtTArgs (.cons a r) true) = .lt true :: r0 := ⟨_, by simp [fmtTArgs, ltT]; rfl⟩
        obtain ⟨r0, hr0⟩ := hhead
        rw [hr0] at hT' ⊢
        simp only [List.cons_append] at hT' ⊢
        unfold xcont
        simp only [if_true]
        rw [hT']
        simp [hA f' (by omega), h2 f' (by omega)]
  · intro _
    exact p2ok_object W fn hwfn _ _ hpo (pos_postfixLike fn _ (Or.inl rfl)) _

theorem rtTArgs_of_list (as : TArgs) (hw : WFTArgs W as) (ih : RTList W as) : RTTArgs W as := by
  cases as with
  | nil => intro a r h; cases h
  | cons a r => exact rtTArgs W a r hw.1 ih

/-! ## The induction -/

mutual
theorem rt : (e : XExpr) → WF W e → RT W e
  | .lit n, h => rt_lit W n h
  | .id n, _ => rt_id W n
  | .un op x, h => by
    cases hp : isPostfix op with
    | true => exact rt_postfix W op x hp h (rt x h)
    | false => exact rt_prefix W op x hp h (rt x h)
  | .bin op l r, h => rt_bin W op l r h (rt l h.2.1) (rt r h.2.2)
  | .tern c a b, h => rt_tern W c a b h (rt c h.2.1) (rt a h.2.2.1) (rt b h.2.2.2)
  | .sub o i, h => rt_sub W o i h.1 h.2 (rt o h.1) (rt i h.2)
  | .mem o n, h => rt_mem W o n h (rt o h)
  | .call f t a, h => rt_call W f t a h (rt f h.1) (rtTArgs_of_list W t h.2.1 (rtL t h.2.1)) (rtA a h.2.2)
  | .cast (.mk mods n targs d) x, h => rt_cast W _ x h (rtTyp (.mk mods n targs d) h.1 h.2.2.1) (rt x h.2.2.2)
  | .sizeof a, h => rt_sizeof W a (rtArg true a h)
theorem rtA : (a : XArgs) → WFA W a → A1 W a
  | .nil, _ => trivial
  | .cons e .nil, h => rtArgs_single W e h.1 (rt e h.1)
  | .cons e (.cons e' r'), h => rtArgs_cons W e e' r' h.1 (rt e h.1) (rtA (.cons e' r') h.2)
theorem rtArg : (sym : Bool) → (a : TArg) → WFArg W sym a → RTArg W sym a
  | sym, .e x, h => rtArg_e W sym x h (rt x h.1)
  | sym, .both x t, h => rtArg_both W sym x t h
  | sym, .t (.mk mods n targs d), h => rtArg_t W sym _ h (rtTyp (.mk mods n targs d) h.1 h.2.2.1)
theorem rtL : (as : TArgs) → WFTArgs W as → RTList W as
  | .nil, _ => trivial
  | .cons a .nil, h => rtList_single W a (rtArg false a h.1)
  | .cons a (.cons b r), h => rtList_cons W a b r (rtArg false a h.1) (rtL (.cons b r) h.2)
theorem rtTyp : (ty : TyId) → WFTy W ty → (match ty with | .mk _ _ _ d => d.abstr = true) → RTTy W ty
  | .mk mods n targs d, h, hb => rtTy W mods n targs d h hb (rtTArgs_of_list W targs h.2.1 (rtL targs h.2.1)) (rtD d h.2.2)
theorem rtD : (d : Decl) → WFDecl W d → RTDecl W d
  | .empty, _ => rtDecl_empty W
  | .name n, _ => by intro hb; simp [Decl.abstr] at hb
  | .ptr q i, h => rtDecl_ptr W q i h (rtD i h.2.1)
  | .ref i, h => rtDecl_ref W i h (rtD i h.1)
  | .arr i s, h => rtDecl_arrs W (.arr i s) h (by simp [arrOnly, arrOnly_of_noScope W i h.2.1 h.1]) rfl
      (rtArr_arr W i s h (rtAr i h.2.1) (rt s h.2.2))
  | .arrN i, h => rtDecl_arrs W (.arrN i) h (by simp [arrOnly, arrOnly_of_noScope W i h.2 h.1]) rfl
      (rtArr_arrN W i h (rtAr i h.2))
theorem rtAr : (d : Decl) → WFDecl W d → RTArr W d
  | .empty, _ => rtArr_empty W
  | .name n, _ => by intro _ hb; simp [Decl.abstr] at hb
  | .ptr q i, _ => by intro ha; simp [arrOnly] at ha
  | .ref i, _ => by intro ha; simp [arrOnly] at ha
  | .arr i s, h => rtArr_arr W i s h (rtAr i h.2.1) (rt s h.2.2)
  | .arrN i, h => rtArr_arrN W i h (rtAr i h.2)
end

end RsslVerif.Lemmas.RoundtripFull

import RsslVerif.Gen.UsageTables
/-!
# Model of global-usage analysis and implicit parameter threading on Metal (C02, layer L5)

Mirrors, function by function:

* `ir/src/usage_analysis.rs`  — `UsageSymbol`, `calculate_local` (which syntactic positions are looked at comes
  from `Gen.UsageTables`), `recurse` (the fixpoint loop over a `HashMap<UsageSymbol, HashSet<UsageSymbol>>`;
  the map is an association list, the key iteration order is an explicit parameter, a `HashSet` is a
  duplicate-free list, `Option::unwrap` failures are explicit errors, the `loop` is fuelled);
* `msl/src/generator.rs` — `analyse_globals` (GlobalMode classification, `required_globals` + `sort()`,
  `called_functions`), `generate_function_and_trampoline` / `generate_function_inner` (parameter lists),
  `append_arguments_for_globals` / `generate_user_call` (call-site argument lists),
  `generate_function_out_trampoline_body`.

Core Lean only: linked into `rsslmodel`.
-/
namespace RsslVerif.Model.Usage
open RsslVerif.Gen.UsageTables

/-- `UsageSymbol` -/
inductive Sym where
  | fn (i : Nat)
  | glob (i : Nat)
  | cb (i : Nat)
  deriving DecidableEq, Repr, Inhabited

/-- `HashSet<UsageSymbol>`: duplicate-free list (its order is the unspecified iteration order) -/
abbrev SymSet := List Sym

/-- `HashMap<UsageSymbol, LocalUsageAnalysis>` -/
abbrev Table := List (Sym × SymSet)

def keysOf (t : Table) : List Sym := t.map (·.1)

/-- `HashSet::insert` -/
def insertSym (s : SymSet) (x : Sym) : SymSet := if x ∈ s then s else s ++ [x]

/-- `HashSet::extend` -/
def extend (s : SymSet) : List Sym → SymSet
  | [] => s
  | x :: xs => extend (insertSym s x) xs

/-- `*self.0.get_mut(key).unwrap() = v` -/
def setKey (t : Table) (key : Sym) (v : SymSet) : Table :=
  t.map fun e => if e.1 = key then (e.1, v) else e

inductive Err where
  /-- `self.0.get(k).unwrap()` on a symbol that has no entry -/
  | missingKey (k : Sym)
  deriving DecidableEq, Repr

/-- `for other in &current_set.required { new_set.extend(&self.0.get(other).unwrap().required) }` -/
def unionOthers (t : Table) : List Sym → SymSet → Except Err SymSet
  | [], acc => .ok acc
  | o :: os, acc =>
    match t.lookup o with
    | none => .error (.missingKey o)
    | some r => unionOthers t os (extend acc r)

/-- body of `for key in &keys`: returns the table and whether it was modified -/
def stepKey (t : Table) (key : Sym) : Except Err (Table × Bool) :=
  match t.lookup key with
  | none => .error (.missingKey key)
  | some cur =>
    match unionOthers t cur cur with
    | .error e => .error e
    | .ok new =>
      if new.length > cur.length then .ok (setKey t key new, true) else .ok (t, false)

/-- one pass of `for key in &keys` (updates are visible to later keys of the same pass) -/
def sweep (t : Table) (modified : Bool) : List Sym → Except Err (Table × Bool)
  | [] => .ok (t, modified)
  | k :: ks =>
    match stepKey t k with
    | .error e => .error e
    | .ok (t', m) => sweep t' (modified || m) ks

/-- `loop { … if !modified { break } }` with fuel; `none` = fuel exhausted -/
def recurseFuel : Nat → List Sym → Table → Except Err (Option Table)
  | 0, _, _ => .ok none
  | n + 1, keys, t =>
    match sweep t false keys with
    | .error e => .error e
    | .ok (t', true) => recurseFuel n keys t'
    | .ok (t', false) => .ok (some t')

/-- enough passes for every table (`Thm.C02.recurse_terminates`) -/
def fuelBound (t : Table) : Nat := t.length * t.length + 1

/-- `GlobalUsageAnalysis::recurse`; `keys` = iteration order of `self.0.keys()` -/
def recurse (keys : List Sym) (t : Table) : Except Err (Option Table) :=
  recurseFuel (fuelBound t) keys t

/-- `get_usage_for_function` etc. on the result (a missing entry reads as empty here; callers only ask for
    keys of the table) -/
def val (t : Table) (k : Sym) : SymSet := (t.lookup k).getD []

/-! ## Programs as the analysis sees them -/

/-- a slot of a gather_usage_* match arm: which table, which variant, which field -/
structure Slot where
  table : String
  variant : String
  field : Nat
  deriving DecidableEq, Repr

def tableOf (name : String) : List (String × List Bool) :=
  if name == "stmt" then stmtArms
  else if name == "expr" then exprArms
  else if name == "init" then initArms
  else if name == "forinit" then forInitArms
  else []

/-- does the current source pass this field on to gather_usage_*? (unknown slot = no) -/
def Slot.descended (s : Slot) : Bool :=
  match (tableOf s.table).lookup s.variant with
  | some flags => flags.getD s.field false
  | none => false

/-- where an occurrence of a symbol sits -/
inductive Place where
  /-- inside the function body, below the given chain of match-arm fields -/
  | body (path : List Slot)
  /-- inside a parameter's default expression -/
  | defaultArg (path : List Slot)
  deriving DecidableEq, Repr

def Place.seen : Place → Bool
  | .body p => functionBodyGathered && p.all Slot.descended
  | .defaultArg p => defaultArgumentsGathered && p.all Slot.descended

inductive ParamMode where | in_ | out | inout | inDefault
  deriving DecidableEq, Repr

def ParamMode.isOut : ParamMode → Bool
  | .out | .inout => true
  | _ => false

/-- one argument of a call in the source: a mention of a global, or anything else -/
abbrev SrcArg := Option Nat

inductive Item where
  /-- mention of global `g` -/
  | use (place : Place) (g : Nat)
  /-- call of function `f` with the given user arguments -/
  | call (place : Place) (f : Nat) (args : List SrcArg)
  deriving Repr

def Item.place : Item → Place
  | .use p _ => p
  | .call p _ _ => p

structure Global where
  name : String
  storage : Storage
  isConst : Bool
  staticSampler : Bool
  /-- the unmodified type is an object type (texture, buffer, sampler…), not an array of them -/
  isObject : Bool
  isIntrinsic : Bool := false
  /-- match-arm fields between a reading expression of this global and its `Expression::Global` node -/
  readPath : List Slot := []
  /-- globals mentioned by the initialiser, with the expression path below the initialiser -/
  initUses : List (List Slot × Nat) := []
  deriving Repr

structure Func where
  name : String
  params : List ParamMode
  items : List Item
  /-- `get_intrinsic_data(id)`: name of the intrinsic, if this is one -/
  intrinsic : Option String := none
  deriving Repr

structure Program where
  globals : List Global
  funcs : List Func
  deriving Repr

def recordsGlobals : Bool := symbolInserts.contains ("Global", "GlobalVariable")
def recordsCalls : Bool := symbolInserts.contains ("Call", "Function")
def callArgSlot : Slot := ⟨"expr", "Call", 2⟩

/-- is a mention of global `g` below an already visited place recorded? (`readPath` = the fields between the
    place and the `Expression::Global` node, e.g. `lds[0]` sits below `ArraySubscript` field 0) -/
def globalSeen (gs : List Global) (g : Nat) : Bool :=
  recordsGlobals && match gs[g]? with
    | some gl => gl.readPath.all Slot.descended
    | none => true

/-- symbols an item records: `Expression::Global` / `Expression::Call` arms of gather_usage_for_expression -/
def Item.seenSyms (gs : List Global) : Item → List Sym
  | .use pl g => if pl.seen && globalSeen gs g then [.glob g] else []
  | .call pl f args =>
    if pl.seen then
      (if recordsCalls then [Sym.fn f] else []) ++
      (if callArgSlot.descended then
        args.filterMap fun a => match a with
          | some g => if globalSeen gs g then some (Sym.glob g) else none
          | none => none
       else [])
    else []

/-- `LocalUsageAnalysis::calculate_for_function` -/
def localOfFunc (gs : List Global) (f : Func) : SymSet :=
  extend [] (f.items.flatMap (Item.seenSyms gs))

/-- `calculate_local`: one entry per function, global and constant buffer -/
def calculateLocal (p : Program) (ncb : Nat := 0) : Table :=
  (List.range p.funcs.length).map (fun i => (Sym.fn i, localOfFunc p.globals (p.funcs.getD i ⟨"", [], [], none⟩)))
  ++ (List.range p.globals.length).map (fun i =>
      (Sym.glob i,
       if globalInitialisersGathered then
         extend [] (((p.globals.getD i ⟨"", .Static, false, false, false, false, [], []⟩).initUses.filter
            fun u => u.1.all Slot.descended && globalSeen p.globals u.2).map fun u => Sym.glob u.2)
       else []))
  ++ (List.range ncb).map (fun i => (Sym.cb i, []))

/-! ## analyse_globals -/

inductive GlobalMode where | parameter | constant
  deriving DecidableEq, Repr

/-- first loop of analyse_globals: `none` for intrinsic globals -/
def modeOf (g : Global) : Option GlobalMode :=
  if g.isIntrinsic then none
  else if isGlobalConstant g.isConst g.storage g.staticSampler then some .constant
  else some .parameter

/-- `ImplicitFunctionParameter`, ordered as the derived `Ord`: variant index first, then the payload -/
structure Implicit where
  /-- index into `implicitVariants` -/
  variant : Nat
  /-- `GlobalId` / `TypeId` payload (0 for the payload-free variants) -/
  payload : Nat
  deriving DecidableEq, Repr

def Implicit.le (a b : Implicit) : Bool :=
  a.variant < b.variant || (a.variant == b.variant && a.payload ≤ b.payload)

def variantIndex (name : String) : Nat := implicitVariants.idxOf name

def globalVariant : Nat := variantIndex "Global"

/-- insertion into a sorted list (`Vec::sort` = any sorting permutation; `Implicit.le` is a total order) -/
def insertSorted (x : Implicit) : List Implicit → List Implicit
  | [] => [x]
  | y :: ys => if x.le y then x :: y :: ys else y :: insertSorted x ys

def sortImplicit : List Implicit → List Implicit
  | [] => []
  | x :: xs => insertSorted x (sortImplicit xs)

inductive GenErr where
  | usage (e : Err)
  | outOfFuel
  /-- `global_variable_modes.get(gid).unwrap()` / registry index out of range -/
  | badGlobal (g : Nat)
  | badFunction (f : Nat)
  deriving DecidableEq, Repr

/-- what one symbol of a function's closure contributes to `required_globals` -/
def implicitsOfSym (p : Program) : Sym → Except GenErr (List Implicit)
  | .glob g =>
    match p.globals[g]? with
    | none => .error (.badGlobal g)
    | some gl =>
      match modeOf gl with
      | none => .ok []                       -- intrinsic globals do not need parameters
      | some .constant => .ok []
      | some .parameter => .ok [⟨globalVariant, g⟩]
  | .fn f =>
    match p.funcs[f]? with
    | none => .error (.badFunction f)
    | some fd =>
      match fd.intrinsic with
      | none => .ok []
      | some nm => .ok (((intrinsicImplicits.lookup nm).getD []).map fun v => ⟨variantIndex v, 0⟩)
  | .cb _ => .ok []

def implicitsOfSet (p : Program) : List Sym → Except GenErr (List Implicit)
  | [] => .ok []
  | s :: ss =>
    match implicitsOfSym p s, implicitsOfSet p ss with
    | .ok a, .ok b => .ok (a ++ b)
    | .error e, _ => .error e
    | _, .error e => .error e

/-- `function_required_globals[f]`: collected in the set's iteration order, then `sort()`ed -/
def requiredOf (p : Program) (closure : Table) (f : Nat) : Except GenErr (List Implicit) :=
  match implicitsOfSet p (val closure (.fn f)) with
  | .ok l => .ok (sortImplicit l)
  | .error e => .error e

/-- the closure table of a program under a key iteration order -/
def closeProgram (p : Program) (keys : List Sym) : Except GenErr Table :=
  match recurse keys (calculateLocal p) with
  | .error e => .error (.usage e)
  | .ok none => .error .outOfFuel
  | .ok (some t) => .ok t

/-- `called_functions`: every function symbol in the closure of a non-intrinsic function -/
def calledFunctions (p : Program) (closure : Table) : List Nat :=
  (List.range p.funcs.length).flatMap fun i =>
    match p.funcs[i]? with
    | some fd => if fd.intrinsic.isSome then [] else
        (val closure (.fn i)).filterMap fun s => match s with | .fn j => some j | _ => none
    | none => []

/-! ## Emitted signatures and call sites (names only) -/

/-- is the implicit parameter declared as a reference? (`requires_reference`; the payload output always is) -/
def implicitParamRef (p : Program) (i : Implicit) : Bool :=
  if i.variant == globalVariant then
    match p.globals[i.payload]? with
    | some g => requiresReference g.storage g.isObject
    | none => false
  else
    match implicitNames[i.variant]? with
    | some (v, _, _) => v == "PayloadOutput"
    | none => false

/-- declarator name of the implicit parameter (`generate_function_inner`) -/
def implicitParamBase (p : Program) (i : Implicit) : String :=
  if i.variant == globalVariant then
    match p.globals[i.payload]? with
    | some g => g.name
    | none => "?"
  else
    match implicitNames[i.variant]? with
    | some (_, pn, _) => pn
    | none => "?"

/-- rendering of one implicit parameter: `&name` when passed by reference -/
def implicitParamName (p : Program) (i : Implicit) : String :=
  (if implicitParamRef p i then "&" else "") ++ implicitParamBase p i

/-- identifier passed for the implicit parameter (`append_arguments_for_globals`) -/
def implicitArgName (p : Program) (i : Implicit) : String :=
  if i.variant == globalVariant then
    match p.globals[i.payload]? with
    | some g => g.name
    | none => "?"
  else
    match implicitNames[i.variant]? with
    | some (_, _, an) => an
    | none => "?"

def userParamName (k : Nat) (m : ParamMode) : String :=
  (if m.isOut then "&" else "") ++ "p_" ++ toString k

def userParamNames (ms : List ParamMode) : List String :=
  (List.range ms.length).zipWith userParamName ms

def srcArgName (p : Program) : SrcArg → String
  | none => "_"
  | some g => match p.globals[g]? with | some gl => gl.name | none => "?"

structure Ctx where
  prog : Program
  required : List (List Implicit)     -- per function index

def Ctx.req (c : Ctx) (f : Nat) : List Implicit := c.required.getD f []

/-- the (single) default-argument item of a function belongs to its last defaulted parameter; the other
    defaulted parameters have literal defaults (convention of the correspondence generator) -/
def defaultItemOf (fd : Func) (k : Nat) : Option Item :=
  let lastD := ((List.range fd.params.length).filter fun j => fd.params[j]? == some ParamMode.inDefault).getLast?
  if lastD == some k then fd.items.find? fun it => match it.place with | .defaultArg _ => true | _ => false
  else none

/-- `generate_user_call`: the default expressions passed explicitly for the arguments a call left out — only when
    the callee receives parameters for globals (`none` = a literal default) -/
def filledDefaults (c : Ctx) (f : Nat) (nargs : Nat) : List (Option Item) :=
  match c.prog.funcs[f]? with
  | none => []
  | some fd =>
    if callSitesFillDefaults && !(c.req f).isEmpty then
      -- `decl.params.iter().skip(arguments.len())`, keeping the parameters that have a default
      (List.range (fd.params.length - nargs)).filterMap fun j =>
        if fd.params[nargs + j]? == some ParamMode.inDefault then some (defaultItemOf fd (nargs + j)) else none
    else []

/-- names of the globals an expression `f(args…, implicit…)` mentions -/
def plainCallGlobals (c : Ctx) (f : Nat) (args : List SrcArg) : List String :=
  (args.filterMap fun a => a.map fun g => srcArgName c.prog (some g)) ++
  ((c.req f).filter fun i => i.variant == globalVariant).map (implicitArgName c.prog)

/-- how the correspondence harness prints a filled-in default: the global it mentions if there is exactly one -/
def filledText (c : Ctx) : Option Item → String
  | none => "_"
  | some (.use _ g) => srcArgName c.prog (some g)
  | some (.call _ j as) =>
    match (plainCallGlobals c j as).eraseDups with
    | [n] => n
    | _ => "_"

/-- `generate_user_call`: user arguments, defaults of omitted arguments (if the callee takes parameters for
    globals), then `append_arguments_for_globals(callee)` -/
def callArgList (c : Ctx) (f : Nat) (args : List SrcArg) : List String :=
  args.map (srcArgName c.prog) ++ (filledDefaults c f args.length).map (filledText c) ++
    (c.req f).map (implicitArgName c.prog)

/-- `generate_function_inner`: user parameters, the tag parameter of a trampoline target, then the parameters for
    `function_required_globals[f]` -/
def paramList (c : Ctx) (f : Nat) (fd : Func) (trampolineTarget : Bool) : List String :=
  userParamNames fd.params ++ (if trampolineTarget then ["#tt"] else []) ++ (c.req f).map (implicitParamName c.prog)

def funcName (c : Ctx) (f : Nat) : String :=
  match c.prog.funcs[f]? with | some fd => fd.name | none => "?"

/-- a call that is itself a (filled-in) default argument: the model covers the case where it passes all of its
    own arguments; otherwise the text is marked `!nested` and the driver answers `unsupported` -/
def nestedCallText (c : Ctx) (j : Nat) (as : List SrcArg) : String :=
  if (filledDefaults c j as.length).isEmpty then
    funcName c j ++ "(" ++ ",".intercalate (as.map (srcArgName c.prog) ++ (c.req j).map (implicitArgName c.prog)) ++ ")"
  else "!nested"

/-- the call expression followed by the calls inside the defaults that were filled in for it -/
def callTexts (c : Ctx) (f : Nat) (args : List SrcArg) : List String :=
  (funcName c f ++ "(" ++ ",".intercalate (callArgList c f args) ++ ")") ::
  (filledDefaults c f args.length).filterMap fun d => match d with
    | some (.call _ j as) => some (nestedCallText c j as)
    | _ => none

def callsText (c : Ctx) (items : List Item) : String :=
  ";".intercalate (items.flatMap fun it => match it with
    | .call _ f args => callTexts c f args
    | .use _ _ => [])

/-- the definitions `generate_function_and_trampoline` emits for a function with a body -/
def defsText (c : Ctx) (called : List Nat) (f : Nat) (fd : Func) : List String :=
  let hasOut := fd.params.any ParamMode.isOut
  let needsTrampoline := hasOut && called.contains f
  -- parameter defaults are emitted unless the function is a trampoline target or takes parameters for globals
  let noDefaults := noDefaultsWithImplicitParams && !(c.req f).isEmpty
  let defaults := if noDefaults then [] else
    fd.items.filter fun it => match it.place with | .defaultArg _ => true | _ => false
  let bodyItems := fd.items.filter fun it => match it.place with | .body _ => true | _ => false
  let inner :=
    fd.name ++ "(" ++ ",".intercalate (paramList c f fd needsTrampoline) ++ ")"
      ++ "{" ++ callsText c ((if needsTrampoline then [] else defaults) ++ bodyItems) ++ "}"
  if needsTrampoline then
    let targs := (List.range fd.params.length).map (fun _ => "_") ++ ["#tt"] ++ (c.req f).map (implicitArgName c.prog)
    let dtext := callsText c defaults
    let tramp := fd.name ++ "(" ++ ",".intercalate (paramList c f fd false) ++ ")"
      ++ "{" ++ dtext ++ (if dtext.isEmpty then "" else ";")
      ++ fd.name ++ "(" ++ ",".intercalate targs ++ ")}"
    [inner, tramp]
  else [inner]

def symName (p : Program) : Sym → String
  | .fn i => match p.funcs[i]? with | some f => f.name | none => "?"
  | .glob i => match p.globals[i]? with | some g => g.name | none => "?"
  | .cb i => "cb" ++ toString i

/-! ## The syntactic positions the correspondence generator uses (code ↦ chain of match-arm fields) -/

def S (v : String) (f : Nat) : Slot := ⟨"stmt", v, f⟩
def E (v : String) (f : Nat) : Slot := ⟨"expr", v, f⟩
def I (v : String) (f : Nat) : Slot := ⟨"init", v, f⟩
def F (v : String) (f : Nat) : Slot := ⟨"forinit", v, f⟩

/-- positions inside a function body -/
def bodyPositions : List (String × List Slot) := [
  ("xs", [S "Expression" 0]),
  ("vi", [S "Var" 0, I "Expression" 0]),
  ("ai", [S "Var" 0, I "Aggregate" 0, I "Expression" 0]),
  ("bl", [S "Block" 0, S "Expression" 0]),
  ("ic", [S "If" 0, E "IntrinsicOp" 1]),
  ("ib", [S "If" 1, S "Expression" 0]),
  ("ec", [S "IfElse" 0, E "IntrinsicOp" 1]),
  ("et", [S "IfElse" 1, S "Expression" 0]),
  ("ee", [S "IfElse" 2, S "Expression" 0]),
  ("fi", [S "For" 0, F "Expression" 0]),
  ("fd", [S "For" 0, F "Definitions" 0, I "Expression" 0]),
  ("fc", [S "For" 1, E "IntrinsicOp" 1]),
  ("fa", [S "For" 2]),
  ("fb", [S "For" 3, S "Expression" 0]),
  ("wc", [S "While" 0, E "IntrinsicOp" 1]),
  ("wb", [S "While" 1, S "Expression" 0]),
  ("db", [S "DoWhile" 0, S "Expression" 0]),
  ("dc", [S "DoWhile" 1, E "IntrinsicOp" 1]),
  ("sx", [S "Switch" 0]),
  ("sb", [S "Switch" 1, S "Expression" 0]),
  ("rt", [S "Return" 0]),
  ("tc", [S "Expression" 0, E "TernaryConditional" 0, E "IntrinsicOp" 1]),
  ("tt", [S "Expression" 0, E "TernaryConditional" 1]),
  ("tf", [S "Expression" 0, E "TernaryConditional" 2]),
  ("sq", [S "Expression" 0, E "Sequence" 0]),
  ("sw", [S "Expression" 0, E "Swizzle" 0, E "Constructor" 1]),
  ("ct", [S "Expression" 0, E "Constructor" 1]),
  ("si", [S "Expression" 0, E "ArraySubscript" 1]),
  ("ia", [S "Expression" 0, E "Call" 2]),
  ("cs", [S "Expression" 0, E "Cast" 1]),
  ("op", [S "Expression" 0, E "IntrinsicOp" 1]),
  ("wr", [S "Expression" 0, E "IntrinsicOp" 1])
]

/-- reading expressions of the generator's global classes: fields above the `Expression::Global` node -/
def readPaths : List (String × List Slot) := [
  ("plain", []),
  ("array", [E "ArraySubscript" 0]),
  ("struct", [E "StructMember" 0]),
  ("cbuffer", [E "Cast" 1, E "Swizzle" 0, E "StructMember" 0]),
  ("texture", [E "Cast" 1, E "Swizzle" 0, E "Call" 2]),
  ("texarray", [E "Cast" 1, E "Swizzle" 0, E "Call" 2, E "ArraySubscript" 0]),
  ("sampler", [E "Sequence" 0]),
  -- exported since fix batch 2 (01558a2 `ConstantBuffer<const S>`, 4de3e6b `Texture2D<unorm float4>`): read like their plain forms
  ("cbufferc", [E "Cast" 1, E "Swizzle" 0, E "StructMember" 0]),
  ("textureu", [E "Cast" 1, E "Swizzle" 0, E "Call" 2])
]

def placeOfCode (code : String) : Option Place :=
  if code == "da" then some (.defaultArg [])
  else (bodyPositions.lookup code).map Place.body

end RsslVerif.Model.Usage

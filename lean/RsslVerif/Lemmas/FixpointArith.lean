import RsslVerif.Lemmas.FixpointElab
set_option linter.unusedSimpArgs false
/-!
Lemmas for C04 `reelab_no_new_casts`, part 2: the type both operands of an arithmetic / comparison / bit / logical
operator are converted to (`arithTarget`, `selectVectorRank`) is unchanged when an operand is replaced by an operand of
that type.  Core Lean only.
-/
namespace RsslVerif.Lemmas.FixpointArith
open RsslVerif.Gen.RankTable RsslVerif.Gen.TypingTables
open RsslVerif.Model.Conv RsslVerif.Model.Overload RsslVerif.Model.IrTyping RsslVerif.Model.Elab
open RsslVerif.Model.Fixpoint RsslVerif.Lemmas.ElabConv RsslVerif.Lemmas.Elab RsslVerif.Lemmas.ElabExact
open RsslVerif.Lemmas.ElabRelease RsslVerif.Lemmas.FixpointElab

def isEnum : Layer → Bool
  | .enum _ => true
  | _ => false

/-! ## dimensions -/

/-- `select_vector_rank` on the dimensions -/
def selD : Dim → Dim → Option Dim
  | .scalar, .scalar => some .scalar
  | .scalar, .vector x => some (.vector x)
  | .vector x, .scalar => some (.vector x)
  | .vector x1, .vector x2 =>
    if x2 = 1 then some (.vector x1) else if x1 = 1 then some (.vector x2)
    else if x1 < x2 then some (.vector x1) else some (.vector x2)
  | .scalar, .matrix x y => some (.matrix x y)
  | .matrix x y, .scalar => some (.matrix x y)
  | .matrix x1 y1, .matrix x2 y2 => if x1 = x2 ∧ y1 = y2 then some (.matrix x1 y1) else none
  | _, _ => none

theorem selectVectorRank_eq (l r : Layer) : selectVectorRank l r = selD l.opDim r.opDim := by
  unfold selectVectorRank selD
  cases l.opDim <;> cases r.opDim <;> rfl

theorem selD_idem {da db d : Dim} (h : selD da db = some d) :
    selD d db = some d ∧ selD da d = some d ∧ selD d d = some d := by
  cases da <;> cases db <;> simp only [selD] at h
  all_goals (try (simp at h))
  all_goals (try subst h)
  all_goals (try (simp [selD]; done))
  · -- vector, vector
    rename_i x1 x2
    split at h
    · simp at h; subst h; rename_i h2; subst h2; simp [selD]
    · split at h
      · simp at h; subst h; rename_i h2 h1; subst h1; simp [selD, h2]
      · split at h
        · simp at h; subst h; rename_i h2 h1 hlt
          simp [selD, h2, h1, hlt]
        · simp at h; subst h; rename_i h2 h1 hlt
          simp [selD, h2, h1, hlt]
  · -- matrix, matrix
    rename_i x1 y1 x2 y2
    obtain ⟨⟨rfl, rfl⟩, rfl⟩ := h
    simp [selD]

theorem opDim_ofDim (s : Scalar) (d : Dim) : (Layer.ofDim s d).opDim = d := by
  cases d <;> rfl

theorem nonVector_ofDim (s : Scalar) (d : Dim) : (Layer.ofDim s d).nonVector = .scalar s := by
  cases d <;> rfl

theorem isVecOrMat_iff (l : Layer) : l.isVecOrMat = true ↔ l.opDim ≠ .scalar := by
  cases l <;> simp [Layer.isVecOrMat, Layer.opDim]

/-! ## the scalar type -/

/-- `arithTarget` reads only the flags of the operator, whether an operand is a vector / matrix, and the two
    non-vector types -/
def aT (sc ri vm : Bool) (x y : Layer) : Except Err Layer :=
  if sc then
    if vm then .error (.reject "ShortCircuitingVector") else .ok (.scalar .bool)
  else
    if ri && !nvIsInteger x then .error (.reject "IntegerTypeExpected")
    else if ri && !nvIsInteger y then .error (.reject "IntegerTypeExpected")
    else
      match nvRank x with
      | none => .error (.reject "NumericTypeExpected")
      | some lo =>
        match nvRank y with
        | none => .error (.reject "NumericTypeExpected")
        | some ro =>
          let t := if lo > ro then x else y
          if t.extractScalar = some .bool then .ok (.scalar .int32) else .ok t

theorem arithTarget_eq (o : BinOp) (la lb : Layer) :
    arithTarget o la lb = aT o.shortCircuit o.requireInteger (la.isVecOrMat || lb.isVecOrMat) la.nonVector lb.nonVector := by
  rfl

theorem aT_scalar_idem : ∀ (ri : Bool) (sa sb ts : Scalar) (v : Bool),
    aT false ri v (.scalar sa) (.scalar sb) = .ok (.scalar ts) →
    ∀ v', aT false ri v' (.scalar ts) (.scalar sb) = .ok (.scalar ts) ∧
      aT false ri v' (.scalar sa) (.scalar ts) = .ok (.scalar ts) ∧
      aT false ri v' (.scalar ts) (.scalar ts) = .ok (.scalar ts) := by
  intro ri sa sb ts v h v'
  cases ri <;> cases sa <;> cases sb <;> simp [aT, nvRank, nvIsInteger, nonVectorRank, isIntegerScalar, Layer.extractScalar] at h <;>
    subst h <;> simp [aT, nvRank, nvIsInteger, nonVectorRank, isIntegerScalar, Layer.extractScalar]

/-- a float literal operand never makes the operator work on `int` -/
theorem aT_floatLit_not_int32 (sc ri v : Bool) (y : Layer) :
    aT sc ri v (.scalar .floatLiteral) y ≠ .ok (.scalar .int32) ∧ aT sc ri v y (.scalar .floatLiteral) ≠ .ok (.scalar .int32) := by
  cases sc <;> cases ri <;> cases v <;> cases y <;>
    simp [aT, nvRank, nvIsInteger, nonVectorRank, isIntegerScalar, Layer.extractScalar, enumRank] <;>
    (rename_i s; cases s <;> simp +decide [nonVectorRank, isIntegerScalar])

/-! ## layers -/

theorem nonVector_not_enum {l : Layer} (h : isEnum l = false) : isEnum l.nonVector = false := by
  cases l <;> simp_all [isEnum, Layer.nonVector]

theorem aT_true (ri vm : Bool) (x y : Layer) :
    aT true ri vm x y = if vm then .error (.reject "ShortCircuitingVector") else .ok (.scalar .bool) := by
  simp [aT]

theorem aT_false_scalars {ri v : Bool} {x y t : Layer} (hx : isEnum x = false) (hy : isEnum y = false)
    (h : aT false ri v x y = .ok t) : ∃ sa sb, x = .scalar sa ∧ y = .scalar sb := by
  cases x <;> cases y <;> simp [isEnum] at hx hy <;> simp [aT, nvRank] at h <;>
    first
    | exact ⟨_, _, rfl, rfl⟩
    | (exfalso; repeat' split at h
       all_goals simp at h)

theorem ofDim_not_enum (s : Scalar) (d : Dim) : isEnum (Layer.ofDim s d) = false := by
  cases d <;> rfl

/-- **The operator's working type is stable**: replacing either operand type by the working type itself (what an
    emitted cast has) leaves the working type unchanged. -/
theorem arith_stable {o : BinOp} {la lb la0 lb0 : Layer} {ts : Scalar} {dim : Dim}
    (hna : isEnum la = false) (hnb : isEnum lb = false)
    (ht : arithTarget o la lb = .ok (.scalar ts)) (hd : selectVectorRank la lb = some dim)
    (ha : la0 = la ∨ la0 = Layer.ofDim ts dim) (hb : lb0 = lb ∨ lb0 = Layer.ofDim ts dim) :
    isEnum la0 = false ∧ isEnum lb0 = false ∧ arithTarget o la0 lb0 = .ok (.scalar ts) ∧
      selectVectorRank la0 lb0 = some dim := by
  have he0 : isEnum la0 = false := by rcases ha with rfl | rfl; exact hna; exact ofDim_not_enum _ _
  have he1 : isEnum lb0 = false := by rcases hb with rfl | rfl; exact hnb; exact ofDim_not_enum _ _
  refine ⟨he0, he1, ?_, ?_⟩
  · rw [arithTarget_eq] at ht ⊢
    rw [selectVectorRank_eq] at hd
    cases hsc : o.shortCircuit
    · rw [hsc] at ht
      obtain ⟨sa, sb, hx, hy⟩ := aT_false_scalars (nonVector_not_enum hna) (nonVector_not_enum hnb) ht
      rw [hx, hy] at ht
      obtain ⟨h1, h2, h3⟩ := aT_scalar_idem _ _ _ _ _ ht (la0.isVecOrMat || lb0.isVecOrMat)
      rcases ha with rfl | rfl <;> rcases hb with rfl | rfl <;> simp only [nonVector_ofDim, hx, hy]
      · have h4 : ∀ v v', aT false o.requireInteger v (.scalar sa) (.scalar sb) = aT false o.requireInteger v' (.scalar sa) (.scalar sb) := by
          intro v v'; rfl
        rw [h4 _ _]; exact ht
      · exact h2
      · exact h1
      · exact h3
    · rw [hsc, aT_true] at ht
      rw [aT_true]
      cases hvm : (la.isVecOrMat || lb.isVecOrMat)
      · rw [hvm] at ht
        simp at ht
        subst ht
        simp only [Bool.or_eq_false_iff] at hvm
        have hda : la.opDim = .scalar := by
          cases la <;> simp_all [Layer.isVecOrMat, Layer.opDim]
        have hdb : lb.opDim = .scalar := by
          cases lb <;> simp_all [Layer.isVecOrMat, Layer.opDim]
        rw [hda, hdb] at hd
        simp [selD] at hd
        subst hd
        have hv0 : (la0.isVecOrMat || lb0.isVecOrMat) = false := by
          have hs : (Layer.ofDim Scalar.bool Dim.scalar).isVecOrMat = false := rfl
          rcases ha with rfl | rfl <;> rcases hb with rfl | rfl <;> simp [hvm.1, hvm.2, hs]
        simp [hv0]
      · rw [hvm] at ht; simp at ht
  · rw [selectVectorRank_eq] at hd ⊢
    obtain ⟨h1, h2, h3⟩ := selD_idem hd
    rcases ha with rfl | rfl <;> rcases hb with rfl | rfl <;> (try simp only [opDim_ofDim])
    · exact hd
    · exact h2
    · exact h1
    · exact h3

/-! ## `elabArith`: inversion and introduction -/

/-- the type both operands are converted to -/
def DTy (ts : Scalar) (dim : Dim) : ETy := (Ty.mk {} (Layer.ofDim ts dim)).r

theorem isEnum_false_iff (l : Layer) : isEnum l = false ↔ ∀ id, l ≠ .enum id := by
  cases l <;> simp [isEnum]

theorem arithBuild_inv {o : BinOp} {ca cb : Conversion} {a b n : IExpr} {τ : ETy}
    (h : arithBuild o ca cb a b = .ok (n, τ)) :
    ∃ ta a2 b2 i, targetType ca = .ok ta ∧ targetType cb = .ok ta ∧ applyConv ca a = .ok a2 ∧ applyConv cb b = .ok b2 ∧
      o.toIOp = some i ∧ opReturn i [ta, ta] = .ok τ ∧ n = .op i (.cons a2 (.cons b2 .nil)) := by
  unfold arithBuild at h
  split at h
  · simp at h
  · rename_i ta hta
    split at h
    · simp at h
    · rename_i tb htb
      split at h
      · simp at h
      · rename_i hne
        simp at hne; subst hne
        split at h
        · simp at h
        · rename_i a2 ha2
          split at h
          · simp at h
          · rename_i b2 hb2
            split at h
            · simp at h
            · rename_i i hi
              split at h
              · simp at h
              · rename_i out hout
                simp at h
                exact ⟨ta, a2, b2, i, hta, htb, ha2, hb2, hi, by rw [hout, h.2], h.1.symm⟩

theorem arithBuild_intro {o : BinOp} {ca cb : Conversion} {a b a2 b2 : IExpr} {ta τ : ETy} {i : IOp}
    (h1 : targetType ca = .ok ta) (h2 : targetType cb = .ok ta) (h3 : applyConv ca a = .ok a2)
    (h4 : applyConv cb b = .ok b2) (h5 : o.toIOp = some i) (h6 : opReturn i [ta, ta] = .ok τ) :
    arithBuild o ca cb a b = .ok (.op i (.cons a2 (.cons b2 .nil)), τ) := by
  simp [arithBuild, h1, h2, h3, h4, h5, h6]

theorem elabArith_inv {o : BinOp} {a b n : IExpr} {τa τb τ : ETy} (h : elabArith o a τa b τb = .ok (n, τ)) :
    ∃ ts dim ca cb a2 b2 i, isEnum τa.ty.layer = false ∧ isEnum τb.ty.layer = false ∧
      arithTarget o τa.ty.layer τb.ty.layer = .ok (.scalar ts) ∧
      selectVectorRank τa.ty.layer τb.ty.layer = some dim ∧
      find τa (DTy ts dim) = .ok (some ca) ∧ find τb (DTy ts dim) = .ok (some cb) ∧
      applyConv ca a = .ok a2 ∧ applyConv cb b = .ok b2 ∧ o.toIOp = some i ∧
      opReturn i [DTy ts dim, DTy ts dim] = .ok τ ∧ n = .op i (.cons a2 (.cons b2 .nil)) := by
  unfold elabArith at h
  split at h
  · simp at h
  · simp at h
  · rename_i la lb hna hnb
    split at h
    · simp at h
    · rename_i ts hts
      split at h
      · simp at h
      · rename_i dim hdim
        split at h
        · simp at h
        · simp at h
        · rename_i ca hca
          split at h
          · simp at h
          · simp at h
          · rename_i cb hcb
            obtain ⟨ta, a2, b2, i, h1, h2, h3, h4, h5, h6, h7⟩ := arithBuild_inv h
            have hta : ta = DTy ts dim := by
              have := targetType_ok hca
              rw [h1] at this
              simp at this
              exact this
            subst hta
            exact ⟨ts, dim, ca, cb, a2, b2, i, (isEnum_false_iff _).2 hna, (isEnum_false_iff _).2 hnb, hts, hdim, hca, hcb,
              h3, h4, h5, h6, h7⟩
    · simp at h

theorem elabArith_intro {o : BinOp} {a b a2 b2 : IExpr} {τa τb τ : ETy} {ts : Scalar} {dim : Dim} {ca cb : Conversion} {i : IOp}
    (hna : isEnum τa.ty.layer = false) (hnb : isEnum τb.ty.layer = false)
    (hts : arithTarget o τa.ty.layer τb.ty.layer = .ok (.scalar ts))
    (hdim : selectVectorRank τa.ty.layer τb.ty.layer = some dim)
    (hca : find τa (DTy ts dim) = .ok (some ca)) (hcb : find τb (DTy ts dim) = .ok (some cb))
    (h3 : applyConv ca a = .ok a2) (h4 : applyConv cb b = .ok b2) (h5 : o.toIOp = some i)
    (h6 : opReturn i [DTy ts dim, DTy ts dim] = .ok τ) :
    elabArith o a τa b τb = .ok (.op i (.cons a2 (.cons b2 .nil)), τ) := by
  unfold elabArith
  split
  · rename_i hl; rw [hl] at hna; simp [isEnum] at hna
  · rename_i hl _; rw [hl] at hnb; simp [isEnum] at hnb
  · simp only [hts, hdim]
    have hca' := hca
    have hcb' := hcb
    unfold DTy at hca' hcb'
    simp only [hca', hcb']
    exact arithBuild_intro (targetType_ok hca) (targetType_ok hcb) h3 h4 h5 h6

theorem DTy_int32 {ts : Scalar} {dim : Dim} (h : DTy ts dim = (scalarTy .int32).r) : ts = .int32 ∧ dim = .scalar := by
  cases dim <;> simp [DTy, scalarTy, Ty.r, Layer.ofDim] at h
  exact ⟨h, rfl⟩

/-- layer of a re-elaborated left operand -/
theorem back_layer_left {o : BinOp} {a' a2 a0 : IExpr} {τa τa0 : ETy} {lb : Layer} {ts : Scalar} {dim : Dim}
    (hb : Back τa (DTy ts dim) a' a2 a0 τa0) (ht : arithTarget o τa.ty.layer lb = .ok (.scalar ts)) :
    τa0.ty.layer = τa.ty.layer ∨ τa0.ty.layer = Layer.ofDim ts dim := by
  cases hb with
  | same => exact Or.inl rfl
  | exact _ => exact Or.inr rfl
  | relit _ hD hτ =>
    rcases hτ with rfl | rfl
    · exact Or.inl rfl
    · exfalso
      obtain ⟨rfl, rfl⟩ := DTy_int32 hD
      rw [arithTarget_eq] at ht
      exact (aT_floatLit_not_int32 _ _ _ _).1 ht

theorem back_layer_right {o : BinOp} {b' b2 b0 : IExpr} {τb τb0 : ETy} {la : Layer} {ts : Scalar} {dim : Dim}
    (hb : Back τb (DTy ts dim) b' b2 b0 τb0) (ht : arithTarget o la τb.ty.layer = .ok (.scalar ts)) :
    τb0.ty.layer = τb.ty.layer ∨ τb0.ty.layer = Layer.ofDim ts dim := by
  cases hb with
  | same => exact Or.inl rfl
  | exact _ => exact Or.inr rfl
  | relit _ hD hτ =>
    rcases hτ with rfl | rfl
    · exact Or.inl rfl
    · exfalso
      obtain ⟨rfl, rfl⟩ := DTy_int32 hD
      rw [arithTarget_eq] at ht
      exact (aT_floatLit_not_int32 _ _ _ _).2 ht

/-- **Arithmetic operators are stable under re-elaboration**: if both exported operands elaborate to one of the `Back`
    cases, the operator node is rebuilt with the same operands and the same type. -/
theorem elabArith_stable {o : BinOp} {a' b' n : IExpr} {τa τb τ : ETy}
    (h : elabArith o a' τa b' τb = .ok (n, τ)) :
    ∃ D ca cb a2 b2 i, find τa D = .ok (some ca) ∧ find τb D = .ok (some cb) ∧ D.vt = .rvalue ∧
      applyConv ca a' = .ok a2 ∧ applyConv cb b' = .ok b2 ∧ o.toIOp = some i ∧ n = .op i (.cons a2 (.cons b2 .nil)) ∧
      (∀ a0 τa0 b0 τb0, Back τa D a' a2 a0 τa0 → Back τb D b' b2 b0 τb0 → elabArith o a0 τa0 b0 τb0 = .ok (n, τ)) := by
  obtain ⟨ts, dim, ca, cb, a2, b2, i, hna, hnb, hts, hdim, hca, hcb, h3, h4, h5, h6, h7⟩ := elabArith_inv h
  refine ⟨DTy ts dim, ca, cb, a2, b2, i, hca, hcb, rfl, h3, h4, h5, h7, ?_⟩
  intro a0 τa0 b0 τb0 hba hbb
  obtain ⟨hna0, hnb0, hts0, hdim0⟩ := arith_stable hna hnb hts hdim (back_layer_left hba hts) (back_layer_right hbb hts)
  obtain ⟨ca0, hca0, h30⟩ := back_find hca h3 hba
  obtain ⟨cb0, hcb0, h40⟩ := back_find hcb h4 hbb
  rw [h7]
  exact elabArith_intro hna0 hnb0 hts0 hdim0 hca0 hcb0 h30 h40 h5 h6

end RsslVerif.Lemmas.FixpointArith

import RsslVerif.Model.Macro
/-!
Position lemmas for `find_single_macro` / `split_macro_args`, and the proof that the run-time tests of the
termination measure in `applyLoop` (`Err.guard`) never fire.
-/
namespace RsslVerif.Lemmas.MacroTerm
open RsslVerif.Model.Macro

theorem trimStart_length_le (l : List PTok) : (trimStart l).length ≤ l.length := by
  unfold trimStart
  exact List.Sublist.length_le (List.dropWhile_sublist _)

theorem trimStartAll_length_le (l : List PTok) : (trimStartAll l).length ≤ l.length := by
  unfold trimStartAll
  exact List.Sublist.length_le (List.dropWhile_sublist _)

theorem trimEnd_length_le (l : List PTok) : (trimEnd l).length ≤ l.length := by
  unfold trimEnd
  have := List.Sublist.length_le (List.dropWhile_sublist (fun t : PTok => t.tok.isBlank) (l := l.reverse))
  simpa using this

theorem trim_length_le (l : List PTok) : (trim l).length ≤ l.length := by
  unfold trim
  exact Nat.le_trans (trimEnd_length_le _) (trimStart_length_le _)

/-! ## `split_macro_args` -/

/-- everything `scanArgs` returns: the rest is strictly shorter than the input, and every new argument fits between
the opening parenthesis and the rest -/
theorem scanArgs_spec (ts cur : List PTok) (args : List (List PTok)) (depth : Nat)
    (rest : List PTok) (out : List (List PTok)) (h : scanArgs ts cur args depth = .ok (rest, out)) :
    rest.length < ts.length ∧
    ∀ a ∈ out, a ∈ args ∨ a.length + rest.length + 1 ≤ cur.length + ts.length := by
  induction ts generalizing cur args depth with
  | nil => simp [scanArgs] at h
  | cons t ts ih =>
    unfold scanArgs at h
    split at h
    · -- comma
      split at h
      · have := ih _ _ _ h
        refine ⟨by simp only [List.length_cons]; omega, ?_⟩
        intro a ha
        rcases this.2 a ha with hm | hl
        · rcases List.mem_append.mp hm with hm | hm
          · exact Or.inl hm
          · right
            simp only [List.mem_singleton] at hm
            subst hm
            have := trim_length_le cur
            simp only [List.length_cons]
            omega
        · right; simp only [List.length_nil, List.length_cons] at hl ⊢; omega
      · have := ih _ _ _ h
        refine ⟨by simp only [List.length_cons]; omega, ?_⟩
        intro a ha
        rcases this.2 a ha with hm | hl
        · exact Or.inl hm
        · right; simp only [List.length_append, List.length_cons, List.length_nil] at hl ⊢; omega
    · -- lparen
      have := ih _ _ _ h
      refine ⟨by simp only [List.length_cons]; omega, ?_⟩
      intro a ha
      rcases this.2 a ha with hm | hl
      · exact Or.inl hm
      · right; simp only [List.length_append, List.length_cons, List.length_nil] at hl ⊢; omega
    · -- rparen
      split at h
      · cases h
        refine ⟨by simp, ?_⟩
        intro a ha
        rcases List.mem_append.mp ha with hm | hm
        · exact Or.inl hm
        · right
          simp only [List.mem_singleton] at hm
          subst hm
          have := trim_length_le cur
          simp only [List.length_cons]
          omega
      · have := ih _ _ _ h
        refine ⟨by simp only [List.length_cons]; omega, ?_⟩
        intro a ha
        rcases this.2 a ha with hm | hl
        · exact Or.inl hm
        · right; simp only [List.length_append, List.length_cons, List.length_nil] at hl ⊢; omega
    · -- any other token
      have := ih _ _ _ h
      refine ⟨by simp only [List.length_cons]; omega, ?_⟩
      intro a ha
      rcases this.2 a ha with hm | hl
      · exact Or.inl hm
      · right; simp only [List.length_append, List.length_cons, List.length_nil] at hl ⊢; omega

theorem scanArgs_not_guard (ts cur : List PTok) (args : List (List PTok)) (depth : Nat) (w : String) :
    scanArgs ts cur args depth ≠ .error (.guard w) := by
  induction ts generalizing cur args depth with
  | nil => simp [scanArgs]
  | cons t ts ih =>
    unfold scanArgs
    split
    · split <;> exact ih _ _ _
    · exact ih _ _ _
    · split
      · simp
      · exact ih _ _ _
    · exact ih _ _ _

theorem splitArgs_spec (name : String) (remaining rest : List PTok) (args : List (List PTok))
    (h : splitArgs name remaining = .ok (rest, args)) :
    ∃ b tail, trimStartAll remaining = ⟨.lparen, b⟩ :: tail ∧ rest.length < tail.length ∧
      ∀ a ∈ args, a.length + 1 ≤ tail.length := by
  unfold splitArgs at h
  split at h
  · rename_i b tail htrim
    have hsp := scanArgs_spec tail [] [] 0 rest args h
    refine ⟨b, tail, htrim, hsp.1, ?_⟩
    intro a ha
    rcases hsp.2 a ha with hm | hl
    · cases hm
    · simp only [List.length_nil] at hl; omega
  · cases h

theorem splitArgs_not_guard (name : String) (remaining : List PTok) (w : String) :
    splitArgs name remaining ≠ .error (.guard w) := by
  unfold splitArgs
  split
  · exact scanArgs_not_guard _ _ _ _ _
  · simp

/-- a successful `readArgs` of a function-like macro is a successful `split_macro_args` (the arity tests only reject) -/
theorem readArgs_ok_function (m : Macro) (remaining rest : List PTok) (args : List (List PTok))
    (hf : m.isFunction = true) (h : readArgs m remaining = .ok (rest, args)) :
    splitArgs m.name remaining = .ok (rest, args) := by
  unfold readArgs at h
  simp only [hf, if_true] at h
  cases hs : splitArgs m.name remaining with
  | error e => simp [hs] at h
  | ok ra =>
    obtain ⟨r1, a1⟩ := ra
    simp only [hs] at h
    split at h
    · split at h
      · split at h
        · cases h; rfl
        · cases h
      · cases h
    · split at h
      · cases h
      · cases h; rfl

/-- an error of `readArgs` is the arity error or an error of `split_macro_args` -/
theorem readArgs_error (m : Macro) (remaining : List PTok) (e : Err) (h : readArgs m remaining = .error e) :
    e = .macroExpectsDifferentNumberOfArguments ∨ splitArgs m.name remaining = .error e := by
  unfold readArgs at h
  split at h
  · cases hs : splitArgs m.name remaining with
    | error e' => simp only [hs] at h; cases h; exact Or.inr rfl
    | ok ra =>
      obtain ⟨r1, a1⟩ := ra
      simp only [hs] at h
      split at h
      · split at h
        · split at h
          · cases h
          · cases h; exact Or.inl rfl
        · cases h; exact Or.inl rfl
      · split at h
        · cases h; exact Or.inl rfl
        · cases h
  · cases h

/-- `readArgs` on the tokens after the macro name: where the invocation ends and how long the arguments are -/
theorem readArgs_spec (m : Macro) (remaining rest : List PTok) (args : List (List PTok))
    (h : readArgs m remaining = .ok (rest, args)) :
    if m.isFunction then
      ∃ b tail, trimStartAll remaining = ⟨.lparen, b⟩ :: tail ∧ rest.length < tail.length ∧
        ∀ a ∈ args, a.length + 1 ≤ tail.length
    else rest = remaining ∧ args = [] := by
  cases hf : m.isFunction with
  | true =>
    simp only [if_true]
    exact splitArgs_spec m.name remaining rest args (readArgs_ok_function m remaining rest args hf h)
  | false =>
    unfold readArgs at h
    simp only [hf] at h ⊢
    cases h
    exact ⟨rfl, rfl⟩

theorem readArgs_not_guard (m : Macro) (remaining : List PTok) (w : String) :
    readArgs m remaining ≠ .error (.guard w) := by
  intro h
  rcases readArgs_error m remaining _ h with h1 | h1
  · cases h1
  · exact splitArgs_not_guard _ _ _ h1

/-! ## `find_single_macro` -/

/-- what `find_single_macro` guarantees about a macro invocation it reports at index `p` -/
def UserOk (toks : List PTok) (sp : SearchPos) (env : List Entry) (mi p : Nat) : Prop :=
  p < toks.length ∧ ∃ e, env[mi]? = some e ∧ e.disabled = false ∧
    (if e.m.isFunction then
      ∃ b tail, trimStartAll (toks.drop (p + 1)) = ⟨.lparen, b⟩ :: tail ∧
        sp.next ≤ toks.length - (tail.length + 1)
     else sp.next ≤ p)

theorem parenAfter_spec (toks : List PTok) (i a : Nat) (h : parenAfter toks i = some a) :
    ∃ b tail, trimStartAll (toks.drop (i + 1)) = ⟨.lparen, b⟩ :: tail ∧ a = toks.length - (tail.length + 1) := by
  unfold parenAfter at h
  split at h
  · rename_i b tail htrim
    cases h
    exact ⟨b, tail, htrim, rfl⟩
  · cases h

theorem matchMacro_spec (toks : List PTok) (i : Nat) (name : String) (sp : SearchPos) (k : Nat)
    (env : List Entry) (mi : Nat) (h : matchMacro toks i name sp k env = some mi) :
    ∃ e, k ≤ mi ∧ env[mi - k]? = some e ∧ e.disabled = false ∧
      (if e.m.isFunction then
        ∃ b tail, trimStartAll (toks.drop (i + 1)) = ⟨.lparen, b⟩ :: tail ∧
          sp.next ≤ toks.length - (tail.length + 1)
       else sp.next ≤ i) := by
  induction env generalizing k with
  | nil => simp [matchMacro] at h
  | cons e es ih =>
    have step : ∀ (h' : matchMacro toks i name sp (k + 1) es = some mi),
        ∃ e', k ≤ mi ∧ (e :: es)[mi - k]? = some e' ∧ e'.disabled = false ∧
          (if e'.m.isFunction then
            ∃ b tail, trimStartAll (toks.drop (i + 1)) = ⟨.lparen, b⟩ :: tail ∧
              sp.next ≤ toks.length - (tail.length + 1)
           else sp.next ≤ i) := by
      intro h'
      obtain ⟨e', hk, hget, hd, hrest⟩ := ih (k + 1) h'
      refine ⟨e', by omega, ?_, hd, hrest⟩
      have : mi - k = (mi - (k + 1)) + 1 := by omega
      rw [this, List.getElem?_cons_succ]
      exact hget
    unfold matchMacro at h
    split at h
    · exact step h
    · rename_i hdis
      split at h
      · exact step h
      · split at h
        · split at h
          · -- function-like
            rename_i hfn
            split at h
            · rename_i act hpa
              split at h
              · exact step h
              · rename_i hact
                cases h
                obtain ⟨b, tail, htrim, hact'⟩ := parenAfter_spec toks i act hpa
                refine ⟨e, Nat.le_refl _, by simp, by simpa using hdis, ?_⟩
                simp only [hfn, if_true]
                refine ⟨b, tail, htrim, ?_⟩
                omega
            · exact step h
          · rename_i hfn
            split at h
            · exact step h
            · rename_i hi
              cases h
              refine ⟨e, Nat.le_refl _, by simp, by simpa using hdis, ?_⟩
              simp only [hfn]
              simp only [Bool.false_eq_true, if_false]
              omega
        · exact step h

theorem firstNonWs_spec (l : List PTok) (i r : Nat) (h : firstNonWs l i = some r) :
    i ≤ r ∧ r < i + l.length := by
  induction l generalizing i with
  | nil => simp [firstNonWs] at h
  | cons t ts ih =>
    unfold firstNonWs at h
    split at h
    · have := ih (i + 1) h
      simp only [List.length_cons]
      omega
    · cases h
      simp

theorem suffix_facts (toks : List PTok) (i : Nat) (t : PTok) (rest : List PTok)
    (hs : t :: rest = toks.drop i) :
    i < toks.length ∧ rest = toks.drop (i + 1) ∧ rest.length = toks.length - (i + 1) := by
  have hlen : i < toks.length := by
    have : (toks.drop i).length = (t :: rest).length := by rw [← hs]
    simp only [List.length_drop, List.length_cons] at this
    omega
  have hrest : rest = toks.drop (i + 1) := by
    have := congrArg List.tail hs
    simp only [List.tail_cons, List.tail_drop] at this
    exact this
  exact ⟨hlen, hrest, by rw [hrest]; simp⟩

theorem scanFrom_concat (toks : List PTok) (sp : SearchPos) (env : List Entry) (suffix : List PTok) (i : Nat)
    (hs : suffix = toks.drop i) (l r : Nat) (h : scanFrom toks sp env suffix i = .ok (.concat l r)) :
    sp.next < r ∧ r < toks.length := by
  induction suffix generalizing i with
  | nil => simp [scanFrom] at h
  | cons t rest ih =>
    obtain ⟨hlen, hrest, hrl⟩ := suffix_facts toks i t rest hs
    unfold scanFrom at h
    split at h
    · split at h
      · cases h
      · exact ih (i + 1) hrest h
    · split at h
      · cases h
      · rename_i hnext
        split at h
        · cases h
        · split at h
          · cases h
          · rename_i r' hr
            cases h
            have := firstNonWs_spec rest (i + 1) r hr
            constructor <;> omega
    · exact ih (i + 1) hrest h

theorem scanFrom_user (toks : List PTok) (sp : SearchPos) (env : List Entry) (suffix : List PTok) (i : Nat)
    (hs : suffix = toks.drop i) (mi p : Nat) (h : scanFrom toks sp env suffix i = .ok (.user mi p)) :
    UserOk toks sp env mi p := by
  induction suffix generalizing i with
  | nil => simp [scanFrom] at h
  | cons t rest ih =>
    obtain ⟨hlen, hrest, hrl⟩ := suffix_facts toks i t rest hs
    unfold scanFrom at h
    split at h
    · rename_i name hn
      split at h
      · rename_i mi' hm
        have h12 : mi' = mi ∧ i = p := by simpa using h
        obtain ⟨h1, h2⟩ := h12
        subst h1
        rw [← h2]
        obtain ⟨e, _, hget, hd, hc⟩ := matchMacro_spec toks i name sp 0 env mi' hm
        exact ⟨hlen, e, by simpa using hget, hd, hc⟩
      · exact ih (i + 1) hrest h
    · split at h
      · cases h
      · split at h
        · cases h
        · split at h
          · cases h
          · cases h
    · exact ih (i + 1) hrest h

theorem scanFrom_not_guard (toks : List PTok) (sp : SearchPos) (env : List Entry) (suffix : List PTok)
    (i : Nat) (w : String) : scanFrom toks sp env suffix i ≠ .error (.guard w) := by
  induction suffix generalizing i with
  | nil => simp [scanFrom]
  | cons t rest ih =>
    unfold scanFrom
    split
    · split
      · simp
      · exact ih _
    · split
      · simp
      · split
        · simp
        · split <;> simp
    · exact ih _

theorem findSingle_concat (toks : List PTok) (sp : SearchPos) (env : List Entry) (l r : Nat)
    (h : findSingle toks sp env = .ok (.concat l r)) : sp.next < r ∧ r < toks.length := by
  unfold findSingle at h
  split at h
  · exact scanFrom_concat toks sp env _ sp.early rfl l r h
  · cases h

theorem findSingle_user (toks : List PTok) (sp : SearchPos) (env : List Entry) (mi p : Nat)
    (h : findSingle toks sp env = .ok (.user mi p)) : UserOk toks sp env mi p := by
  unfold findSingle at h
  split at h
  · exact scanFrom_user toks sp env _ sp.early rfl mi p h
  · cases h

theorem findSingle_not_guard (toks : List PTok) (sp : SearchPos) (env : List Entry) (w : String) :
    findSingle toks sp env ≠ .error (.guard w) := by
  unfold findSingle
  split
  · exact scanFrom_not_guard _ _ _ _ _ _
  · simp

theorem pasteTokens_not_guard (l r : PTok) (w : String) : pasteTokens l r ≠ .error (.guard w) := by
  unfold pasteTokens
  split
  · simp
  · split
    · split <;> simp
    · split <;> simp
    · split
      · simp
      · split <;> simp
    · split <;> simp
    · split <;> simp

theorem substitute_not_guard (body : List PTok) (args : List (List PTok)) (w : String) :
    substitute body args ≠ .error (.guard w) := by
  induction body with
  | nil => simp [substitute]
  | cons t ts ih =>
    unfold substitute
    split
    · split
      · simp
      · cases hs : substitute ts args with
        | ok r => simp
        | error e => simp only; intro h; cases h; exact ih hs
    · cases hs : substitute ts args with
      | ok r => simp
      | error e => simp only; intro h; cases h; exact ih hs

theorem mapE_error {α β : Type} (f : α → Except Err β) (l : List α) (e : Err) (h : mapE f l = .error e) :
    ∃ a ∈ l, f a = .error e := by
  induction l with
  | nil => simp [mapE] at h
  | cons a as ih =>
    unfold mapE at h
    split at h
    · rename_i e' he
      cases h
      exact ⟨a, by simp, he⟩
    · split at h
      · rename_i e' he
        cases h
        obtain ⟨x, hx, hfx⟩ := ih he
        exact ⟨x, by simp [hx], hfx⟩
      · cases h

/-- the three run-time tests of the measure in `applyLoop` never fail, at any depth of the recursion -/
theorem applyLoop_no_guard (env : List Entry) (toks : List PTok) (sp : SearchPos) (w : String) :
    applyLoop env toks sp ≠ .error (.guard w) := by
  fun_induction applyLoop env toks sp with
  | case1 env toks sp hlt e hf =>
    intro h; cases h; exact findSingle_not_guard _ _ _ _ hf
  | case2 => simp
  | case3 env toks sp hlt l r hf lt rt hr hl hlr e hp =>
    intro h; cases h; exact pasteTokens_not_guard _ _ _ hp
  | case4 env toks sp hlt l r hf lt rt hr hl hlr merged hp hg ih => exact ih
  | case5 env toks sp hlt l r hf lt rt hr hl hlr merged hp hg =>
    exact absurd (findSingle_concat _ _ _ _ _ hf) hg
  | case6 => simp
  | case7 => simp
  | case8 => simp
  | case9 env toks sp hlt mi p hf e hmi er hra =>
    intro h; cases h; exact readArgs_not_guard _ _ _ hra
  | case10 env toks sp hlt mi p hf e hmi rest args hra er hm ih =>
    intro h; cases h
    obtain ⟨a, ha, hfa⟩ := mapE_error _ _ _ hm
    split at hfa
    · rename_i hlen
      exact ih a hlen hfa
    · rename_i hlen
      -- the argument is shorter than the unscanned suffix
      apply hlen
      obtain ⟨hp, e', hget, hd, hc⟩ := findSingle_user _ _ _ _ _ hf
      rw [hmi] at hget
      cases hget
      have hs := readArgs_spec e.m _ rest args hra
      cases hfn : e.m.isFunction with
      | true =>
        simp only [hfn, if_true] at hs hc
        obtain ⟨b, tail, htrim, hrest, hargs⟩ := hs
        obtain ⟨b', tail', htrim', hnext⟩ := hc
        rw [htrim] at htrim'
        cases htrim'
        have := hargs a ha
        have htl : tail.length + 1 ≤ toks.length - (p + 1) := by
          have := trimStartAll_length_le (toks.drop (p + 1))
          rw [htrim] at this
          simpa using this
        omega
      | false =>
        simp only [hfn, Bool.false_eq_true, if_false] at hs
        rw [hs.2] at ha
        cases ha
  | case11 env toks sp hlt mi p hf e hmi rest args hra args' hm er hsub ih =>
    intro h; cases h; exact substitute_not_guard _ _ _ hsub
  | case12 env toks sp hlt mi p hf e hmi rest args hra args' hm output hsub hd er hbody ih1 ih2 =>
    intro h; cases h; exact ih2 hbody
  | case13 env toks sp hlt mi p hf e hmi rest args hra end_ args' hm output hsub hd output' hbody hp hg ih1 ih2 ih3 =>
    exact ih3
  | case14 env toks sp hlt mi p hf e hmi rest args hra end_ args' hm output hsub hd output' hbody hp hg ih1 ih2 =>
    -- the invocation reaches beyond `next_pos`
    exfalso
    apply hg
    obtain ⟨hp', e', hget, hd', hc⟩ := findSingle_user _ _ _ _ _ hf
    rw [hmi] at hget
    cases hget
    have hs := readArgs_spec e.m _ rest args hra
    cases hfn : e.m.isFunction with
    | true =>
      simp only [hfn, if_true] at hs hc
      obtain ⟨b, tail, htrim, hrest, hargs⟩ := hs
      obtain ⟨b', tail', htrim', hnext⟩ := hc
      rw [htrim] at htrim'
      cases htrim'
      have htl : tail.length + 1 ≤ toks.length - (p + 1) := by
        have := trimStartAll_length_le (toks.drop (p + 1))
        rw [htrim] at this
        simpa using this
      show sp.next < toks.length - rest.length
      omega
    | false =>
      simp only [hfn, Bool.false_eq_true, if_false] at hs hc
      show sp.next < toks.length - rest.length
      have hlen : rest.length = toks.length - (p + 1) := by rw [hs.1]; simp
      rw [hlen]
      omega
  | case15 => simp
  | case16 => simp
  | case17 => simp

end RsslVerif.Lemmas.MacroTerm

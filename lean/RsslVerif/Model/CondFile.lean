import RsslVerif.Model.CondExpr
import RsslVerif.Model.Include
/-!
# Composed model of `preprocess.rs`: conditionals + the C12 macro engine + the per-file token loop

This file composes the C11 pieces (`Gen.CondTables`: chain automaton tables, gating table, condition
parser tables; `Model.CondExpr.parseCond`) with the C12 model of the macro engine (`Model.Macro`:
`parseDefine`, `splitArgs`, `matchMacro`, `applyLoop`, …; `Model.Include.doDefine/doUndef`) on the token
level at which the Rust code works:

* `topLoop` = `apply_macros_internal(.., apply_defined = true, ..)`: the `while` loop of the **outermost**
  call for an `#if/#elif` line.  `find_single_macro` is `findSingleD` (the `defined` test comes before the
  macro loop and only at positions `>= next_pos`), the `FoundMacro::Defined` arm is `readDefined` + splice,
  and the `FoundMacro::User` arm hands the arguments and the substituted body to C12's `applyLoop` — the
  recursive calls of the Rust code pass `apply_defined = false`, i.e. they *are* `Macro.applyLoop`.
  Termination: the tokens right of `next_pos` decrease; the facts needed are tested at run time
  (`Err.guard`, as in `Macro.applyLoop`; a guard that fires is reported as `unsupported` by the driver —
  none did in any correspondence run; that they cannot fire is not proved here).
* text is flushed through `Macro.applyMacros` (`apply_defined = false`).
* `condD` = `trim_whitespace` + `topLoop` + `condition_parser::parse` (whitespace filter, `toCTok`,
  `CondExpr.parseCond`).
* `command` = `preprocess_command`, arm by arm; the `skip` gating is the extracted table `Gen.gate`.
* `fileLoop` = the token loop of `preprocess_included_file` (`StartOfLine / CommandStart /
  CommandContents / NormalContents`, `flush_normal`).  A file is the token stream its text lexes to
  (`SItem.lexError` = the point where `TokenStream::next` fails); the lexer itself is C10's.
* `includeFile` = `FileLoader::load` + `preprocess_included_file`; one `ConditionChain` object serves all
  files, but every file works above its own base (`FState.base` = `ConditionChain.1`): `switch`/`pop` do not
  reach the blocks of the including files and a file must end with the blocks it started with (fix 115a619);
  `include_depth` is checked against `MAX_INCLUDE_DEPTH`.
* `preprocessAll` = `preprocess_initial_file` (API defines, entry file, final chain test).

Token representation (`Macro.Tok`): identifiers `.id`; `LiteralInt`/`LiteralIntUnsigned32` `.int spelling`;
every other non-blank token `.punct spelling` (`true false if else` are keywords, not identifiers;
`<~`/`>~` = angle bracket with `FollowedBy::Token`; `"…"` string; `<…>` header name; `#`).
Core Lean only.
-/
namespace RsslVerif.Model.CondFile
open RsslVerif.Gen.CondTables RsslVerif.Model.CondExpr RsslVerif.Model.Macro

/-! ## tokens as the condition parser sees them -/

def hexDigit (c : Char) : Option Nat :=
  if c.isDigit then some (c.toNat - '0'.toNat)
  else if 'a' ≤ c ∧ c ≤ 'f' then some (c.toNat - 'a'.toNat + 10)
  else if 'A' ≤ c ∧ c ≤ 'F' then some (c.toNat - 'A'.toNat + 10)
  else none

def digitsValue (radix : Nat) : List Char → Nat → Option Nat
  | [], acc => some acc
  | c :: r, acc =>
    match hexDigit c with
    | some d => if d < radix then digitsValue radix r (acc * radix + d) else none
    | none => none

/-- value of the spelling of a `LiteralInt` / `LiteralIntUnsigned32` token (`literal_int`: `0x` hex,
    leading `0` followed by an octal digit = octal, else decimal; optional `u`/`U`); the flag = unsigned -/
def intOfSpelling (s : String) : Option (Nat × Bool) :=
  let cs := s.toList
  let (body, u) := match cs.reverse with
    | c :: r => if c = 'u' ∨ c = 'U' then (r.reverse, true) else (cs, false)
    | [] => (cs, false)
  let v := match body with
    | '0' :: 'x' :: r => if r.isEmpty then none else digitsValue 16 r 0
    | '0' :: c :: r => if c.isDigit ∧ c.toNat < '8'.toNat then digitsValue 8 (c :: r) 0 else digitsValue 10 body 0
    | [] => none
    | _ => digitsValue 10 body 0
  v.map (fun n => (n, u))

/-- `None` = whitespace (filtered by `condition_parser::parse`) -/
def toCTok : Tok → Option CTok
  | .ws | .endline => none
  | .id s => some (.Id s)
  | .int s =>
    match intOfSpelling s with
    | some (n, u) =>
      if n < 2 ^ 64 then some (if u then .LiteralIntUnsigned32 (UInt64.ofNat n) else .LiteralInt (UInt64.ofNat n))
      else some (.Other s)
    | none => some (.Other s)
  | .lparen => some .LeftParen
  | .rparen => some .RightParen
  | .comma => some (.Other ",")
  | .hashhash => some (.Other "##")
  | .concat => some (.Other "?Concat")
  | .arg _ => some (.Other "?MacroArg")
  | .punct s =>
    some (if s = "||" then .VerticalBarVerticalBar
    else if s = "&&" then .AmpersandAmpersand
    else if s = "==" then .EqualsEquals
    else if s = "!=" then .ExclamationPointEquals
    else if s = "<" then .LeftAngleBracket .Whitespace
    else if s = "<~" then .LeftAngleBracket .Token
    else if s = ">" then .RightAngleBracket .Whitespace
    else if s = ">~" then .RightAngleBracket .Token
    else if s = "=" then .Equals
    else if s = "!" then .ExclamationPoint
    else if s = "true" then .True
    else if s = "false" then .False
    else .Other s)

def condToks (ts : List PTok) : List CTok := ts.filterMap (fun t => toCTok t.tok)

/-! ## `apply_macros(.., apply_defined = true, ..)` -/

inductive FoundD where
  | user (mi pos : Nat)
  | defined (pos : Nat)
  | concat (l r : Nat)
  | none
  deriving DecidableEq, Repr, Inhabited

/-- `find_single_macro` with `apply_defined = true`: the `while i < tokens.len()` loop -/
def scanFromD (toks : List PTok) (sp : SearchPos) (env : List Entry) :
    List PTok → Nat → Except Macro.Err FoundD
  | [], _ => .ok .none
  | t :: rest, i =>
    match t.tok with
    | .id name =>
      if sp.next ≤ i ∧ name = "defined" then .ok (.defined i)
      else
        match matchMacro toks i name sp 0 env with
        | some mi => .ok (.user mi i)
        | none => scanFromD toks sp env rest (i + 1)
    | .concat =>
      if i < sp.next then .error .hang
      else
        match lastNonWs (toks.take i) 0 none with
        | none => .error .concatMissingLeftToken
        | some l =>
          match firstNonWs rest (i + 1) with
          | none => .error .concatMissingRightToken
          | some r => .ok (.concat l r)
    | _ => scanFromD toks sp env rest (i + 1)

def findSingleD (toks : List PTok) (sp : SearchPos) (env : List Entry) : Except Macro.Err FoundD :=
  if sp.early ≤ sp.next then scanFromD toks sp env (toks.drop sp.early) sp.early
  else .error (.panic "assert early_function_pos <= next_pos")

/-- operand of `defined`: `defined X` (at least one blank between) or the argument list of a macro
    called `defined` holding exactly one identifier; returns the name and the tokens after the operand -/
def readDefined (remaining : List PTok) : Except Macro.Err (String × List PTok) :=
  let viaArgs : Except Macro.Err (String × List PTok) :=
    match splitArgs "defined" remaining with
    | .error e => .error e
    | .ok (rest, args) =>
      match args with
      | [[⟨.id x, _⟩]] => .ok (x, rest)
      | _ => .error .macroExpectsDifferentNumberOfArguments
  match trimStart remaining with
  | ⟨.id x, _⟩ :: rest =>
    if remaining.length ≠ (trimStart remaining).length then .ok (x, rest) else viaArgs
  | _ => viaArgs

/-- the generated `LiteralInt(1|0)` token (it has a location: the span of the `defined …` text) -/
def definedTok (b : Bool) : PTok := ⟨.int (if b then "1" else "0"), true⟩

def isDefinedIn (env : List Entry) (x : String) : Bool := env.any (fun e => e.m.name == x)

/-- the outermost `while pos.next_pos < tokens.len()` loop for a condition line -/
def topLoop (env : List Entry) (toks : List PTok) (sp : SearchPos) : Except Macro.Err (List PTok) :=
  if _hlt : sp.next < toks.length then
    match findSingleD toks sp env with
    | .error e => .error e
    | .ok .none => .ok toks
    | .ok (.concat l r) =>
      match toks[l]?, toks[r]? with
      | some lt, some rt =>
        if l + 1 < r then
          match pasteTokens lt rt with
          | .error e => .error e
          | .ok merged =>
            if _hg : sp.next < r ∧ r < toks.length then
              topLoop env (splice toks l (r + 1) [merged]) ⟨l, l, none⟩
            else .error (.guard "concat: right operand not beyond next_pos")
        else .error (.panic "assert left_token_pos + 1 < right_token_pos")
      | _, _ => .error (.panic "index out of bounds: tokens[left/right]")
    | .ok (.defined p) =>
      match readDefined (toks.drop (p + 1)) with
      | .error e => .error e
      | .ok (x, rest) =>
        let end_ := toks.length - rest.length
        if _hg : sp.next ≤ p ∧ p < end_ ∧ end_ ≤ toks.length then
          topLoop env (splice toks p end_ [definedTok (isDefinedIn env x)]) ⟨p + 1, p + 1, none⟩
        else .error (.guard "defined: operand does not reach beyond next_pos")
    | .ok (.user mi p) =>
      match env[mi]? with
      | none => .error (.panic "index out of bounds: macro_defs[macro_index]")
      | some e =>
        match readArgs e.m (toks.drop (p + 1)) with
        | .error er => .error er
        | .ok (rest, args) =>
          let end_ := toks.length - rest.length
          match mapE (fun a => applyLoop env a SearchPos.start) args with
          | .error er => .error er
          | .ok args' =>
            match substitute e.m.body args' with
            | .error er => .error er
            | .ok output =>
              if e.disabled = false then
                match applyLoop (disable env mi) output SearchPos.start with
                | .error er => .error er
                | .ok output' =>
                  if _hp : p < end_ then
                    if _hg : sp.next < end_ ∧ end_ ≤ toks.length then
                      topLoop env (splice toks p end_ output')
                        ⟨p + output'.length, p, if e.m.isFunction then some mi else none⟩
                    else .error (.guard "invocation does not reach beyond next_pos")
                  else .error (.panic "assert end > pos")
              else .error (.panic "assert !macro_disabled[macro_index]")
  else .ok toks
termination_by toks.length - sp.next
decreasing_by
  · have h1 : (splice toks l (r + 1) [merged]).length - (l + [merged].length) = toks.length - (r + 1) :=
      splice_length_sub toks [merged] l (r + 1) (by omega) (by omega)
    simp only [List.length_singleton] at h1
    have h2 : (splice toks l (r + 1) [merged]).length ≥ l + 1 := by
      simp only [splice, List.length_append, List.length_take, List.length_drop, List.length_singleton]
      omega
    show (splice toks l (r + 1) [merged]).length - l < toks.length - sp.next
    omega
  · have h1 := splice_length_sub toks [definedTok (isDefinedIn env x)] p (toks.length - rest.length)
      (by omega) (by omega)
    simp only [List.length_singleton] at h1
    show (splice toks p (toks.length - rest.length) [definedTok (isDefinedIn env x)]).length - (p + 1)
      < toks.length - sp.next
    omega
  · have h1 := splice_length_sub toks output' p (toks.length - rest.length) (by omega) (by omega)
    show (splice toks p (toks.length - rest.length) output').length - (p + output'.length) < toks.length - sp.next
    omega

/-- `apply_macros(tokens, macros, true, ..)` -/
def applyMacrosD (defs : List Macro) (toks : List PTok) : Except Macro.Err (List PTok) :=
  topLoop (defs.map (⟨·, false⟩)) toks SearchPos.start

/-! ## errors of a preprocessing run (`PreprocessError` variants) -/

inductive Err where
  | macro (e : Macro.Err)
  | lexer
  | unknownCommand
  | invalidInclude
  | failedToFindFile
  | includeDepthExceeded
  | failedToParseIfCondition
  | invalidIfdef
  | invalidIfndef
  | invalidElse
  | invalidEndIf
  | chain (e : ChainErr)
  | unknownPragma
  | includeFuel
  deriving DecidableEq, Repr, Inhabited

def liftM {α : Type} : Except Macro.Err α → Except Err α
  | .ok a => .ok a
  | .error e => .error (.macro e)

/-- `#if/#elif`: `trim_whitespace`, `apply_macros(.., true, ..)`, `condition_parser::parse` -/
def condD (defs : List Macro) (command : List PTok) : Except Err Bool :=
  match applyMacrosD defs (trim command) with
  | .error e => .error (.macro e)
  | .ok resolved =>
    match parseCond (condToks resolved) with
    | some b => .ok b
    | none => .error .failedToParseIfCondition

/-! ## `preprocess_command` -/

structure FState where
  /-- `ConditionChain.0`, innermost block first; one object for all files -/
  chain : List Block
  /-- `ConditionChain.1`: the number of blocks that were open when the current file started; they belong to
      the including files and cannot be switched or closed from inside the file -/
  base : Nat
  macros : List Macro
  out : List PTok
  /-- `FileLoader.pragma_once_files`: a set of `FileId`s; since fix d66a6d7 a file keeps one id per *real name*
      (`real_name_remap`).  The handler of this model (and of the harness) reports the include name as the real
      name, so the set is kept by include name -/
  once : List String
  /-- `FileLoader.include_depth` -/
  depth : Nat
  deriving DecidableEq, Repr, Inhabited

def active (ch : List Block) : Bool := ch.all (·.state == activeState)

/-- `ConditionChain::switch(active, is_else, ..)`: `&mut self.0[self.1..]` (a slice panic if the base lay above
    the stack — it never does, see `Lemmas.CondFile.Above`), then `last_mut()` of the blocks of the current file -/
def chainSwitch (ch : List Block) (base : Nat) (act isElse : Bool) : Except Err (List Block) :=
  if ch.length < base then .error (.macro (.panic "range start index out of range: self.0[self.1..]"))
  else if ch.length = base then .error (.chain switchEmptyErr)
  else
    match ch with
    | [] => .error (.chain switchEmptyErr)
    | top :: r =>
      match top.switch act isElse with
      | .error e => .error (.chain e)
      | .ok top' => .ok (top' :: r)

/-- `ConditionChain::pop`: `if self.0.len() > self.1 { self.0.pop(); Ok(()) } else { Err(..) }` -/
def chainPop (ch : List Block) (base : Nat) : Except Err (List Block) :=
  if ch.length > base then .ok ch.tail else .error (.chain popEmptyErr)

/-- operand of `#include`: a `LiteralString` or a `HeaderName` token -/
def includeName (s : String) : Option String :=
  let cs := s.toList
  match cs with
  | '"' :: r => if r.getLast? = some '"' then some (String.ofList r.dropLast) else none
  | '<' :: r => if r.getLast? = some '>' ∧ s ≠ "<~" then some (String.ofList r.dropLast) else none
  | _ => none

/-- the command name: `[Id(id), rest @ ..]`, `[Token::If, ..]`, `[Token::Else, ..]` -/
def commandName : List PTok → Option (String × List PTok)
  | ⟨.id s, _⟩ :: rest => some (s, rest)
  | ⟨.punct "if", _⟩ :: rest => some ("if", rest)
  | ⟨.punct "else", _⟩ :: rest => some ("else", rest)
  | _ => none

/-- what a command does when it is not skipped -/
def exec (inc : String → FState → Except Err FState) (cur : String) (st : FState) (name : String)
    (command : List PTok) : Except Err FState :=
  if name = "include" then
    match trim command with
    | [⟨.punct s, _⟩] =>
      match includeName s with
      | none => .error .invalidInclude
      | some file =>
        if st.depth ≥ maxIncludeDepth then .error .includeDepthExceeded
        else
          match inc file { st with depth := st.depth + 1 } with
          | .error e => .error e
          | .ok st' => .ok { st' with depth := st.depth }
    | _ => .error .invalidInclude
  else if name = "ifdef" ∨ name = "ifndef" then
    match trim command with
    | [⟨.id x, _⟩] =>
      let ex := st.macros.any (fun m => m.name == x)
      .ok { st with chain := newBlock (pushState (if name = "ifndef" then !ex else ex)) :: st.chain }
    | _ => .error (if name = "ifndef" then .invalidIfndef else .invalidIfdef)
  else if name = "if" then
    match condD st.macros command with
    | .error e => .error e
    | .ok b => .ok { st with chain := newBlock (pushState b) :: st.chain }
  else if name = "elif" then
    match condD st.macros command with
    | .error e => .error e
    | .ok b =>
      match chainSwitch st.chain st.base b elifIsElse with
      | .error e => .error e
      | .ok ch => .ok { st with chain := ch }
  else if name = "else" then
    if (trimStart command).isEmpty then
      match chainSwitch st.chain st.base elseSwitchArg elseIsElse with
      | .error e => .error e
      | .ok ch => .ok { st with chain := ch }
    else .error .invalidElse
  else if name = "endif" then
    if (trimStart command).isEmpty then
      match chainPop st.chain st.base with
      | .error e => .error e
      | .ok ch => .ok { st with chain := ch }
    else .error .invalidEndIf
  else if name = "define" then
    match Include.doDefine st.macros command with
    | .error e => .error (.macro e)
    | .ok ms => .ok { st with macros := ms }
  else if name = "undef" then
    match Include.doUndef st.macros command with
    | .error e => .error (.macro e)
    | .ok ms => .ok { st with macros := ms }
  else if name = "pragma" then
    match trim command with
    | ⟨.id s, _⟩ :: _ =>
      if s = "once" then .ok { st with once := cur :: st.once }
      else if s = "warning" then .ok st
      else .error .unknownPragma
    | _ => .error .unknownPragma
  else .error .unknownCommand

/-- what `skip` does to a command whose gating is `g`; `run` = what the command does otherwise (a thunk: Lean
    is strict, and a skipped `#include` must not be executed) -/
def gated (st : FState) (g : Gate) (run : Unit → Except Err FState) : Except Err FState :=
  if active st.chain then run ()
  else match g with
    | .skipNoEffect => .ok st
    | .skipPushes c => .ok { st with chain := newBlock c :: st.chain }
    | .notGated => run ()

/-- `preprocess_command`: `skip = !is_active()`, the name split (a directive that does not start with a name is
    ignored while skipping: `Gen.nonNameGate`), then the gating of the source (`Gen.gate`: per command
    `if skip { return }` / `if skip { push; return }` / not gated; unknown names are ignored while skipping) -/
def command (inc : String → FState → Except Err FState) (cur : String) (st : FState) (cmd : List PTok) :
    Except Err FState :=
  match commandName cmd with
  | none => gated st nonNameGate (fun _ => .error .unknownCommand)
  | some (name, rest) => gated st (gate name) (fun _ => exec inc cur st name rest)

/-! ## `preprocess_included_file` -/

/-- a file = the tokens its text lexes to, up to the point where the lexer fails (if it does) -/
inductive SItem where
  | tok (t : PTok)
  | lexError
  deriving DecidableEq, Repr, Inhabited

inductive PState where
  | startOfLine | commandStart | commandContents | normalContents
  deriving DecidableEq, Repr, Inhabited

/-- `flush_normal` -/
def flush (st : FState) (act : List PTok) : Except Err FState :=
  if active st.chain then
    match applyMacros st.macros act with
    | .error e => .error (.macro e)
    | .ok ts => .ok { st with out := st.out ++ ts }
  else .ok st

/-- "Remove whitespace in active tokens between start of line and #" -/
def dropTrailingBlanks (act : List PTok) : List PTok :=
  (act.reverse.dropWhile (·.tok.isBlank)).reverse

def isHash (t : PTok) : Bool := t.tok == .punct "#"

/-- the `while !token_stream.end_of_stream()` loop; `act` = `active_tokens` -/
def fileLoop (inc : String → FState → Except Err FState) (cur : String) :
    FState → PState → List PTok → List SItem → Except Err (FState × List PTok)
  | st, _, act, [] => .ok (st, act)
  | _, _, _, .lexError :: _ => .error .lexer
  | st, ps, act, .tok t :: rest =>
    if t.tok = .endline then
      if ps = .commandContents then
        match command inc cur st act with
        | .error e => .error e
        | .ok st' => fileLoop inc cur st' .startOfLine [] rest
      else fileLoop inc cur st .startOfLine (act ++ [t]) rest
    else if isHash t ∧ ps = .startOfLine then
      match flush st (dropTrailingBlanks act) with
      | .error e => .error e
      | .ok st' => fileLoop inc cur st' .commandStart [] rest
    else if ps = .commandStart ∧ !t.tok.isWhitespace then
      fileLoop inc cur st .commandContents [t] rest
    else if ps = .startOfLine then
      fileLoop inc cur st (if t.tok.isWhitespace then .startOfLine else .normalContents) (act ++ [t]) rest
    else fileLoop inc cur st ps (act ++ [t]) rest

/-- `preprocess_included_file` on the token stream of one file: the blocks open at the start are put out of the
    file's reach (`condition_chain.1 = condition_chain.0.len()`), and after the last flush the file must have
    closed every block it opened; then the includer's base is restored -/
def runStream (inc : String → FState → Except Err FState) (cur : String) (st : FState) (items : List SItem) :
    Except Err FState :=
  match fileLoop inc cur { st with base := st.chain.length } .startOfLine [] items with
  | .error e => .error e
  | .ok (st', act) =>
    match flush st' act with
    | .error e => .error e
    | .ok st'' =>
      if st''.chain.length ≠ st''.base then .error (.chain fileUnfinishedErr)
      else .ok { st'' with base := st.base }

/-- the include handler: include name ↦ token stream of the file -/
abbrev Handler := String → Option (List SItem)

/-- `FileLoader::load` + `preprocess_included_file`; a file in `pragma_once_files` is loaded as the
    empty text (no tokens at all) -/
def includeFile (h : Handler) : Nat → String → FState → Except Err FState
  | 0, _, _ => .error .includeFuel
  | fuel + 1, name, st =>
    match h name with
    | none => .error .failedToFindFile
    | some items =>
      if st.once.contains name then runStream (includeFile h fuel) name st []
      else runStream (includeFile h fuel) name st items

/-- an API-level define: the tokens `name value` lexes to (`none` = the lexer fails: `InvalidDefine`) -/
abbrev ApiDef := Option (List PTok)

def initialMacros : List Macro → List ApiDef → Except Err (List Macro)
  | ms, [] => .ok ms
  | _, none :: _ => .error (.macro .invalidDefine)
  | ms, some toks :: ds =>
    -- "A define is a single line so the value can not contain a line break"
    if toks.any (fun t => t.tok == .endline) then .error (.macro .invalidDefine) else
    match Include.doDefine ms toks with
    | .error e => .error (.macro e)
    | .ok ms' => initialMacros ms' ds

/-- fuel that can never run out: `include_depth` is refused at `MAX_INCLUDE_DEPTH` -/
def includeFuel : Nat := maxIncludeDepth + 2

/-- `preprocess` + `preprocess_initial_file` -/
def preprocessAll (h : Handler) (api : List ApiDef) (entry : String) : Except Err (List PTok) :=
  match h entry with
  | none => .error .failedToFindFile
  | some items =>
    match initialMacros [] api with
    | .error e => .error e
    | .ok ms =>
      match runStream (includeFile h includeFuel) entry ⟨[], 0, ms, [], [], 0⟩ items with
      | .error e => .error e
      | .ok st => if st.chain.isEmpty then .ok st.out else .error (.chain unfinishedErr)

/-! ## the other public entry point, and the hand-over to the parser -/

/-- `preprocess_fragment(input, name, ..)` = `preprocess(name, .., [(name, input)], Gen.fragmentDefines)`: the
    include handler knows the fragment itself only (under its own name); `api` = the token lists the defines of
    `Gen.fragmentDefines` lex to (the lexer is outside this model) -/
def preprocessFragment (items : List SItem) (api : List ApiDef) (entry : String) : Except Err (List PTok) :=
  preprocessAll (fun n => if n = entry then some items else none) api entry

/-- `LexToken`: what the parser is given -/
inductive LexTok where
  | tok (t : Tok)
  | eof
  deriving DecidableEq, Repr, Inhabited

/-- `prepare_tokens` (pinned token for token by `Gen.prepareKeepsNonBlank`): every token that is not
    `is_whitespace()` is handed on, in order; then `Eof` -/
def prepareTokens (out : List PTok) : List LexTok :=
  (out.filter (fun t => !t.tok.isWhitespace)).map (fun t => LexTok.tok t.tok) ++ [.eof]

end RsslVerif.Model.CondFile

import RsslVerif.Model.Compile
import RsslVerif.Model.PipelineTyper
import RsslVerif.Model.PipelineNames
import RsslVerif.Gen.Reserved
import RsslVerif.Driver.Util
/-! Line-protocol front end of the C17 models (pipeline selection loop, type checker's pipeline processing). -/
namespace RsslVerif.Driver.C17
open RsslVerif.Gen.CompileTables RsslVerif.Model.Compile RsslVerif.Driver
open RsslVerif.Model.PipelineTyper

def parseStage (s : String) : Option Stage :=
  [Stage.Vertex, .Task, .Mesh, .Pixel, .Compute].find? (fun st => st.name == s)

def parseStages (s : String) : Option (List (Stage × String)) :=
  sequenceOpt ((s.splitOn ",").map fun item =>
    match item.splitOn "=" with
    | [st, f] => (parseStage st).map (·, f)
    | _ => none)

/-- payload = (does the pipeline build on its own, its stages) -/
def parsePipes (s : String) : Option (List (Pipeline (Bool × List (Stage × String)))) :=
  if s.isEmpty then some [] else
  sequenceOpt ((s.splitOn ";").map fun item =>
    match item.splitOn ":" with
    | [n, st] =>
      let fails := n.endsWith "!"
      let n := if fails then (n.dropEnd 1).toString else n
      (parseStages st).map fun l => { name := n, payload := (!fails, l) }
    | _ => none)

def parseMode (s : String) : Option Mode :=
  if s == "all" then some .all
  else if s == "nopipeline" then some .noPipeline
  else if s.startsWith "name=" then some (.named (s.drop 5).toString)
  else none

def showOut (stages : List (Stage × String)) : String :=
  "[" ++ ",".intercalate (stages.map fun (s, f) => s.name ++ "(" ++ f ++ ")") ++ "]"

/-! ## the program encoding of harness/src/c17/wgen.rs -/

/-- split at the commas that are not inside braces -/
def splitTop (s : String) : List String :=
  let rec go (cs : List Char) (depth : Nat) (cur : List Char) (acc : List String) : List String :=
    match cs with
    | [] => (if cur.isEmpty then acc else String.ofList cur.reverse :: acc).reverse
    | c :: r =>
      if c == '{' then go r (depth + 1) (c :: cur) acc
      else if c == '}' then go r (depth - 1) (c :: cur) acc
      else if c == ',' && depth == 0 then go r depth [] (String.ofList cur.reverse :: acc)
      else go r depth (c :: cur) acc
  go s.toList 0 [] []

def parseScalar (s : String) : Option Scalar :=
  if s == "{}" then some .emptyAgg
  else
    match s.splitOn ":" with
    | k :: rest =>
      let v := ":".intercalate rest
      if rest.isEmpty then none
      else if k == "i" then some (.ident v)
      else if k == "q" then some (.qual v)
      else if k == "s" then some (.str v)
      else if k == "n" || k == "k" then v.toNat?.map .num
      else if k == "m" then v.toNat?.map .neg
      else if k == "f" then some (.float v)
      -- `sizeof(<template><uint>(1u))`: value 4; the instantiation it leaves in the module is `instancesOf`
      else if k == "z" then some (.sizeofInst v)
      else if k == "v" then some .nonConst
      else if k == "b" then some (.bool (v == "1"))
      else none
    | [] => none

def splitEq (s : String) : Option (String × String) :=
  match s.splitOn "=" with
  | n :: rest => if rest.isEmpty then none else some (n, "=".intercalate rest)
  | [] => none

def parseVal (s : String) : Option Val :=
  if s.startsWith "{" && s.endsWith "}" then
    let inner := ((s.drop 1).dropEnd 1).toString
    (sequenceOpt ((splitTop inner).map fun x =>
      match splitEq x with
      | some (n, v) => (parseScalar v).map (n, ·)
      | none => none)).map .agg
  else (parseScalar s).map .single

def parseProp (s : String) : Option (String × Val) :=
  match splitEq s with
  | some (n, v) => (parseVal v).map (n, ·)
  | none => none

/-- `(threads, badThreads)`: a component `x<k>` is an argument the constant evaluator can not turn into a u32
    (k = 1 `-1`, 2 `4294967296`, 3 `1.5`, 4 a member of a groupshared variable) -/
def parseThreads (s : String) : Option (Option (Nat × Nat × Nat) × Bool) :=
  if s == "-" then some (none, false)
  else
    let comps := s.splitOn ","
    if comps.length == 3 && comps.any (fun x => x.startsWith "x") then
      if comps.all (fun x => ((x.drop 1).toString.toNat?).isSome || x.toNat?.isSome) then some (none, true) else none
    else
    match comps.map (fun x => (if x.startsWith "c" then (x.drop 1).toString else x).toNat?) with
    | [some x, some y, some z] => some (some (x, y, z), false)
    | _ => none

def hasFlag (flags : String) (c : Char) : Bool := flags.toList.contains c

def activeFlags (on : Bool) (flags : String) : Bool :=
  !(hasFlag flags 'D' && !on) && !(hasFlag flags 'E' && on)

/-- `none` = malformed; items the model does not look at (resources, statics, inactive items) are dropped -/
def parseItem (on : Bool) (s : String) : Option (List Item) :=
  match (s.splitOn " ").filter (· ≠ "") with
  | "R" :: _ => some []
  | "S" :: _ => some []
  | "T" :: _ => some []
  | ["F", name, sf, th, _, _, _] =>
    let shape := (sf.take 1).toString
    let flags := (sf.drop 1).toString
    if !activeFlags on flags then some []
    else
      (parseThreads th).map fun t =>
        [.func { name := name,
                 shape := shape ++ (if hasFlag flags 'M' then "M" else "") ++ (if hasFlag flags 'N' then "N" else ""),
                 isTemplate := hasFlag flags 'T', hasBody := !hasFlag flags 'd', threads := t.1, badThreads := t.2 }]
  | "P" :: name :: flags :: props =>
    if !activeFlags on flags then some []
    else (sequenceOpt (props.map parseProp)).map fun ps => [.pipe { name := name, props := ps }]
  | _ => none

/-- the name of a resource item whose flags say that the declaration is invalid (`x`) -/
def badDecl? (item : String) : Option String :=
  match (item.splitOn " ").filter (· ≠ "") with
  | "R" :: name :: _ :: _ :: _ :: flags :: _ => if hasFlag flags 'x' then some name else none
  | _ => none

/-- the items up to the first declaration the front end rejects, and that declaration's name -/
def splitAtBadDecl : List String → List String × Option String
  | [] => ([], none)
  | it :: rest =>
    match badDecl? it with
    | some n => ([], some n)
    | none => let (a, b) := splitAtBadDecl rest; (it :: a, b)

/-- the model's items (up to the first invalid declaration, whose name is the second component) -/
def parseProgram (on : Bool) (s : String) : Option (List Item × Option String) :=
  if s.isEmpty then some ([], none)
  else
    let (pre, bad) := splitAtBadDecl (s.splitOn " | ")
    (sequenceOpt (pre.map (parseItem on))).map fun l => (l.flatten, bad)

/-- an active Pipeline block has a property without a value (`x:0`): the parser rejects the file -/
def hasGarbage (on : Bool) (s : String) : Bool :=
  (s.splitOn " | ").any fun item =>
    match (item.splitOn " ").filter (· ≠ "") with
    | "P" :: _ :: flags :: props => activeFlags on flags && props.any (fun p => (p.splitOn "=x:").length > 1)
    | _ => false

/-- the file declares the structured buffer whose element layouts differ between HLSL and Metal — as a single
    buffer or as an array of any shape (sized, unsized, through a typedef): `check_layout` removes the array layers
    of a global and the modifiers between them before it looks for a structured buffer (fixes d99f90e, bdddd35) -/
def hasLayoutTrap (s : String) : Bool :=
  (s.splitOn " | ").any fun item =>
    match (item.splitOn " ").filter (· ≠ "") with
    | "R" :: _ :: kind :: _ => kind == "TrapBuffer"
    | _ => false

/-- a function defined twice (same name, signature, scope): a front-end error outside the model -/
def hasRedefinition : List Item → Bool
  | [] => false
  | .func f :: rest =>
    (f.hasBody && rest.any (fun it => match it with
      | .func g => g.hasBody && g.name == f.name && g.shape == f.shape
      | .pipe _ => false)) || hasRedefinition rest
  | .pipe _ :: rest => hasRedefinition rest

def showTgs : Option (Nat × Nat × Nat) → String
  | none => "-"
  | some (x, y, z) => s!"{x},{y},{z}"

def showAttachment (a : Attachment) : String :=
  if a == defaultAttachment then "d"
  else s!"{if a.enabled then 1 else 0}:{a.src}:{a.dst}:{a.op}:{a.srcA}:{a.dstA}:{a.opA}:{a.mask}"

def showState : Option GState → String
  | none => "-"
  | some g =>
    "rt=[" ++ ",".intercalate (g.rt.map fun o => o.getD "-") ++ "];depth=" ++ g.depth.getD "-" ++
    ";cull=" ++ g.cull ++ ";wind=" ++ g.wind ++ ";blend=[" ++ "/".intercalate (g.blend.map showAttachment) ++ "]"

def showIrPipe (p : IrPipe) : String :=
  p.name ++ "{g=" ++ toString p.group ++ ";" ++
    ",".intercalate (p.stages.map fun s => s.stage.name ++ "=" ++ s.entryName ++ "@" ++ showTgs s.tgs) ++ ";" ++
    showState p.state ++ "}"

def kindName : ErrKind → String
  | .alreadyDefined => "AlreadyDefined" | .noEntryPoint => "NoEntryPoint"
  | .invalidStageCombination => "InvalidStageCombination" | .entryUnknown => "EntryUnknown"
  | .propertyUnknown => "PropertyUnknown" | .propertyDuplicate => "PropertyDuplicate"
  | .requiresGraphics => "RequiresGraphics" | .requiresString => "RequiresString"
  | .requiresInteger => "RequiresInteger" | .argumentUnknown => "ArgumentUnknown"
  | .stringNotUsable => "StringNotUsable" | .unsupported => "Unsupported"
  | .threadsNotInteger => "ThreadsNotInteger"

def showTyper : Except (String × Err) TState → String
  | .ok s => "ok:" ++ String.join (s.pipes.map showIrPipe)
  | .error (n, e) =>
    match e.kind with
    | .unsupported => "unsupported"
    | .stringNotUsable => "err:other:error: string may not be used"
    | .threadsNotInteger => "err:other:error: state requires an integer argument"
    | k => "err:" ++ kindName k ++ "@" ++ n ++ "." ++ toString e.path

/-- the symbols of a wide program that are not functions, in the order `NameMap::build` pushes them
    (harness/src/c17/wgen.rs: `PREAMBLE`, `render_res`, `render_func`): the namespace `ns1` when an active item is
    written inside it, the preamble's structs and the struct around every method, the preamble's globals, every
    resource that is a global variable (a cbuffer block is not one) and the statics -/
def othersOf (on : Bool) (prog : String) : RsslVerif.Model.PipelineNames.Others :=
  let items := (prog.splitOn " | ").map fun s => (s.splitOn " ").filter (· ≠ "")
  let fnFlags (sf : String) : String := (sf.drop 1).toString
  let hasNs := items.any fun it =>
    match it with
    | "F" :: _ :: sf :: _ => activeFlags on (fnFlags sf) && hasFlag (fnFlags sf) 'N'
    | "P" :: _ :: flags :: _ => activeFlags on flags && hasFlag flags 'N'
    | _ => false
  let methodStructs : List (Option Nat × String) := items.filterMap fun it =>
    match it with
    | "F" :: name :: sf :: _ =>
      if activeFlags on (fnFlags sf) && hasFlag (fnFlags sf) 'M' then
        some (if hasFlag (fnFlags sf) 'N' then some 0 else none, "S_" ++ name)
      else none
    | _ => none
  let globals : List (Option Nat × String) := items.filterMap fun it =>
    match it with
    | "R" :: name :: kind :: _ => if kind == "cbuffer" then none else some (none, name)
    | ["S", k] => some (none, "s_value" ++ k)
    | _ => none
  { nss := if hasNs then [(none, "ns1")] else [],
    structs := [(none, "CbS"), (none, "MeshVertex"), (none, "TaskPayload"), (none, "MeshPrim"), (none, "LayoutTrap")] ++
      methodStructs,
    globals := [(none, "K_ONE"), (none, "lds_payload")] ++ globals }

/-- The name the HLSL exporter reports for an entry function: the leaf name the name map (`Model/Names.lean`, C15's
    model of `NameMap::build`, with the HLSL reserved words re-extracted into `Gen/Reserved.lean`) gives the function
    in the map of the **whole module** - an overload, a method or any other symbol of the same name and namespace,
    before or after the Pipeline block, makes it `name_k`. -/
def hlslEntryName (o : RsslVerif.Model.PipelineNames.Others) (reg : List FnDecl) (i : Nat) : String :=
  match RsslVerif.Model.PipelineNames.entryName RsslVerif.Gen.Reserved.hlsl o reg i with
  | .ok n => n
  | .error e => "?" ++ e

def showWideOut (msl : Bool) (o : RsslVerif.Model.PipelineNames.Others) (reg : List FnDecl) (p : IrPipe) : String :=
  "[" ++ ",".intercalate (p.stages.map fun s =>
      s.stage.name ++ "(" ++ (if msl then mslEntryName s.stage else hlslEntryName o reg s.entry) ++ ")@" ++ showTgs s.tgs) ++
    "|" ++ showState p.state ++ "]"

def handle (op : String) (args : List String) : String :=
  match op, args with
  | "C17.select", [tgt, mode, pipes, _seed, bare] =>
    match parseMode mode, parsePipes pipes with
    | some m, some ps =>
      let msl := tgt == "msl"
      let build : Option (Pipeline (Bool × List (Stage × String))) → Except Unit (List (Stage × String)) :=
        fun p => match p with
          | some p => if p.payload.1 then .ok (reportedStages msl p.payload.2) else .error ()
          | none => if bare == "bare=ok" then .ok [] else .error ()
      match compileLoop build ps m with
      | .ok outs => "ok:" ++ String.join (outs.map showOut)
      | .buildErr _ => "err:build"
      | .errUnknown n => "err:unknown:" ++ n
      | .errNone => "err:none"
      | .panicMultiple => "panic:multiple"
    | _, _ => "bad-request"
  | "C17.typer", [on, prog] =>
    if hasGarbage (on == "on") prog then "err:parse"
    else
    match parseProgram (on == "on") prog with
    | some (items, bad) =>
      if hasRedefinition items then "unsupported" else
      match typeCheck items, bad with
      | .ok _, some n => "err:decl@R:" ++ n
      | r, _ => showTyper r
    | none => "unsupported"
  | "C17.wide", [tgt, mode, opts, prog, fails, bare] =>
    let optl := opts.splitOn ","
    -- compile() checks its arguments first, then runs the front end (the parser before the type checker, layout
    -- validation after it)
    if optl.contains "ba" && tgt != "vk" && tgt != "vkba" then "err:args"
    else if hasGarbage (opts.startsWith "on") prog then "err:front"
    else
    match parseMode mode, parseProgram (opts.startsWith "on") prog with
    | some m, some (items, bad) =>
      if hasRedefinition items then "unsupported" else
      match typeCheck items with
      | .error (_, e) => if e.kind == .unsupported then "unsupported" else "err:front"
      | .ok s =>
        if bad.isSome then "err:front" else
        if optl.contains "vl" && hasLayoutTrap prog then "err:front" else
        let msl := tgt == "msl"
        let failing := if fails == "-" then [] else fails.splitOn ","
        let others := othersOf (opts.startsWith "on") prog
        let ps : List (Pipeline IrPipe) := s.pipes.map fun p => { name := p.name, payload := p }
        let build : Option (Pipeline IrPipe) → Except Unit String :=
          fun p => match p with
            | some p => if failing.contains p.name then .error () else .ok (showWideOut msl others s.reg p.payload)
            | none => if bare == "bare=ok" then .ok "[|-]" else .error ()
        match compileLoop build ps m with
        | .ok outs => "ok:" ++ String.join outs
        | .buildErr _ => "err:build"
        | .errUnknown n => "err:unknown:" ++ n
        | .errNone => "err:none"
        | .panicMultiple => "panic:multiple"
    | _, _ => "unsupported"
  | _, _ => "unsupported-op"

end RsslVerif.Driver.C17

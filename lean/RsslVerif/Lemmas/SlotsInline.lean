import RsslVerif.Lemmas.Slots
/-! Lemmas about the inline-constant buffers built at the end of `assign_api_bindings`. -/
namespace RsslVerif.Lemmas.Slots
open RsslVerif.Gen.SlotTables RsslVerif.Model.Slots RsslVerif.Spec.Slots

/-- the key list of a counter has no duplicates and holds exactly the keys with a positive total -/
def KeysInv (c : Counter) : Prop := c.keys.Nodup ∧ ∀ g, g ∈ c.keys ↔ 0 < c.get g

theorem KeysInv.empty : KeysInv Counter.empty := by
  simp [KeysInv, Counter.empty]

theorem KeysInv.bump {c : Counter} (hc : KeysInv c) (s n : Nat) (hn : 0 < n) :
    KeysInv (c.bump s n).2 := by
  obtain ⟨hnd, hk⟩ := hc
  simp only [Counter.bump, List.contains_eq_mem, decide_eq_true_eq]
  by_cases hm : s ∈ c.keys
  · simp only [hm, if_true]
    refine ⟨hnd, fun g => ?_⟩
    by_cases hg : g = s
    · subst hg; simp [hm]; omega
    · simp [hg, hk]
  · simp only [hm, if_false]
    refine ⟨?_, fun g => ?_⟩
    · rw [List.nodup_append]
      refine ⟨hnd, by simp, ?_⟩
      intro a ha b hb
      simp at hb; subst hb
      intro e; subst e; exact hm ha
    · by_cases hg : g = s
      · subst hg; simp; omega
      · simp [hg, hk]

theorem step_inline_inv {p : Params} (hp : ParamsOk p) {dflt : Nat} {st st' : State} {d : Decl}
    {ob : Option Binding} (h : step p dflt st d = .ok (st', ob)) (hc : KeysInv st.inline) :
    KeysInv st'.inline := by
  unfold step at h
  split at h
  · cases h; exact hc
  · cases h; exact hc
  · rename_i set ss kind len
    simp only [] at h
    split at h
    · cases h; exact hc
    · split at h
      · cases h; exact hc
      · rename_i k
        split at h
        · cases h; exact hc
        · split at h
          · rename_i hcond
            cases h
            apply KeysInv.bump hc
            have : p.supportBufferAddress = true := by
              simp at hcond; exact hcond.1.1
            have hm := hp this
            have hl : len = none := by simp at hcond; exact hcond.2
            subst hl
            simp [slotCount, sliceCost_spec, hm]
          · cases h; exact hc

theorem run_inline_inv {p : Params} (hp : ParamsOk p) {dflt : Nat} :
    ∀ {ds : List Decl} {st st' : State} {bs : List (Option Binding)},
      run p dflt st ds = .ok (st', bs) → KeysInv st.inline → KeysInv st'.inline := by
  intro ds
  induction ds with
  | nil => intro st st' bs h hc; simp [run] at h; obtain ⟨rfl, rfl⟩ := h; exact hc
  | cons d ds ih =>
    intro st st' bs h hc
    unfold run at h
    split at h
    · cases h
    · rename_i st1 ob hstep
      split at h
      · cases h
      · rename_i st2 bs' hrun
        cases h
        exact ih hrun (step_inline_inv hp hstep hc)

/-! insertion sort facts -/
theorem mem_insertBuf {b x : InlineBuf} {l : List InlineBuf} :
    x ∈ insertBuf b l ↔ x = b ∨ x ∈ l := by
  induction l with
  | nil => simp [insertBuf]
  | cons y ys ih =>
    simp only [insertBuf]
    split
    · simp
    · simp [ih]; constructor
      · rintro (h | h | h) <;> simp [h]
      · rintro (h | h | h) <;> simp [h]

theorem mem_sortBufs {x : InlineBuf} {l : List InlineBuf} : x ∈ sortBufs l ↔ x ∈ l := by
  induction l with
  | nil => simp [sortBufs]
  | cons y ys ih => simp [sortBufs, mem_insertBuf, ih]

theorem insertBuf_sorted {b : InlineBuf} {l : List InlineBuf}
    (hl : l.Pairwise (fun a c => a.set < c.set)) (hb : ∀ x ∈ l, x.set ≠ b.set) :
    (insertBuf b l).Pairwise (fun a c => a.set < c.set) := by
  induction l with
  | nil => simp [insertBuf]
  | cons y ys ih =>
    simp only [insertBuf]
    rw [List.pairwise_cons] at hl
    split
    · rename_i hle
      have hlt : b.set < y.set := by
        have := hb y (by simp); omega
      rw [List.pairwise_cons]
      refine ⟨?_, List.pairwise_cons.2 hl⟩
      intro a ha
      simp at ha
      rcases ha with rfl | ha
      · exact hlt
      · have := hl.1 a ha; omega
    · rename_i hnle
      rw [List.pairwise_cons]
      refine ⟨?_, ih hl.2 (fun x hx => hb x (by simp [hx]))⟩
      intro a ha
      rw [mem_insertBuf] at ha
      rcases ha with rfl | ha
      · omega
      · exact hl.1 a ha

theorem sortBufs_sorted {l : List InlineBuf} (hnd : (l.map (·.set)).Nodup) :
    (sortBufs l).Pairwise (fun a c => a.set < c.set) := by
  induction l with
  | nil => simp [sortBufs]
  | cons y ys ih =>
    simp only [List.map_cons, List.nodup_cons] at hnd
    simp only [sortBufs]
    apply insertBuf_sorted (ih hnd.2)
    intro x hx e
    rw [mem_sortBufs] at hx
    exact hnd.1 (by rw [← e]; exact List.mem_map_of_mem hx)

end RsslVerif.Lemmas.Slots

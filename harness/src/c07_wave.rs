//! C07, stream `wave:<seed>`: accepted programs whose functions need SEVERAL KINDS of implicit parameters on Metal.
//!
//! `analyse_globals` (msl/src/generator.rs) walks the closed usage set of every function - a `HashSet` - and pushes
//! an `ImplicitFunctionParameter` per global AND per wave / mesh intrinsic that the function reaches:
//! `ThreadIndexInSimdgroup` (WaveGetLaneIndex), `ThreadsPerSimdgroup` (WaveGetLaneCount), `MeshOutput`
//! (SetMeshOutputCounts), `Global(id)`; `required_globals.sort()` is the only thing that fixes the order of the
//! parameter list, of the arguments at every call site and of the entry point's attribute parameters
//! (msl/src/generator/pipeline.rs).  The other streams only ever produce `Global` entries (coverage pass 2: the
//! `ThreadIndexInSimdgroup` / `ThreadsPerSimdgroup` arms of the entry point generator were never executed), so a sort
//! that orders the globals only was invisible.
//!
//! Shapes: 3-8 helpers, each reading 0-1 of the two lane intrinsics directly, 0-2 of 3-6 globals (byte buffers,
//! structured buffer, texture, static, groupshared, cbuffer member), calling 0-2 earlier helpers (closed sets mix
//! both lane intrinsics with several globals), sometimes through a default argument on the DEFINITION that reads a
//! lane intrinsic and a global, sometimes inside a namespace; 0-2 static globals initialised from a lane intrinsic or
//! a helper call (the requirement runs through a global's entry of the table); compute pipeline (2 of 4), mesh + pixel
//! pipeline (1 of 4) where one or two helpers call SetMeshOutputCounts (`MeshOutput` next to the lane kinds and the
//! globals), or task + mesh + pixel pipeline (1 of 4) where the task shader or a helper of it calls DispatchMesh
//! (`PayloadOutput` + `MeshGridProperties` next to the lane kinds and the globals); declarations shuffled; the entry
//! point reaches most helpers.
use crate::util::Rng;

pub struct WaveShape {
    pub helpers: usize,
    pub mesh: bool,
    pub task: bool,
    pub lane_index: usize,
    pub lane_count: usize,
    pub defaults: usize,
    pub init_globals: usize,
}

pub fn wave_program(rng: &mut Rng) -> (String, WaveShape) {
    // 0, 1: compute; 2: mesh + pixel; 3: task + mesh + pixel (DispatchMesh: PayloadOutput + MeshGridProperties)
    let kind = rng.below(4);
    let mesh = kind == 2;
    let task = kind == 3;
    let nglob = rng.range(3, 7) as usize;
    let mut decls: Vec<String> = Vec::new();
    let mut reads: Vec<String> = Vec::new();
    let mut cb_members = Vec::new();
    for k in 0..nglob {
        match rng.below(7) {
            0 => {
                decls.push(format!("ByteAddressBuffer g_ro_{};\n", k));
                reads.push(format!("g_ro_{}.Load({})", k, 4 * rng.below(8)));
            }
            1 => {
                decls.push(format!("RWByteAddressBuffer g_rw_{};\n", k));
                reads.push(format!("g_rw_{}.Load({})", k, 4 * rng.below(8)));
            }
            2 => {
                decls.push(format!("StructuredBuffer<uint> g_sb_{};\n", k));
                reads.push(format!("g_sb_{}[{}]", k, rng.below(8)));
            }
            3 => {
                decls.push(format!("Texture2D<float4> g_tex_{};\n", k));
                reads.push(format!("(uint)g_tex_{}.Load(int3(0, 0, 0)).x", k));
            }
            4 => {
                decls.push(format!("static uint s_{} = {};\n", k, rng.below(9)));
                reads.push(format!("s_{}", k));
            }
            5 => {
                decls.push(format!("groupshared uint gs_{}[8];\n", k));
                reads.push(format!("gs_{}[{}]", k, rng.below(8)));
            }
            _ => {
                cb_members.push(format!("    uint c_{};\n", k));
                reads.push(format!("c_{}", k));
            }
        }
    }
    if !cb_members.is_empty() {
        decls.push(format!("cbuffer Params\n{{\n{}}}\n", cb_members.concat()));
    }
    let nh = rng.range(3, 9) as usize;
    let mut shape = WaveShape { helpers: nh, mesh, task, lane_index: 0, lane_count: 0, defaults: 0, init_globals: 0 };
    // helper names with their qualification; helper i may call helpers < i only (acyclic)
    let mut names: Vec<String> = Vec::new();
    let mut defs: Vec<String> = Vec::new();
    let mesh_callers: Vec<usize> = if mesh {
        let a = rng.below(nh as u64) as usize;
        if rng.chance(1, 2) { vec![a, rng.below(nh as u64) as usize] } else { vec![a] }
    } else {
        Vec::new()
    };
    for i in 0..nh {
        let in_ns = rng.chance(1, 4);
        let mut terms: Vec<String> = vec!["x".to_string()];
        // make sure both lane kinds occur in the program: helper 0 reads the index, helper 1 the count
        let lane = if i == 0 { 1 } else if i == 1 { 2 } else { rng.below(4) };
        if lane == 1 {
            terms.push("WaveGetLaneIndex()".into());
            shape.lane_index += 1;
        } else if lane == 2 {
            terms.push("WaveGetLaneCount()".into());
            shape.lane_count += 1;
        }
        for _ in 0..rng.below(3) {
            terms.push(rng.pick(&reads).clone());
        }
        if i > 0 {
            for _ in 0..rng.below(3) {
                let j = rng.below(i as u64) as usize;
                terms.push(format!("{}(x + {}u)", names[j], rng.below(5)));
            }
        }
        // order of the uses inside the body
        for k in (1..terms.len()).rev() {
            let j = rng.below(k as u64 + 1) as usize;
            terms.swap(k, j);
        }
        let default = if rng.chance(1, 4) {
            shape.defaults += 1;
            let lane_fn = if rng.chance(1, 2) { "WaveGetLaneCount()" } else { "WaveGetLaneIndex()" };
            format!(", uint y = {} + {}", lane_fn, rng.pick(&reads))
        } else if rng.chance(1, 4) {
            ", uint y = 1u".to_string()
        } else {
            String::new()
        };
        if !default.is_empty() {
            terms.push("y".into());
        }
        let pre = if mesh_callers.contains(&i) { "    SetMeshOutputCounts(3, 1);\n" } else { "" };
        let body = format!("uint h_{}(uint x{})\n{{\n{}    return {};\n}}\n", i, default, pre, terms.join(" + "));
        if in_ns {
            let ns = format!("W{}", rng.below(2));
            defs.push(format!("namespace {}\n{{\n{}}}\n", ns, body));
            names.push(format!("{}::h_{}", ns, i));
        } else {
            defs.push(body);
            names.push(format!("h_{}", i));
        }
    }
    // static globals whose initialiser needs a lane intrinsic or a helper: read by the entry point
    let ninit = rng.below(3) as usize;
    shape.init_globals = ninit;
    let mut init_reads = Vec::new();
    for k in 0..ninit {
        let init = match rng.below(3) {
            0 => "WaveGetLaneIndex() + 1u".to_string(),
            1 => "WaveGetLaneCount() * 2u".to_string(),
            _ => format!("{}({}u)", rng.pick(&names), k),
        };
        defs.push(format!("static uint s_init_{} = {};\n", k, init));
        init_reads.push(format!("s_init_{}", k));
    }
    // globals first (shuffled), helpers in dependency order (a helper is declared before its callers)
    for k in (1..decls.len()).rev() {
        let j = rng.below(k as u64 + 1) as usize;
        decls.swap(k, j);
    }
    let mut src = String::new();
    if mesh || task {
        src.push_str("struct Vert\n{\n    float4 position : SV_Position;\n    float2 uv : TEXCOORD0;\n};\n");
    }
    if task {
        src.push_str("struct TaskPayload\n{\n    uint start_location;\n};\ngroupshared TaskPayload lds_payload;\n");
    }
    src.push_str(&decls.concat());
    src.push_str("RWByteAddressBuffer g_result;\n");
    src.push_str(&defs.concat());
    // entry: calls the last helper, every mesh caller, and 1-3 more
    let mut calls: Vec<String> = vec![format!("{}(tid.x)", names[nh - 1])];
    for m in &mesh_callers {
        calls.push(format!("{}(tid.x + 1u)", names[*m]));
    }
    for _ in 0..rng.range(1, 4) {
        calls.push(format!("{}(tid.x + {}u)", rng.pick(&names), rng.below(7)));
    }
    calls.extend(init_reads);
    for k in (1..calls.len()).rev() {
        let j = rng.below(k as u64 + 1) as usize;
        calls.swap(k, j);
    }
    if task {
        // DispatchMesh inside a helper that also reads a lane intrinsic and a global (half of the programs) or in the
        // entry point itself: PayloadOutput and MeshGridProperties next to the lane kinds and the globals
        let extra = match rng.below(3) { 0 => " + WaveGetLaneCount()".to_string(), 1 => " + WaveGetLaneIndex()".to_string(), _ => String::new() };
        let read = if rng.chance(1, 2) { format!(" + {}", rng.pick(&reads)) } else { String::new() };
        let via_helper = rng.chance(1, 2);
        if via_helper {
            src.push_str(&format!("void launch(uint n)\n{{\n    lds_payload.start_location = n{}{};\n    DispatchMesh(4u, 1u, 1u, lds_payload);\n}}\n", extra, read));
        }
        let tail = if via_helper { "    launch(r);\n".to_string() } else { format!("    lds_payload.start_location = r{}{};\n    DispatchMesh(4u, 1u, 1u, lds_payload);\n", extra, read) };
        src.push_str(&format!(
            "[numthreads(64, 1, 1)]\nvoid ts(uint3 tid : SV_DispatchThreadID)\n{{\n    uint r = {};\n    g_result.Store(tid.x * 4, r);\n{}}}\n[numthreads(3, 1, 1)]\n[outputtopology(\"triangle\")]\nvoid ms(uint3 tid : SV_DispatchThreadID, in payload TaskPayload data, out vertices Vert v[3], out indices uint3 t[1])\n{{\n    SetMeshOutputCounts(3, 1);\n    Vert o;\n    o.position = float4(data.start_location, 0, 0, 1);\n    o.uv = float2(0, 0);\n    v[tid.x] = o;\n    t[0] = uint3(0, 1, 2);\n}}\nfloat4 ps() : SV_Target0\n{{\n    return float4(0, 0, 0, 1);\n}}\nPipeline P\n{{\n    TaskShader = ts;\n    MeshShader = ms;\n    PixelShader = ps;\n}}\n",
            calls.join(" + "),
            tail
        ));
    } else if mesh {
        src.push_str(&format!(
            "[numthreads(3, 1, 1)]\n[outputtopology(\"triangle\")]\nvoid ms(uint3 tid : SV_DispatchThreadID, out vertices Vert v[3], out indices uint3 t[1])\n{{\n    uint r = {};\n    g_result.Store(tid.x * 4, r);\n    Vert o;\n    o.position = float4(0, 0, 0, 1);\n    o.uv = float2(0, 0);\n    v[tid.x] = o;\n    t[0] = uint3(0, 1, 2);\n}}\nfloat4 ps() : SV_Target0\n{{\n    return float4(0, 0, 0, 1);\n}}\nPipeline P\n{{\n    MeshShader = ms;\n    PixelShader = ps;\n}}\n",
            calls.join(" + ")
        ));
    } else {
        src.push_str(&format!(
            "[numthreads(64, 1, 1)]\nvoid CSMain(uint3 tid : SV_DispatchThreadID)\n{{\n    uint r = {};\n    g_result.Store(tid.x * 4, r);\n}}\nPipeline P\n{{\n    ComputeShader = CSMain;\n}}\n",
            calls.join(" + ")
        ));
    }
    (src, shape)
}

import RsslVerif.Model.Conv
/-!
# Type-registry operations used by elaboration (ir/src/ir_types.rs)

`Model.Conv` already fixes the type universe shared by C16 and C03: a `Ty` is one optional `Modifier`
(`is_const`, `volatile`, the four remaining flags packed into `rest`: bit 0 `row_major`, bit 1 `column_major`,
bit 2 `unorm`, bit 3 `snorm`) around one `Layer` (`scalar`, `vector`, `matrix`, `enum id`, `other id` = struct /
object / array / void as opaque ids), and `ETy` adds the value category.  Because `TypeRegistry::register_type`
hash-conses layers, `TypeId` equality is equality of these structural types.

This file mirrors the registry helpers the expression typing rules call.  Functions that `panic!` in Rust return
`Option`/`Except` here; nothing is totalised by a default value.
-/
namespace RsslVerif.Model.Conv
open RsslVerif.Gen.RankTable

/-- `TypeRegistry::remove_modifier` -/
def Ty.unmod (t : Ty) : Ty := ⟨{}, t.layer⟩

/-- `TypeId::to_rvalue` / `to_lvalue` -/
def Ty.r (t : Ty) : ETy := ⟨t, .rvalue⟩
def Ty.l (t : Ty) : ETy := ⟨t, .lvalue⟩

/-- the unmodified scalar type `register_type(TypeLayer::Scalar(s))` -/
def scalarTy (s : Scalar) : Ty := ⟨{}, .scalar s⟩

/-- `matches!(tyl, Vector(..) | Matrix(..))` -/
def Layer.isVecOrMat : Layer → Bool
  | .vector _ _ => true
  | .matrix _ _ _ => true
  | _ => false

/-- `matches!(tyl, Scalar(_) | Vector(..) | Matrix(..))` -/
def Layer.isNumeric : Layer → Bool
  | .scalar _ => true
  | .vector _ _ => true
  | .matrix _ _ _ => true
  | _ => false

/-- `TypeRegistry::get_non_vector_id` on an unmodified type -/
def Layer.nonVector : Layer → Layer
  | .vector s _ => .scalar s
  | .matrix s _ _ => .scalar s
  | l => l

/-- `TypeRegistry::transform_scalar` on the layer; `none` = `panic!("non-numeric type in transform_scalar")` -/
def Layer.transformScalar (l : Layer) (s : Scalar) : Option Layer :=
  match l with
  | .scalar _ => some (.scalar s)
  | .vector _ n => some (.vector s n)
  | .matrix _ x y => some (.matrix s x y)
  | .enum _ => some (.scalar s)
  | .other _ => none

/-- `NumericDimension::from_parts(tyl.to_x(), tyl.to_y())`: every non-vector, non-matrix layer is `Scalar` -/
def Layer.opDim : Layer → Dim
  | .vector _ n => .vector n
  | .matrix _ x y => .matrix x y
  | _ => .scalar

/-- `select_vector_rank` (typer/src/typer/expressions.rs), arm by arm in source order; `none` = `Err(())` -/
def selectVectorRank (l r : Layer) : Option Dim :=
  match l.opDim, r.opDim with
  | .scalar, .scalar => some .scalar
  | .scalar, .vector x => some (.vector x)
  | .vector x, .scalar => some (.vector x)
  | .vector x1, .vector x2 =>
    -- `(Vector(_), Vector(1)) => left`, `(Vector(1), Vector(_)) => right`, `x1 < x2 => left`, otherwise right
    if x2 = 1 then some (.vector x1) else if x1 = 1 then some (.vector x2)
    else if x1 < x2 then some (.vector x1) else some (.vector x2)
  | .scalar, .matrix x y => some (.matrix x y)
  | .matrix x y, .scalar => some (.matrix x y)
  | .matrix x1 y1, .matrix x2 y2 => if x1 = x2 ∧ y1 = y2 then some (.matrix x1 y1) else none
  | _, _ => none

/-- `TypeLayer::most_significant_dimension` (ir/src/ir_types.rs) -/
def mostSignificantDimension (l r : Layer) : Option Dim :=
  match l, r with
  | .scalar _, .scalar _ => some .scalar
  | .scalar _, .vector _ x => some (.vector x)
  | .vector _ x, .scalar _ => some (.vector x)
  | .vector _ x1, .vector _ x2 =>
    if x1 = 1 ∨ x2 = 1 then some (.vector (max x1 x2)) else some (.vector (min x1 x2))
  | .matrix _ x1 y1, .matrix _ x2 y2 => some (.matrix (min x1 x2) (min y1 y2))
  | _, _ => none

end RsslVerif.Model.Conv

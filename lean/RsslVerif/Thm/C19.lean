import RsslVerif.Lemmas.Layout
/-!
# C19 — layout-consistency validation is sound

Statements are about `Model.Layout.get` / `checkAll` (the model of `get_type_layout` / `check_layout`,
driven by the op programs regenerated from `/repo` into `Gen.LayoutTables`) and the independent
reference calculators `Spec.Layout.hlslSB` / `Spec.Layout.metal`.

The full-strength statements

* `check_sound  : wf t → checkAll [t] = .ok → Agree t`  (accepted ⇒ same size, same offset of every field)
* `reported_true: wf t → checkAll [t] = .mismatch 0 h m → h.size = size .hlsl t ∧ m.size = size .metal t`

are **false on the pinned tree**; their negations are proved below with concrete witnesses
(`check_sound_refuted`, `reported_true_refuted`) which the correspondence run replays on the real code
(corpus/C19.txt).  What does hold is proved for every type of the stated classes, of any size and depth.
-/
namespace RsslVerif.Thm.C19
open RsslVerif.Gen.LayoutTables RsslVerif.Model.Layout RsslVerif.Spec.Layout RsslVerif.Lemmas.Layout

/-! ## Tie to the source tables -/

/-- `ScalarType::get_size` gives the reference byte sizes on the property's scalar grid, `bool` has no
    layout, and the arms of `get_type_layout` have the kinds the model assumes. -/
theorem tables_pinned :
    (∀ s, sized s = true → scalarSize s = some (bytes s)) ∧ boolHasNoLayout = true ∧
    layerKind .Scalar = .scalar ∧ layerKind .Vector = .vector ∧ layerKind .Struct = .struct ∧
    layerKind .ArraySized = .array ∧ layerKind .Enum = .underlying ∧ layerKind .Modifier = .inner ∧
    layerKind .Matrix = .none ∧ layerKind .ArrayUnsized = .none ∧ layerKind .Object = .none ∧
    layerKind .Void = .none := by
  refine ⟨fun s => by cases s <;> decide, ?_⟩
  decide

/-- `check_layout` looks at exactly the uses the property names: (RW)StructuredBuffer element types and
    the template argument of typed raw-buffer / buffer-address loads and stores. -/
theorem checked_sites :
    checkedObjects = ["StructuredBuffer", "RWStructuredBuffer"] ∧
    checkedIntrinsics = ["ByteAddressBufferLoadT", "RWByteAddressBufferLoadT", "RWByteAddressBufferStore",
      "BufferAddressLoad", "RWBufferAddressLoad", "RWBufferAddressStore"] := by
  decide

/-! ## The full statements are false: witnesses -/

private def f : Ty := .scalar .Float32
private def h : Ty := .scalar .Float16
private def S (l : List Ty) : Ty := .struct (Tys.ofList l)

/-- `{ struct{float2; float}; float }` -/
def witnessNested : Ty := S [S [.vec .Float32 2, f], f]
/-- `{ half; half2; float }` -/
def witnessOffsets : Ty := S [h, .vec .Float16 2, f]
/-- `{ struct{float2; float}[2] }` -/
def witnessArray : Ty := S [.arr (S [.vec .Float32 2, f]) 2]
/-- `{ struct{float2; float}; float; float3 }` -/
def witnessReported : Ty := S [S [.vec .Float32 2, f], f, .vec .Float32 3]

/-- accepted although Metal lays the struct out in 24 bytes and HLSL in 16 (nested tail padding) -/
theorem check_unsound_nested :
    wf witnessNested = true ∧ checkAll [witnessNested] = .ok ∧
    size .hlsl witnessNested = 16 ∧ size .metal witnessNested = 24 := by decide

/-- accepted with equal sizes (12/12) although the second field is at offset 2 under HLSL packing and
    at offset 4 under Metal: sizes are compared, offsets are not -/
theorem check_unsound_offsets :
    wf witnessOffsets = true ∧ checkAll [witnessOffsets] = .ok ∧
    size .hlsl witnessOffsets = size .metal witnessOffsets ∧
    offsets .hlsl (Tys.ofList [h, .vec .Float16 2, f]) 0 = [0, 2, 8] ∧
    offsets .metal (Tys.ofList [h, .vec .Float16 2, f]) 0 = [0, 4, 8] := by decide

/-- accepted although the array stride is 12 under HLSL packing and 16 under Metal -/
theorem check_unsound_array :
    wf witnessArray = true ∧ checkAll [witnessArray] = .ok ∧
    size .hlsl witnessArray = 24 ∧ size .metal witnessArray = 32 := by decide

/-- **negation of the desired `check_sound`** -/
theorem check_sound_refuted : ¬ ∀ t : Ty, wf t = true → checkAll [t] = .ok → Agree t := by
  intro hall
  exact absurd (hall witnessOffsets (by decide) (by decide)) (by decide)

/-- rejected, but the reported Metal size (32) is not the true one (48) -/
theorem reported_true_refuted :
    ¬ ∀ (t : Ty) (lh lm : Layout), wf t = true → checkAll [t] = .mismatch 0 lh lm →
        lh.size = size .hlsl t ∧ lm.size = size .metal t := by
  intro hall
  have := hall witnessReported ⟨28, 4⟩ ⟨32, 16⟩ (by decide) (by decide)
  exact absurd this.2 (by decide)

end RsslVerif.Thm.C19

import RsslVerif.Model.Format
/-!
# C09 model, reading half: `expr_p1 … expr_p15` of `parser/src/parser/expressions.rs`

One fuelled function `parseLvl f k term ts` for "parse at level k" (`k = 0` is `expr_leaf`), one
`cont f k term acc ts` for "what level k does after its first operand `acc` has been read":

* level 1: the postfix loop of `expr_p1` (`++ -- .name [e] (args)`),
* level 2: prefix operators are handled in `parseLvl` itself (`expr_p2_unaryop`), nothing follows,
* levels 3‥12 and 15: `parse_binary_operations` — a left-associative loop whose operator test is the
  generated `parseOpAt` (arms of each `expr_pN::parse_op`, in order, guards included),
* level 13: `p12 [? p<ternMiddleLevel> : p<ternLastLevel>]` (levels read from the source), falling back to the `p12` result when the tail does not parse,
* level 14: `p13 [op p14]`, same fall-back.

`term` is `SymbolTable::terminator`: `Standard` inside parentheses, `Sequence` inside `[...]` and call
arguments (where level 15 does not take commas).

Not modelled (the driver answers `unsupported` where it matters, see notes/C09.md): casts, `sizeof`,
template arguments — in particular the attempt of `expr_p1_call` to read `<…>(` after any operand.
-/
namespace RsslVerif.Model.Parse
open RsslVerif.Gen.FmtTables RsslVerif.Gen.ParseTables RsslVerif.Model.Format

mutual
def parseLvl : Nat → Nat → Terminator → List Tok → Option (Expr × List Tok)
  | 0, _, _, _ => none
  | f + 1, 0, _, ts =>
    match ts with
    | .id n :: rest => some (.id n, rest)
    | .lit n :: rest => some (.lit n, rest)
    | .p .LeftParen :: rest =>
      match parseLvl f 15 parenTerminator rest with
      | some (e, .p .RightParen :: rest') => some (e, rest')
      | _ => none
    | _ => none
  | f + 1, k + 1, term, ts =>
    match (if k + 1 = 2 then (match ts with | t :: rest => (prefixOp t).map (fun op => (op, rest)) | [] => none) else none) with
    | some (op, rest) =>
      match parseLvl f 2 term rest with
      | some (e, r) => some (.un op e, r)
      | none => none
    | none =>
      match parseLvl f k term ts with
      | some (a, r) => cont f (k + 1) term a r
      | none => none
def cont : Nat → Nat → Terminator → Expr → List Tok → Option (Expr × List Tok)
  | 0, _, _, _, _ => none
  | f + 1, k, term, acc, ts =>
    if k = 1 then
      match ts with
      | .p .PlusPlus :: r => cont f 1 term (.un .PostfixIncrement acc) r
      | .p .MinusMinus :: r => cont f 1 term (.un .PostfixDecrement acc) r
      | .p .Period :: .id n :: r => cont f 1 term (.mem acc n) r
      | .p .Period :: _ => none
      | .p .LeftSquareBracket :: r =>
        match parseLvl f 15 subscriptTerminator r with
        | some (i, .p .RightSquareBracket :: r') => cont f 1 term (.sub acc i) r'
        | _ => none
      | .p .LeftParen :: r =>
        match parseArgs f r with
        | some (args, r') => cont f 1 term (.call acc args) r'
        | none => none
      | _ => some (acc, ts)
    else if k = 2 then some (acc, ts)
    else if k = 13 then
      match ts with
      | .p .QuestionMark :: r =>
        match parseLvl f ternMiddleLevel term r with
        | some (a, .p .Colon :: r2) =>
          match parseLvl f ternLastLevel term r2 with
          | some (b, r3) => some (.tern acc a b, r3)
          | none => some (acc, ts)
        | _ => some (acc, ts)
      | _ => some (acc, ts)
    else if k = 14 then
      match parseOpAt 14 term ts with
      | some (op, r) =>
        match parseLvl f 14 term r with
        | some (rhs, r') => some (.bin op acc rhs, r')
        | none => some (acc, ts)
      | none => some (acc, ts)
    else
      match parseOpAt k term ts with
      | some (op, r) =>
        match parseLvl f (k - 1) term r with
        | some (rhs, r') => cont f k term (.bin op acc rhs) r'
        | none => none
      | none => some (acc, ts)
/-- after `(`: the argument list up to and including `)` -/
def parseArgs : Nat → List Tok → Option (Args × List Tok)
  | 0, _ => none
  | f + 1, ts =>
    match ts with
    | .p .RightParen :: r => some (.nil, r)
    | _ => parseArgs1 f ts
/-- a non-empty argument list up to and including `)` -/
def parseArgs1 : Nat → List Tok → Option (Args × List Tok)
  | 0, _ => none
  | f + 1, ts =>
    match parseLvl f 15 callArgTerminator ts with
    | some (e, .p .Comma :: r) =>
      match parseArgs1 f r with
      | some (as, r') => some (.cons e as, r')
      | none => none
    | some (e, .p .RightParen :: r) => some (.cons e .nil, r)
    | _ => none
end

/-- `parse_expression` (terminator `Standard`) on a whole token list, with fuel enough for it -/
def parseAll (term : Terminator) (ts : List Tok) : Option (Expr × List Tok) :=
  parseLvl (20 * ts.length + 40) 15 term ts

end RsslVerif.Model.Parse

import RsslVerif.Spec.Overload
/-! Lemmas about the model of `ImplicitConversion::find` / `get_rank`: panic freedom, what `Exact/Exact`
means on the property's type grid. Core Lean only. -/
namespace RsslVerif.Lemmas.Conv
open RsslVerif.Gen.RankTable RsslVerif.Model.Conv RsslVerif.Model.Overload RsslVerif.Spec.Overload

theorem primaryRank_isSome_of_ne {s d : Scalar} (h : s ≠ d) : ∃ r, primaryRank s d = some r := by
  cases s <;> cases d <;> first | exact absurd rfl h | exact ⟨_, rfl⟩

/-- the `unreachable!()` of the rank table is never reached -/
theorem primaryCast_ok (sl dl : Layer) : ∃ r, primaryCast sl dl = .ok r := by
  unfold primaryCast
  split
  · exact ⟨_, rfl⟩
  · split
    · split
      · split <;> exact ⟨_, rfl⟩
      · exact ⟨_, rfl⟩
    · split
      · rename_i ss ds _ _
        split
        · exact ⟨_, rfl⟩
        · rename_i hne
          obtain ⟨r, hr⟩ := primaryRank_isSome_of_ne hne
          rw [hr]
          exact ⟨_, rfl⟩
      · exact ⟨_, rfl⟩

/-- `ImplicitConversion::find` does not panic -/
theorem find_no_panic (s d : ETy) : ∃ r, find s d = .ok r := by
  unfold find
  split
  · exact ⟨_, rfl⟩
  · simp only []
    split
    · exact ⟨_, rfl⟩
    · obtain ⟨r, hr⟩ := primaryCast_ok s.ty.layer d.ty.layer
      rw [hr]
      cases r with
      | none => exact ⟨_, rfl⟩
      | some pc =>
        simp only []
        split <;> exact ⟨_, rfl⟩

/-- rank of a conversion as a function of the two layers (when the conversion exists) -/
def rankOfLayers (sl dl : Layer) (destLvalue : Bool) : Option Rank :=
  match dimensionCast sl dl destLvalue, primaryCast sl dl with
  | some dc, .ok (some pc) =>
    (vecRankOf dc).map fun v => ⟨match pc with | some p => p.rank | none => .exact, v⟩
  | _, _ => none

theorem findRank_layers {a d : ETy} {r : Rank} (h : findRank a d = .ok (some r)) :
    rankOfLayers a.ty.layer d.ty.layer (decide (d.vt = .lvalue)) = some r := by
  unfold findRank at h
  split at h
  · simp at h
  · simp at h
  · rename_i c hc
    unfold find at hc
    split at hc
    · simp at hc
    · simp only [] at hc
      split at hc
      · simp at hc
      · rename_i dc hdc
        split at hc
        · simp at hc
        · simp at hc
        · rename_i pc hpc
          split at hc
          · simp at hc
          · rename_i mc hmc
            simp only [Except.ok.injEq, Option.some.injEq] at hc
            subst hc
            unfold rankOfLayers
            rw [hdc, hpc]
            simp only [getRank] at h
            cases hv : vecRankOf dc with
            | none => rw [hv] at h; simp at h
            | some v =>
              rw [hv] at h
              simp only [Except.ok.injEq, Option.some.injEq] at h
              show Option.map _ (vecRankOf dc) = some r
              rw [hv, ← h]; rfl

/-! ## `get_rank` panics only for a matrix destination -/

theorem vecRank_vec_scalar (x : Nat) : ∃ v, vecRankOf (some (.vector x, .scalar)) = some v := by
  by_cases hx : x = 1
  · subst hx; exact ⟨_, rfl⟩
  · refine ⟨.contract, ?_⟩
    simp [vecRankOf]
    split <;> simp_all

theorem vecRank_scalar_vec (y : Nat) : ∃ v, vecRankOf (some (.scalar, .vector y)) = some v := by
  by_cases hy : y = 1
  · subst hy; exact ⟨_, rfl⟩
  · refine ⟨.expand, ?_⟩
    simp [vecRankOf]
    split <;> simp_all

theorem vecRank_one_vec (y : Nat) : ∃ v, vecRankOf (some (.vector 1, .vector y)) = some v :=
  ⟨.expand, by simp [vecRankOf]⟩

theorem vecRank_vec_vec (x y : Nat) (h : y < x) : ∃ v, vecRankOf (some (.vector x, .vector y)) = some v := by
  by_cases hx : x = 1
  · subst hx; exact vecRank_one_vec y
  · refine ⟨.contract, ?_⟩
    simp [vecRankOf]
    split <;> simp_all

theorem dimensionCast_rank_ok {sl dl : Layer} {lv : Bool} {dc : Option (Dim × Dim)}
    (h : dimensionCast sl dl lv = some dc) (hd : ∀ s x y, dl ≠ .matrix s x y) :
    ∃ v, vecRankOf dc = some v := by
  unfold dimensionCast at h
  repeat' split at h
  all_goals first
    | (exact absurd rfl (hd _ _ _))
    | (simp only [Option.some.injEq] at h; subst h
       first
         | exact ⟨_, rfl⟩
         | exact vecRank_vec_scalar _
         | exact vecRank_scalar_vec _
         | exact vecRank_one_vec _
         | (apply vecRank_vec_vec; assumption))
    | (simp at h; done)

theorem vecRank_scalar_matrix (x y : Nat) : ∃ v, vecRankOf (some (.scalar, .matrix x y)) = some v :=
  ⟨.expand, by simp [vecRankOf]⟩

/-- since /repo 368a51b (`Some(DimensionCast(Scalar, Matrix(_, _))) => VectorRank::Expand`): every dimension cast
    that `find` can produce has an arm in `get_rank` -/
theorem dimensionCast_rank_total {sl dl : Layer} {lv : Bool} {dc : Option (Dim × Dim)}
    (h : dimensionCast sl dl lv = some dc) : ∃ v, vecRankOf dc = some v := by
  unfold dimensionCast at h
  repeat' split at h
  all_goals first
    | (simp only [Option.some.injEq] at h; subst h
       first
         | exact ⟨_, rfl⟩
         | exact vecRank_vec_scalar _
         | exact vecRank_scalar_vec _
         | exact vecRank_one_vec _
         | exact vecRank_scalar_matrix _ _
         | (apply vecRank_vec_vec; assumption))
    | (simp at h; done)

theorem find_dimCast {a d : ETy} {c : Conversion} (h : find a d = .ok (some c)) :
    dimensionCast a.ty.layer d.ty.layer (decide (d.vt = .lvalue)) = some c.dimCast := by
  unfold find at h
  split at h
  · simp at h
  · simp only [] at h
    split at h
    · simp at h
    · rename_i dc hdc
      split at h
      · simp at h
      · simp at h
      · split at h
        · simp at h
        · simp only [Except.ok.injEq, Option.some.injEq] at h
          rw [hdc, ← h]

def IsMatrix : Layer → Prop
  | .matrix _ _ _ => True
  | _ => False

/-- `find` followed by `get_rank` does not panic unless the destination is a matrix type -/
theorem findRank_no_panic {a d : ETy} (hd : ¬ IsMatrix d.ty.layer) : ∃ r, findRank a d = .ok r := by
  unfold findRank
  obtain ⟨r, hr⟩ := find_no_panic a d
  rw [hr]
  cases r with
  | none => exact ⟨_, rfl⟩
  | some c =>
    simp only []
    have hdc := find_dimCast hr
    obtain ⟨v, hv⟩ := dimensionCast_rank_ok hdc (by
      intro s x y e; rw [e] at hd; exact hd trivial)
    simp only [getRank, hv]
    exact ⟨_, rfl⟩

theorem getRank_of_findRank {a d : ETy} {c : Conversion} (hf : find a d = .ok (some c)) :
    findRank a d = (match getRank c with | .error e => .error e | .ok r => .ok (some r)) := by
  unfold findRank; rw [hf]; rfl

theorem zipRanks_no_panic : ∀ (ps : List Param) (as : List ETy), (∀ p ∈ ps, ¬ IsMatrix p.ty.layer) →
    ∃ r, zipRanks ps as = .ok r
  | [], _, _ => ⟨some [], by simp [zipRanks]⟩
  | _ :: _, [], _ => ⟨some [], by simp [zipRanks]⟩
  | p :: ps, a :: as, h => by
    simp only [zipRanks]
    obtain ⟨r, hr⟩ := find_no_panic a p.ety
    rw [hr]
    cases r with
    | none => exact ⟨_, rfl⟩
    | some c =>
      simp only []
      obtain ⟨r', hr'⟩ := zipRanks_no_panic ps as (fun q hq => h q (List.mem_cons_of_mem _ hq))
      rw [hr']
      cases r' with
      | none => exact ⟨_, rfl⟩
      | some rs =>
        simp only []
        have hp : ¬ IsMatrix p.ety.ty.layer := h p List.mem_cons_self
        obtain ⟨x, hx⟩ := findRank_no_panic (a := a) hp
        rw [getRank_of_findRank hr] at hx
        cases hg : getRank c with
        | error e => rw [hg] at hx; simp at hx
        | ok r => exact ⟨_, rfl⟩

/-- no modelled panic site is reachable when no candidate has a matrix parameter -/
theorem noPanic_of_no_matrix {cands : List Cand} (args : List ETy)
    (h : ∀ c ∈ cands, ∀ p ∈ c.params, ¬ IsMatrix p.ty.layer) : NoPanic cands args := by
  intro c hc
  unfold rankCand
  split
  · obtain ⟨r, hr⟩ := zipRanks_no_panic c.params args (h c hc)
    rw [hr]
    cases r <;> rfl
  · rfl

/-! ## what `Exact/Exact` means -/

theorem rankOfLayers_same (l : Layer) (lv : Bool) : rankOfLayers l l lv = some ⟨.exact, .exact⟩ := by
  simp [rankOfLayers, dimensionCast, primaryCast, vecRankOf]

/-- a conversion between types with the same layer (they may differ in modifiers and value category) is ranked
    `Exact/Exact` -/
theorem findRank_same_layer {a d : ETy} (h : a.ty.layer = d.ty.layer) {r : Rank}
    (hr : findRank a d = .ok (some r)) : r = ⟨.exact, .exact⟩ := by
  have := findRank_layers hr
  rw [h, rankOfLayers_same] at this
  exact (Option.some.inj this).symm

def gridScalars : List Scalar := [.bool, .int32, .uInt32, .float16, .float32, .float64]

def gridLayers : List Layer :=
  gridScalars.flatMap fun s => [.scalar s, .vector s 2, .vector s 3, .vector s 4]

def argGridLayers : List Layer := [.scalar .intLiteral, .scalar .floatLiteral] ++ gridLayers

theorem onGrid_mem {l : Layer} (h : OnGrid l) : l ∈ gridLayers := by
  cases l with
  | scalar s => cases s <;> simp_all [OnGrid, gridLayers, gridScalars]
  | vector s n =>
    obtain ⟨h1, h2, h3, h4⟩ := h
    have : n = 2 ∨ n = 3 ∨ n = 4 := by omega
    rcases this with rfl | rfl | rfl <;> cases s <;> simp_all [gridLayers, gridScalars]
  | matrix s x y => exact absurd h (by simp [OnGrid])
  | «enum» i => exact absurd h (by simp [OnGrid])
  | other i => exact absurd h (by simp [OnGrid])

theorem argOnGrid_mem {l : Layer} (h : ArgOnGrid l) : l ∈ argGridLayers := by
  cases l with
  | scalar s => cases s <;> simp [argGridLayers, gridLayers, gridScalars]
  | vector s n =>
    obtain ⟨h1, h2, h3, h4⟩ := h
    have : n = 2 ∨ n = 3 ∨ n = 4 := by omega
    rcases this with rfl | rfl | rfl <;> cases s <;> simp_all [argGridLayers, gridLayers, gridScalars]
  | matrix s x y => exact absurd h (by simp [ArgOnGrid])
  | «enum» i => exact absurd h (by simp [ArgOnGrid])
  | other i => exact absurd h (by simp [ArgOnGrid])

/-- finite check over the property's whole grid (26 argument layers × 24 parameter layers × in/out):
    a conversion ranked `Exact/Exact` is a conversion between equal layers -/
theorem exact_grid_check :
    (argGridLayers.all fun sl => gridLayers.all fun dl => [true, false].all fun lv =>
      (rankOfLayers sl dl lv != some ⟨.exact, .exact⟩) || decide (sl = dl)) = true := by
  decide

theorem exact_rank_same_layer_on_grid {a d : ETy} (ha : ArgOnGrid a.ty.layer) (hd : OnGrid d.ty.layer)
    (h : findRank a d = .ok (some ⟨.exact, .exact⟩)) : a.ty.layer = d.ty.layer := by
  have hl := findRank_layers h
  have hc := exact_grid_check
  rw [List.all_eq_true] at hc
  have h1 := hc _ (argOnGrid_mem ha)
  rw [List.all_eq_true] at h1
  have h2 := h1 _ (onGrid_mem hd)
  rw [List.all_eq_true] at h2
  have h3 := h2 (decide (d.vt = .lvalue)) (by cases decide (d.vt = .lvalue) <;> simp)
  rw [hl] at h3
  simpa using h3

/-! ## rank-exact = type-exact on the grid -/

theorem zipRanks_cons {p : Param} {ps : List Param} {a : ETy} {as : List ETy} {rs : List Rank}
    (h : zipRanks (p :: ps) (a :: as) = .ok (some rs)) :
    ∃ r rs', rs = r :: rs' ∧ findRank a p.ety = .ok (some r) ∧ zipRanks ps as = .ok (some rs') := by
  simp only [zipRanks] at h
  split at h
  · simp at h
  · simp at h
  · rename_i c hc
    split at h
    · simp at h
    · simp at h
    · rename_i rs' hrs'
      split at h
      · simp at h
      · rename_i r hr
        simp only [Except.ok.injEq, Option.some.injEq] at h
        refine ⟨r, rs', h.symm, ?_, hrs'⟩
        rw [getRank_of_findRank hc, hr]

theorem rankExact_iff_sameLayers : ∀ (ps : List Param) (as : List ETy) (rs : List Rank),
    zipRanks ps as = .ok (some rs) → as.length ≤ ps.length →
    (∀ p ∈ ps, OnGrid p.ty.layer) → (∀ a ∈ as, ArgOnGrid a.ty.layer) →
    (RankExact rs ↔ SameLayers ps as)
  | [], [], rs, h, _, _, _ => by
    simp only [zipRanks, Except.ok.injEq, Option.some.injEq] at h
    subst h; simp [RankExact, SameLayers]
  | [], _ :: _, _, _, hl, _, _ => by simp at hl
  | _ :: _, [], rs, h, _, _, _ => by
    simp only [zipRanks, Except.ok.injEq, Option.some.injEq] at h
    subst h; simp [RankExact, SameLayers]
  | p :: ps, a :: as, rs, h, hl, hp, ha => by
    obtain ⟨r, rs', rfl, hr, hrest⟩ := zipRanks_cons h
    have ih := rankExact_iff_sameLayers ps as rs' hrest (by simpa using hl)
      (fun q hq => hp q (List.mem_cons_of_mem _ hq)) (fun b hb => ha b (List.mem_cons_of_mem _ hb))
    have hpl : p.ety.ty.layer = p.ty.layer := rfl
    simp only [SameLayers]
    constructor
    · intro hex
      have hr0 : r = ⟨.exact, .exact⟩ := hex r List.mem_cons_self
      rw [hr0] at hr
      have := exact_rank_same_layer_on_grid (a := a) (d := p.ety) (ha a List.mem_cons_self)
        (by rw [hpl]; exact hp p List.mem_cons_self) hr
      exact ⟨by rw [← hpl, this], ih.mp (fun x hx => hex x (List.mem_cons_of_mem _ hx))⟩
    · intro ⟨h1, h2⟩
      have hr0 := findRank_same_layer (a := a) (d := p.ety) (by rw [hpl, h1]) hr
      intro x hx
      rcases List.mem_cons.mp hx with hx | hx
      · rw [hx, hr0]
      · exact ih.mpr h2 x hx

/-- on the property's grid, "no argument needs a numeric or dimension conversion" is
    "the parameter types equal the argument types" -/
theorem exactMatch_iff_typeExact {args : List ETy} {c : Cand}
    (hp : ∀ p ∈ c.params, OnGrid p.ty.layer) (ha : ∀ a ∈ args, ArgOnGrid a.ty.layer) :
    ExactMatch args c ↔ TypeExact args c := by
  unfold ExactMatch TypeExact
  have key : ∀ rs, Viable args c rs → (RankExact rs ↔ SameLayers c.params args) := by
    intro rs hv
    unfold Viable rankCand at hv
    split at hv
    · rename_i hg
      split at hv
      · simp at hv
      · simp at hv
      · rename_i rs' hrs'
        simp only [CandResult.ranked.injEq, true_and] at hv
        subst hv
        exact rankExact_iff_sameLayers c.params args rs' hrs' hg.1 hp ha
    · simp at hv
  constructor
  · rintro ⟨rs, hv, hre⟩
    exact ⟨⟨rs, hv⟩, (key rs hv).mp hre⟩
  · rintro ⟨⟨rs, hv⟩, hs⟩
    exact ⟨rs, hv, (key rs hv).mpr hs⟩

theorem onGrid_not_matrix {l : Layer} (h : OnGrid l) : ¬ IsMatrix l := by
  cases l <;> simp_all [OnGrid, IsMatrix]

/-! ## after /repo 368a51b: no panic at all -/

/-- `find` followed by `get_rank` never panics -/
theorem findRank_total (a d : ETy) : ∃ r, findRank a d = .ok r := by
  unfold findRank
  obtain ⟨r, hr⟩ := find_no_panic a d
  rw [hr]
  cases r with
  | none => exact ⟨_, rfl⟩
  | some c =>
    simp only []
    obtain ⟨v, hv⟩ := dimensionCast_rank_total (find_dimCast hr)
    simp only [getRank, hv]
    exact ⟨_, rfl⟩

theorem zipRanks_total : ∀ (ps : List Param) (as : List ETy), ∃ r, zipRanks ps as = .ok r
  | [], _ => ⟨some [], by simp [zipRanks]⟩
  | _ :: _, [] => ⟨some [], by simp [zipRanks]⟩
  | p :: ps, a :: as => by
    simp only [zipRanks]
    obtain ⟨r, hr⟩ := find_no_panic a p.ety
    rw [hr]
    cases r with
    | none => exact ⟨_, rfl⟩
    | some c =>
      simp only []
      obtain ⟨r', hr'⟩ := zipRanks_total ps as
      rw [hr']
      cases r' with
      | none => exact ⟨_, rfl⟩
      | some rs =>
        simp only []
        obtain ⟨x, hx⟩ := findRank_total a p.ety
        rw [getRank_of_findRank hr] at hx
        cases hg : getRank c with
        | error e => rw [hg] at hx; simp at hx
        | ok r => exact ⟨_, rfl⟩

/-- no modelled panic site is reachable, for any candidates and arguments -/
theorem noPanic_always (cands : List Cand) (args : List ETy) : NoPanic cands args := by
  intro c _
  unfold rankCand
  split
  · obtain ⟨r, hr⟩ := zipRanks_total c.params args
    rw [hr]
    cases r <;> rfl
  · rfl

end RsslVerif.Lemmas.Conv

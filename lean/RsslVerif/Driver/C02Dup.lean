import RsslVerif.Driver.C02Vec
import RsslVerif.Model.MslDup
/-!
Line-protocol front end of the models of the two operand-repeating arms (`Model.MslDup`).

`C02.dup <source> <entry> ;; <entry> …` with `<entry> = cast <type shape> @ <operand type id> @ <operand>` or
`rem <target> @ <right operand>` (forms of `harness/src/c02/dupcast.rs`): every cast of the module to a struct type from a
value of another type, every `%=` on a floating-point target.  The answer is what the Metal exporter does with the module as far as these
decide: `diagnostic GenerateError(UnsupportedCast)` if `structCastNow` refuses a cast,
`diagnostic GenerateError(ComplexRemainderAssignment)` if `remAssignNow` refuses a target or a right operand (both kinds in one module: the
exporter reports the one it meets first, which the entries do not determine — `unsupported`), else
`casts c1 c2 … ; rem k`: per emitted braced list the number of clauses and the equality classes of its clauses (the operand
itself / the operand converted to element type K), sorted, and the number of targets written twice.  Everything else goes to
`Driver.C02Vec.handle`.
-/
namespace RsslVerif.Driver.C02Dup
open RsslVerif.Model.MslDup RsslVerif.Driver.C01 RsslVerif.Gen.MslGenTables

partial def parseCTy? (x : Sx) : Option CTy :=
  match x.head, x.args with
  | "leaf", [k] => k.atom.toNat?.map .leaf
  | "arr", [e, n] =>
    match parseCTy? e with
    | none => none
    | some t => if n.atom == "none" then some (.arr t none) else n.atom.toNat?.map (fun k => .arr t (some k))
  | "struct", ms => (ms.mapM parseCTy?).map .struct
  | _, _ => none

mutual
partial def parseD? (x : Sx) : Option DExpr :=
  if x.head == "" then none else (parseFields? x.args).map (.node x.head)
partial def parseFields? : List Sx → Option DFields
  | [] => some .nil
  | f :: r =>
    match parseFields? r with
    | none => none
    | some rest =>
      match f with
      | .a "p" => some (.payload 0 rest)
      | .a s =>
        if s.startsWith "o:" then (intrinsicOpNames.idxOf? ((s.drop 2).toString)).map (fun k => .payload k rest) else none
      | _ =>
        match f.head, f.args with
        | "one", [e] => (parseD? e).map (fun d => .one d rest)
        | "many", es => (parseDs? es).map (fun ds => .many ds rest)
        | _, _ => none
partial def parseDs? : List Sx → Option DExprs
  | [] => some .nil
  | e :: r =>
    match parseD? e, parseDs? r with
    | some d, some ds => some (.cons d ds)
    | _, _ => none
end

def insertSortedS (n : String) : List String → List String
  | [] => [n]
  | m :: r => if n ≤ m then n :: m :: r else m :: insertSortedS n r

/-- `<n>:<class of clause 1>.<class of clause 2>…`, classes numbered by first occurrence -/
def showClauses (cs : List Clause) : String :=
  let step := fun (acc : List Clause × List String) (c : Clause) =>
    match acc.1.idxOf? c with
    | some k => (acc.1, acc.2 ++ [toString k])
    | none => (acc.1 ++ [c], acc.2 ++ [toString acc.1.length])
  let r := cs.foldl step ([], [])
  toString cs.length ++ ":" ++ ".".intercalate r.2

inductive Entry where
  | cast (o : CastOutcome)
  | rem (o : RemAssignOutcome)

def parseEntry? (it : String) : Option Entry :=
  if it.startsWith "cast " then
    match ((it.drop 5).toString).splitOn " @ " with
    | [t, k, e] =>
      match parseAll t, k.toNat?, parseAll e with
      | [tx], some inTy, [ex] =>
        match parseCTy? tx, parseD? ex with
        | some ty, some d => some (.cast (structCastNow ty inTy d))
        | _, _ => none
      | _, _, _ => none
    | _ => none
  else if it.startsWith "rem " then
    match ((it.drop 4).toString).splitOn " @ " with
    | [a, b] =>
      match parseAll a, parseAll b with
      | [ax], [bx] =>
        match parseD? ax, parseD? bx with
        | some da, some db => some (.rem (remAssignNow da db))
        | _, _ => none
      | _, _ => none
    | _ => none
  else none

def handleDup (entries : String) : String :=
  let items := if entries == "-" then [] else entries.splitOn " ;; "
  let parsed := items.map parseEntry?
  if parsed.any (·.isNone) then "bad-request" else
  let es := parsed.filterMap id
  if es.any (fun e => match e with | .cast (.panic _) => true | _ => false) then "panic" else
  let castRefused := es.any (fun e => match e with | .cast .unsupportedCast => true | _ => false)
  let remRefused := es.any (fun e => match e with | .rem .refused => true | _ => false)
  if castRefused && remRefused then "unsupported: refusals of two kinds" else
  if castRefused then "diagnostic GenerateError(UnsupportedCast)" else
  if remRefused then "diagnostic GenerateError(ComplexRemainderAssignment)" else
  let lists := es.foldl (fun acc e => match e with | .cast (.clauses cs) => insertSortedS (showClauses cs) acc | _ => acc) []
  let rems := (es.filter (fun e => match e with | .rem .targetTwice => true | _ => false)).length
  "casts" ++ String.join (lists.map (fun n => " " ++ n)) ++ " ; rem " ++ toString rems

def handle (op : String) (args : List String) : String :=
  match op, args with
  | "C02.dup", [_src, casts] => handleDup casts
  | "C02.dup", _ => "skip"
  | _, _ => RsslVerif.Driver.C02Vec.handle op args

end RsslVerif.Driver.C02Dup

/-! Prototype for C11: the #if/#elif/#else/#endif stack automaton of preprocess.rs refines the
    tree-shaped reference selection. -/
inductive CS where | en | di | dout
deriving DecidableEq, Repr

inductive Dir where
  | ifc (b : Bool) | elif (b : Bool) | els | endif | text (n : Nat)
deriving DecidableEq, Repr

inductive Err where | elseNotMatched | endifNotMatched | notFinished
deriving DecidableEq, Repr

def active (st : List CS) : Bool := st.all (· == .en)

def CS.switch (c : CS) (b : Bool) : CS :=
  match c with
  | .en => .dout
  | .di => if b then .en else .di
  | .dout => .dout

abbrev St := List CS × List Nat

def step (s : St) : Dir → Except Err St
  | .ifc b => .ok ((if active s.1 && b then .en else .di) :: s.1, s.2)
  | .elif b => match s.1 with
    | [] => .error .elseNotMatched
    | c :: r => .ok (c.switch b :: r, s.2)
  | .els => match s.1 with
    | [] => .error .elseNotMatched
    | c :: r => .ok (c.switch true :: r, s.2)
  | .endif => match s.1 with
    | [] => .error .endifNotMatched
    | _ :: r => .ok (r, s.2)
  | .text n => .ok (s.1, if active s.1 then s.2 ++ [n] else s.2)

def run (s : St) : List Dir → Except Err St
  | [] => .ok s
  | d :: ds => match step s d with
    | .ok s' => run s' ds
    | .error e => .error e

theorem run_append (s : St) (a b : List Dir) :
    run s (a ++ b) = match run s a with | .ok s' => run s' b | .error e => .error e := by
  induction a generalizing s with
  | nil => simp [run]
  | cons d ds ih =>
    simp only [List.cons_append, run]
    cases step s d with
    | ok s' => simp [ih]
    | error e => simp

mutual
inductive Item where
  | text (n : Nat)
  | cond (b : Bool) (body : Items) (rest : Chain)
inductive Items where
  | nil
  | cons (i : Item) (is : Items)
inductive Chain where
  | endif
  | els (body : Items)
  | elif (b : Bool) (body : Items) (rest : Chain)
end

mutual
def Item.flatten : Item → List Dir
  | .text n => [.text n]
  | .cond b body rest => .ifc b :: (body.flatten ++ rest.flatten)
def Items.flatten : Items → List Dir
  | .nil => []
  | .cons i is => i.flatten ++ is.flatten
def Chain.flatten : Chain → List Dir
  | .endif => [.endif]
  | .els body => .els :: (body.flatten ++ [.endif])
  | .elif b body rest => .elif b :: (body.flatten ++ rest.flatten)
end

mutual
/-- reference semantics: what a C preprocessor keeps -/
def Item.sel (act : Bool) : Item → List Nat
  | .text n => if act then [n] else []
  | .cond b body rest => body.sel (act && b) ++ rest.sel act b
def Items.sel (act : Bool) : Items → List Nat
  | .nil => []
  | .cons i is => i.sel act ++ is.sel act
def Chain.sel (act : Bool) (taken : Bool) : Chain → List Nat
  | .endif => []
  | .els body => body.sel (act && !taken)
  | .elif b body rest => body.sel (act && !taken && b) ++ rest.sel act (taken || b)
end

mutual
theorem Item.sel_false : ∀ i : Item, i.sel false = []
  | .text n => by simp [Item.sel]
  | .cond b body rest => by simp [Item.sel, Items.sel_false body, Chain.sel_false rest]
theorem Items.sel_false : ∀ is : Items, is.sel false = []
  | .nil => by simp [Items.sel]
  | .cons i is => by simp [Items.sel, Item.sel_false i, Items.sel_false is]
theorem Chain.sel_false : ∀ (c : Chain) (t : Bool), c.sel false t = []
  | .endif, _ => by simp [Chain.sel]
  | .els body, _ => by simp [Chain.sel, Items.sel_false body]
  | .elif b body rest, t => by simp [Chain.sel, Items.sel_false body, Chain.sel_false rest]
end

def CS.taken : CS → Bool
  | .di => false
  | _ => true

@[simp] theorem dout_ne_en : (CS.dout == CS.en) = false := by decide
@[simp] theorem di_ne_en : (CS.di == CS.en) = false := by decide
@[simp] theorem en_eq_en : (CS.en == CS.en) = true := by decide

theorem active_cons (c : CS) (r : List CS) : active (c :: r) = ((c == .en) && active r) := by
  simp [active]

mutual
theorem Item.refines : ∀ (i : Item) (st : List CS) (out : List Nat) (rest : List Dir),
    run (st, out) (i.flatten ++ rest) = run (st, out ++ i.sel (active st)) rest
  | .text n, st, out, rest => by
    cases h : active st <;> simp [Item.flatten, Item.sel, run, step, h]
  | .cond b body chain, st, out, rest => by
    simp only [Item.flatten, List.cons_append, run, step, List.append_assoc]
    rw [Items.refines body, Chain.refines chain]
    have hact : active ((if (active st && b) = true then CS.en else CS.di) :: st) = (active st && b) := by
      rw [active_cons]; cases active st <;> cases b <;> simp
    rw [hact]
    simp only [Item.sel, List.append_assoc]
    cases ha : active st
    · simp [Chain.sel_false]
    · cases b <;> simp [CS.taken]
theorem Items.refines : ∀ (is : Items) (st : List CS) (out : List Nat) (rest : List Dir),
    run (st, out) (is.flatten ++ rest) = run (st, out ++ is.sel (active st)) rest
  | .nil, st, out, rest => by simp [Items.flatten, Items.sel]
  | .cons i is, st, out, rest => by
    simp only [Items.flatten, List.append_assoc]
    rw [Item.refines i, Items.refines is]
    simp [Items.sel]
theorem Chain.refines : ∀ (c : Chain) (top : CS) (r : List CS) (out : List Nat) (rest : List Dir),
    run (top :: r, out) (c.flatten ++ rest) = run (r, out ++ c.sel (active r) top.taken) rest
  | .endif, top, r, out, rest => by simp [Chain.flatten, Chain.sel, run, step]
  | .els body, top, r, out, rest => by
    simp only [Chain.flatten, List.cons_append, run, step, List.append_assoc]
    rw [Items.refines body]
    simp only [List.singleton_append, run, step, Chain.sel]
    rw [active_cons]
    cases top <;> cases active r <;> simp [CS.switch, CS.taken, Items.sel_false]
  | .elif b body chain, top, r, out, rest => by
    simp only [Chain.flatten, List.cons_append, run, step, List.append_assoc]
    rw [Items.refines body, Chain.refines chain]
    simp only [Chain.sel, List.append_assoc]
    rw [active_cons]
    cases top <;> cases b <;> cases active r <;>
      simp [CS.switch, CS.taken, Items.sel_false, Chain.sel_false]
end

/-- top-level statement: a whole file of well-nested conditionals -/
theorem file_refines (is : Items) :
    run ([], []) is.flatten = .ok ([], is.sel true) := by
  have := Items.refines is [] [] []
  simpa [run, active] using this

#print axioms file_refines

//! C07: compilation is deterministic.
//!
//! request : C07.repeat \t <dx|vk|vkba|msl> \t <all|nopipeline> \t <gen:<seed> | clash:<seed> | share:<seed> | inline:<seed> | disk:<root>|<entry>
//!                                                                  | diag:<family>:<seed> | src:<hex of the source>>
//! observe : digest of sources + stages + metadata + pipeline state, or of the fully rendered diagnostic
//!           (message, file, line, column, source excerpt, notes) followed by `|<stage>/<error variant>`
//! oracle  : the same input compiled 5x (accepted programs) / 8x (the diagnostics streams) in this process and
//!           once in each of 3 fresh processes (different std RandomState seeds for every HashMap/HashSet
//!           instance) gives byte-identical results.
use crate::compile_util::*;
use crate::progen::*;
use crate::util::*;

#[path = "c07_diag.rs"]
mod diag;

/// One input of the property: files on disk or in memory, and whether the layout check is requested
struct Input {
    disk: Option<(String, String)>,
    files: Vec<(String, String)>,
    layout: bool,
}

fn mem(src: String) -> Input {
    Input { disk: None, files: vec![("main.rssl".to_string(), src)], layout: false }
}

fn source_of(id: &str) -> Option<Input> {
    if let Some(seed) = id.strip_prefix("gen:") {
        let seed: u64 = seed.parse().ok()?;
        let prog = gen_program(&mut Rng::new(seed), &stress_opts());
        Some(mem(render(&prog, &|_| true)))
    } else if let Some(seed) = id.strip_prefix("clash:") {
        let seed: u64 = seed.parse().ok()?;
        Some(mem(clash_program(&mut Rng::new(seed))))
    } else if let Some(seed) = id.strip_prefix("inline:") {
        let seed: u64 = seed.parse().ok()?;
        Some(mem(inline_program(&mut Rng::new(seed))))
    } else if let Some(seed) = id.strip_prefix("share:") {
        let seed: u64 = seed.parse().ok()?;
        Some(mem(share_program(&mut Rng::new(seed))))
    } else if let Some(rest) = id.strip_prefix("disk:") {
        let (root, entry) = rest.split_once('|')?;
        Some(Input { disk: Some((root.to_string(), entry.to_string())), files: Vec::new(), layout: false })
    } else if let Some(rest) = id.strip_prefix("diag:") {
        let (family, seed) = rest.split_once(':')?;
        let seed: u64 = seed.parse().ok()?;
        let p = diag::diag_program(family, &mut Rng::new(seed))?;
        Some(Input { disk: None, files: p.files, layout: p.layout })
    } else if let Some(h) = id.strip_prefix("src:") {
        Some(mem(String::from_utf8(unhex(h)?).ok()?))
    } else {
        None
    }
}

fn is_diag_stream(id: &str) -> bool {
    id.starts_with("diag:") || id.starts_with("src:")
}

/// Programs whose emitted names need generated suffixes in several scopes at once: the same
/// overloaded / target-reserved base names declared in the global scope and in 2-4 namespaces,
/// plus structs and globals sharing those names across scopes.
fn clash_program(rng: &mut Rng) -> String {
    let bases = ["pick", "main", "kernel", "select", "vertex", "fragment", "float16_t", "helper", "constant", "device"];
    let nns = rng.range(2, 4) as usize;
    let nbases = rng.range(1, 3) as usize;
    let mut chosen: Vec<&str> = Vec::new();
    while chosen.len() < nbases {
        let b = *rng.pick(&bases);
        if !chosen.contains(&b) {
            chosen.push(b);
        }
    }
    let mut s = String::from("static int s_total = 0;\n");
    let mut calls: Vec<String> = Vec::new();
    let scopes: Vec<Option<String>> = std::iter::once(None).chain((0..nns).map(|k| Some(format!("ns{}", k)))).collect();
    for scope in &scopes {
        if let Some(ns) = scope {
            s.push_str(&format!("namespace {}\n{{\n", ns));
        }
        for b in &chosen {
            if scope.is_none() && rng.chance(1, 2) {
                continue;
            }
            let overloads = rng.range(1, 3);
            let tys = ["int", "float", "uint"];
            for o in 0..overloads {
                let ty = tys[o as usize];
                s.push_str(&format!("{} {}({} x)\n{{\n    s_total = s_total + 1;\n    return x;\n}}\n", ty, b, ty));
                let arg = match ty { "int" => "1", "float" => "1.0f", _ => "1u" };
                let q = match scope { Some(ns) => format!("{}::", ns), None => String::new() };
                calls.push(format!("    {}{}({});\n", q, b, arg));
            }
        }
        if rng.chance(1, 2) {
            s.push_str("struct Data\n{\n    float value;\n};\n");
        }
        if scope.is_some() {
            s.push_str("}\n");
        }
    }
    s.push_str("[numthreads(1, 1, 1)]\nvoid entry()\n{\n");
    for c in &calls {
        s.push_str(c);
    }
    s.push_str("}\nPipeline P\n{\n    ComputeShader = entry;\n}\n");
    s
}

/// Programs that fix 31dddea made acceptable: in the global scope and in 1-3 namespaces, overloaded functions
/// that share their name with a struct declared before them (and used as a type before the functions hide it) or
/// with a struct / enum / cbuffer declared after them.  Every exporter has to give the same-named symbols of one
/// scope different names, so the generated suffixes must not follow the order of a hash container.
fn share_program(rng: &mut Rng) -> String {
    let bases = ["Item", "pick", "main", "Light", "Widget", "vertex", "kernel", "Data", "constant", "helper"];
    let nns = rng.range(1, 3) as usize;
    let mut s = String::from("static int s_total = 0;\n");
    let mut calls: Vec<String> = Vec::new();
    let scopes: Vec<Option<String>> = std::iter::once(None).chain((0..nns).map(|k| Some(format!("ns{}", k)))).collect();
    for scope in &scopes {
        if let Some(ns) = scope {
            s.push_str(&format!("namespace {}\n{{\n", ns));
        }
        let q = match scope { Some(ns) => format!("{}::", ns), None => String::new() };
        let tag = match scope { Some(ns) => ns.clone(), None => "g".to_string() };
        let nbases = rng.range(1, 3) as usize;
        let mut chosen: Vec<&str> = Vec::new();
        while chosen.len() < nbases {
            let b = *rng.pick(&bases);
            if !chosen.contains(&b) {
                chosen.push(b);
            }
        }
        for b in &chosen {
            let before = rng.chance(1, 3);
            if before {
                // the type is declared and used first; the functions hide it afterwards
                s.push_str(&format!("struct {}\n{{\n    float value;\n}};\nfloat read_{}_{}({} p)\n{{\n    return p.value;\n}}\nstatic {} held_{}_{};\n", b, tag, b, b, b, tag, b));
                calls.push(format!("    {}read_{}_{}({}held_{}_{});\n", q, tag, b, q, tag, b));
            }
            let overloads = rng.range(1, 3);
            let tys = ["int", "float", "uint"];
            for o in 0..overloads {
                let ty = tys[o as usize];
                s.push_str(&format!("{} {}({} x)\n{{\n    s_total = s_total + 1;\n    return x;\n}}\n", ty, b, ty));
                let arg = match ty { "int" => "(int)1", "float" => "1.0f", _ => "1u" };
                calls.push(format!("    {}{}({});\n", q, b, arg));
            }
            if !before {
                match rng.below(3) {
                    0 => s.push_str(&format!("struct {}\n{{\n    float value;\n}};\n", b)),
                    1 => {
                        s.push_str(&format!("enum {}\n{{\n    {}_{}_First,\n    {}_{}_Second\n}};\n", b, tag, b, tag, b));
                        calls.push(format!("    s_total = s_total + (int){}{}_{}_Second;\n", q, tag, b));
                    }
                    _ => {
                        s.push_str(&format!("cbuffer {}\n{{\n    float4 member_{}_{};\n}};\n", b, tag, b));
                        calls.push(format!("    s_total = s_total + (int){}member_{}_{}.x;\n", q, tag, b));
                    }
                }
            }
        }
        if scope.is_some() {
            s.push_str("}\n");
        }
    }
    s.push_str("[numthreads(1, 1, 1)]\nvoid entry()\n{\n");
    for c in &calls {
        s.push_str(c);
    }
    s.push_str("}\nPipeline P\n{\n    ComputeShader = entry;\n}\n");
    s
}

/// Programs for the one hash walk of the binding allocator (`assign_api_bindings`: `for (set, size) in inline_size`,
/// then `inline_constant_buffers.sort()`): BufferAddress / RWBufferAddress globals in 2-4 bind groups that all hold
/// the same number of ordinary resources, so the inline descriptor blocks of the groups tie on their api location
/// and only the set index of the derived `Ord` separates them (seed C07-2 sorts by location alone).
fn inline_program(rng: &mut Rng) -> String {
    let groups = rng.range(2, 4) as usize;
    let ordinary = rng.below(3) as usize;
    let by_register = rng.chance(1, 2);
    let mut decls: Vec<String> = Vec::new();
    let mut uses: Vec<String> = Vec::new();
    for g in 0..groups {
        for o in 0..ordinary {
            let name = format!("g_tex_{}_{}", g, o);
            if by_register {
                decls.push(format!("Texture2D<float4> {} : register(t{}, space{});\n", name, o, g));
            } else {
                decls.push(format!("[[rssl::bind_group({})]] Texture2D<float4> {};\n", g, name));
            }
            uses.push(format!("    {};\n", name));
        }
        let addrs = rng.range(1, 2) as usize;
        for a in 0..addrs {
            let name = format!("g_addr_{}_{}", g, a);
            let ty = if rng.chance(1, 3) { "RWBufferAddress" } else { "BufferAddress" };
            if by_register {
                let class = if ty == "BufferAddress" { "t" } else { "u" };
                decls.push(format!("const {} {} : register({}{}, space{});\n", ty, name, class, ordinary + a, g));
            } else {
                decls.push(format!("[[rssl::bind_group({})]] {} {};\n", g, ty, name));
            }
            uses.push(format!("    s_sum = s_sum + {}.Load<uint>(0);\n", name));
        }
    }
    shuffle_lines(rng, &mut decls);
    let mut s = String::from("static uint s_sum = 0;\n");
    for d in &decls {
        s.push_str(d);
    }
    s.push_str("[numthreads(1, 1, 1)]\nvoid entry()\n{\n");
    for u in &uses {
        s.push_str(u);
    }
    s.push_str(&format!("}}\nPipeline P\n{{\n    ComputeShader = entry;\n    DefaultBindGroup = {};\n}}\n", groups));
    s
}

fn shuffle_lines(rng: &mut Rng, v: &mut [String]) {
    for i in (1..v.len()).rev() {
        let j = rng.below(i as u64 + 1) as usize;
        v.swap(i, j);
    }
}

fn stress_opts() -> GenOpts {
    GenOpts { max_resources: 10, max_helpers: 6, max_pipes: 3, allow_mesh: true, share_entries: true }
}

fn compile_input(input: &Input, tgt: Tgt, mode: &Mode) -> CompileOutcome {
    match &input.disk {
        Some((root, entry)) => compile_disk(root, entry, tgt, mode.clone()),
        None => compile(&Job {
            entry: "main.rssl",
            files: &input.files,
            defines: &[],
            target: tgt,
            mode: mode.clone(),
            validate_layout: input.layout,
        }),
    }
}

fn compile_id(id: &str, tgt: Tgt, mode: &Mode) -> Option<CompileOutcome> {
    Some(compile_input(&source_of(id)?, tgt, mode))
}

/// Name of the enum variant at the head of a Debug rendering
fn variant_of(debug: &str) -> String {
    debug.chars().take_while(|c| c.is_ascii_alphanumeric() || *c == '_').collect()
}

/// Which stage rejects the input and with which error variant (statistics only: the oracle compares the
/// rendered text of `rssl::compile`)
fn classify(input: &Input, tgt: Tgt, rendered: &str) -> String {
    if input.disk.is_some() {
        return "disk/?".into();
    }
    let files = input.files.clone();
    let layout = input.layout;
    let rendered = rendered.to_string();
    guard(move || {
        let t_hlsl = if tgt == Tgt::Msl { "0" } else { "1" };
        let t_msl = if tgt == Tgt::Msl { "1" } else { "0" };
        let defines = [("__HLSL_VERSION", "2021"), ("RSSL_TARGET_HLSL", t_hlsl), ("RSSL_TARGET_MSL", t_msl)];
        let mut sm = rssl::text::SourceManager::new();
        let mut inc = MemFiles(files);
        let tokens = match rssl::preprocess::preprocess("main.rssl", &mut sm, &mut inc, &defines) {
            Ok(t) => t,
            Err(e) => {
                let d = format!("{:?}", e);
                if d.starts_with("LexerError(") {
                    // LexerError(LexerError { reason: <variant>, location: .. })
                    let inner = d.split("reason: ").nth(1).unwrap_or("?");
                    return format!("lexer/{}", variant_of(inner));
                }
                return format!("preprocess/{}", variant_of(&d));
            }
        };
        let tokens = rssl::preprocess::prepare_tokens(&tokens);
        let ast = match rssl::parser::parse(&tokens) {
            Ok(a) => a,
            Err(e) => return format!("parser/{}", variant_of(&format!("{:?}", e.0))),
        };
        let ir = match rssl::typer::type_check(&ast) {
            Ok(ir) => ir,
            Err(e) => return format!("typer/{}", variant_of(&format!("{:?}", e.0))),
        };
        if layout && rssl::ir::layout_checker::check_layout(&ir).is_err() {
            return format!("layout/{}", if rendered.contains("unknown size") { "UnknownLayout" } else { "MismatchedLayout" });
        }
        // exporter / driver errors: the message itself names the kind
        let first = rendered.lines().next().unwrap_or("");
        let msg = first.rsplit("error: ").next().unwrap_or(first);
        let shape: String = msg.chars().map(|c| if c.is_ascii_digit() { 'N' } else { c }).take(60).collect();
        format!("export-{}/{}", tgt.name(), shape)
    })
    .unwrap_or_else(|p| format!("classifier-panic/{}", p))
}

fn show(o: &CompileOutcome) -> String {
    match o {
        CompileOutcome::Err(e) => clip(e, 900),
        other => other.digest(),
    }
}

fn clip(t: &str, n: usize) -> String {
    if t.chars().count() > n {
        format!("{}...", t.chars().take(n).collect::<String>())
    } else {
        t.to_string()
    }
}

/// inverse of util::one_line
fn unescape(s: &str) -> String {
    let mut out = String::new();
    let mut it = s.chars();
    while let Some(c) = it.next() {
        if c == '\\' {
            match it.next() {
                Some('n') => out.push('\n'),
                Some('t') => out.push('\t'),
                Some('r') => out.push('\r'),
                Some('\\') => out.push('\\'),
                Some(o) => {
                    out.push('\\');
                    out.push(o);
                }
                None => out.push('\\'),
            }
        } else {
            out.push(c);
        }
    }
    out
}

/// the text of a generated rejected program, for the failure report
fn program_text(id: &str) -> String {
    if !is_diag_stream(id) {
        return String::new();
    }
    match source_of(id) {
        Some(input) => {
            let mut t = String::from("; program:");
            for (n, f) in &input.files {
                t.push_str(&format!(" [{}] <<{}>>", n, clip(f, 1500)));
            }
            t
        }
        None => String::new(),
    }
}

fn parse_req(line: &str) -> Option<(Tgt, Mode, String)> {
    let f: Vec<&str> = line.split('\t').collect();
    if f.len() != 4 || f[0] != "C07.repeat" {
        return None;
    }
    let mode = match f[2] {
        "all" => Mode::All,
        "nopipeline" => Mode::NoPipeline,
        _ => return None,
    };
    Some((Tgt::parse(f[1])?, mode, f[3].to_string()))
}

/// child mode: print one digest per request and nothing else
fn child(lines: &[String]) {
    for line in lines {
        if let Some((t, m, id)) = parse_req(line) {
            match compile_id(&id, t, &m) {
                Some(o) => println!("DIGEST\t{}\t{}", o.digest(), one_line(&show(&o))),
                None => println!("DIGEST\tbad\tbad"),
            }
        }
    }
}

fn run_requests(lines: &[String], out: &mut Out, hist: &mut Hist) {
    let dump = std::env::var("C07_DUMP").is_ok();
    // in-process repeats
    let mut first: Vec<String> = Vec::new();
    let mut obs: Vec<String> = Vec::new();
    let mut shows: Vec<String> = Vec::new();
    let mut fails: Vec<Option<String>> = Vec::new();
    for line in lines {
        let (Some((t, m, id)), true) = (parse_req(line), true) else {
            first.push("bad".into());
            shows.push("bad".into());
            obs.push("bad".into());
            fails.push(Some("bad request".into()));
            continue;
        };
        let Some(input) = source_of(&id) else {
            first.push("bad".into());
            shows.push("bad".into());
            obs.push("bad".into());
            fails.push(Some("bad request".into()));
            continue;
        };
        let a = compile_input(&input, t, &m);
        let d0 = a.digest();
        // a panic is a C08 matter; for C07 it only has to be the same panic every time
        let mut fail = None;
        let repeats = if is_diag_stream(&id) { 8 } else { 5 };
        for k in 1..repeats {
            let b = compile_input(&input, t, &m);
            let d = b.digest();
            if d != d0 && fail.is_none() {
                fail = Some(match (&a, &b) {
                    (CompileOutcome::Err(_), _) | (_, CompileOutcome::Err(_)) => format!(
                        "run {} in the same process gives another diagnostic: <<{}>> vs first run <<{}>>{}",
                        k,
                        show(&b),
                        show(&a),
                        program_text(&id)
                    ),
                    _ => format!("run {} in the same process differs: {} vs {}", k, d, d0),
                });
            }
        }
        hist.add(&format!("target={}", t.name()));
        hist.add(if d0.starts_with("ok") { "outcome=ok" } else if d0.starts_with("err") { "outcome=err" } else { "outcome=panic" });
        hist.add(if id.starts_with("gen:") {
            "source=generated"
        } else if id.starts_with("clash:") {
            "source=name-clash"
        } else if id.starts_with("share:") {
            "source=name-shared-in-scope"
        } else if id.starts_with("inline:") {
            "source=inline-descriptor-groups"
        } else if id.starts_with("diag:") {
            "source=diagnostics-generator"
        } else if id.starts_with("src:") {
            "source=repo-rejected-tests"
        } else {
            "source=repo-corpus"
        });
        let mut o = d0.clone();
        if let CompileOutcome::Err(e) = &a {
            let class = classify(&input, t, e);
            hist.add(&format!("diag={}", class));
            o = format!("{}|{}", d0, class);
        }
        if let Some(rest) = id.strip_prefix("diag:") {
            let family = rest.split(':').next().unwrap_or("?");
            hist.add(&format!("family={}:{}", family, if d0.starts_with("ok") { "accepted" } else if d0.starts_with("err") { "rejected" } else { "panic" }));
        }
        if dump {
            for (n, f) in &input.files {
                eprintln!("---- {} [{}]\n{}", n, line, f);
            }
            eprintln!("==== {}\n{}", o, match &a {
                CompileOutcome::Err(e) => e.clone(),
                CompileOutcome::Ok(ps) => ps.iter().map(|p| format!("{}\nstages: {:?}\nmeta: {}\nstate: {}", String::from_utf8_lossy(&p.data), p.stages, p.metadata, p.state)).collect::<Vec<_>>().join("\n-- next pipeline --\n"),
                other => other.digest(),
            });
        }
        first.push(d0);
        shows.push(show(&a));
        obs.push(o);
        fails.push(fail);
    }
    // fresh processes
    let tmp = std::env::temp_dir().join(format!("c07-req-{}.txt", std::process::id()));
    std::fs::write(&tmp, lines.join("\n") + "\n").unwrap();
    let exe = std::env::current_exe().unwrap();
    for proc_no in 0..3 {
        let output = std::process::Command::new(&exe)
            .args(["c07", "--requests", tmp.to_str().unwrap(), "child"])
            .output();
        let Ok(output) = output else {
            for f in fails.iter_mut() {
                if f.is_none() {
                    *f = Some("could not start a child process".into());
                }
            }
            break;
        };
        let text = String::from_utf8_lossy(&output.stdout);
        let digests: Vec<(&str, &str)> = text
            .lines()
            .filter_map(|l| l.strip_prefix("DIGEST\t"))
            .map(|l| l.split_once('\t').unwrap_or((l, "")))
            .collect();
        for (i, d0) in first.iter().enumerate() {
            let (d, shown) = digests.get(i).copied().unwrap_or(("missing", ""));
            if d != d0 && fails[i].is_none() {
                fails[i] = Some(if d.starts_with("err") || d0.starts_with("err") {
                    let id = parse_req(&lines[i]).map(|r| r.2).unwrap_or_default();
                    format!(
                        "fresh process {} gives another diagnostic: <<{}>> vs this process <<{}>>{}",
                        proc_no,
                        unescape(shown),
                        shows[i],
                        program_text(&id)
                    )
                } else {
                    format!("fresh process {} differs: {} vs {}", proc_no, d, d0)
                });
            }
        }
    }
    let _ = std::fs::remove_file(&tmp);
    for ((line, o), fail) in lines.iter().zip(&obs).zip(&fails) {
        let oracle = match fail {
            None => "ok".to_string(),
            Some(f) => format!("FAIL:{}", f),
        };
        out.case(line, o, &oracle);
    }
}

pub fn run(args: &Args, out: &mut Out) {
    let mut hist = Hist::default();
    if let Some(lines) = args.request_lines() {
        if args.extra.iter().any(|e| e == "child") {
            child(&lines);
            return;
        }
        run_requests(&lines, out, &mut hist);
        out.stat(&format!("{{\"mode\":\"replay\",\"hist\":{}}}", hist.json()));
        return;
    }
    let repo = std::env::var("VERIF_REPO").unwrap_or_else(|_| "/repo".into());
    let mut lines = Vec::new();
    let mut rng = Rng::new(args.seed);
    let n = args.n.unwrap_or(if args.thorough() { 1500 } else { 120 });
    for _ in 0..n {
        let seed = rng.next() >> 16;
        let probe = gen_program(&mut Rng::new(seed), &stress_opts());
        let mode = if probe.pipes.is_empty() { "nopipeline" } else { "all" };
        for t in ALL_TARGETS {
            lines.push(format!("C07.repeat\t{}\t{}\tgen:{}", t.name(), mode, seed));
        }
    }
    for _ in 0..n / 2 {
        let seed = rng.next() >> 16;
        for t in [Tgt::Dx, Tgt::Msl] {
            lines.push(format!("C07.repeat\t{}\tall\tclash:{}", t.name(), seed));
        }
    }
    // diagnostics stream: every family of rejected programs, several seeds each
    let per_family = args.n.map(|n| (n / 15).max(1)).unwrap_or(if args.thorough() { 60 } else { 16 });
    for (fi, family) in diag::FAMILIES.iter().enumerate() {
        for j in 0..per_family {
            let seed = rng.next() >> 16;
            let every_target = family.starts_with("export") || family.starts_with("layout");
            for (ti, t) in ALL_TARGETS.iter().enumerate() {
                if every_target || ti == (fi + j as usize) % 4 {
                    lines.push(format!("C07.repeat\t{}\tall\tdiag:{}:{}", t.name(), family, seed));
                }
            }
        }
    }
    // functions sharing their name with a struct / enum / cbuffer of the same scope (accepted since fix 31dddea)
    for _ in 0..n / 2 {
        let seed = rng.next() >> 16;
        for t in ALL_TARGETS {
            lines.push(format!("C07.repeat\t{}\tall\tshare:{}", t.name(), seed));
        }
    }
    // buffer addresses in several bind groups with tied inline descriptor slots (the hash walk of assign_api_bindings)
    for _ in 0..n / 4 {
        let seed = rng.next() >> 16;
        for t in [Tgt::VkBa, Tgt::Vk] {
            lines.push(format!("C07.repeat\t{}\tall\tinline:{}", t.name(), seed));
        }
    }
    // the repository's own rejected inputs (first argument of check_fail / check_fail_message in the typer tests)
    let mut rejected = 0;
    for rel in ["typer/tests/type_check_tests.rs", "typer/tests/evaluator_tests.rs"] {
        if let Ok(text) = std::fs::read_to_string(format!("{}/{}", repo, rel)) {
            for (i, src) in diag::extract_rejected_inputs(&text, &["check_fail(", "check_fail_message("]).iter().enumerate() {
                rejected += 1;
                let t = if args.thorough() { ALL_TARGETS[i % 4] } else { Tgt::Dx };
                lines.push(format!("C07.repeat\t{}\tnopipeline\tsrc:{}", t.name(), hex(src.as_bytes())));
            }
        }
    }
    hist.0.insert("repo-rejected-inputs".into(), rejected);
    // the repository's own inputs
    let corpus = repo_corpus(&repo);
    let take = if args.thorough() { corpus.len() } else { corpus.len().min(24) };
    let step = (corpus.len() / take.max(1)).max(1);
    for (i, (root, entry)) in corpus.iter().enumerate() {
        if i % step != 0 {
            continue;
        }
        let mode = if entry.ends_with(".rssl") { "all" } else { "nopipeline" };
        for t in [Tgt::Dx, Tgt::Msl] {
            lines.push(format!("C07.repeat\t{}\t{}\tdisk:{}|{}", t.name(), mode, root, entry));
        }
    }
    run_requests(&lines, out, &mut hist);
    out.stat(&format!(
        "{{\"requests\":{},\"repeats_in_process\":\"5 (accepted-program streams) / 8 (diagnostics streams)\",\"fresh_processes\":3,\"diag_families\":{},\"hist\":{}}}",
        lines.len(),
        diag::FAMILIES.len(),
        hist.json()
    ));
}

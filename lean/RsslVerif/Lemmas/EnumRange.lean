import RsslVerif.Model.EnumRange
/-!
# Order independence of the loops of `Context::end_enum` (helper lemmas for C07)

`foldl_perm_of_invariant` is the general principle behind every "commutative fold" classification: a loop over
a hash ordered collection gives the same final state for every iteration order when any two *iterations* commute
on every state the loop can be in (an invariant of the loop), and the invariant is preserved by each iteration.
-/
namespace RsslVerif.Lemmas.EnumRange
open RsslVerif.Model.EnumRange

/-- A fold whose steps commute on the states satisfying a loop invariant does not depend on the order. -/
theorem foldl_perm_of_invariant {α β : Type} {f : β → α → β} {Inv : β → Prop} {l₁ l₂ : List α}
    (p : l₁.Perm l₂)
    (keep : ∀ x ∈ l₁, ∀ z, Inv z → Inv (f z x))
    (comm : ∀ x ∈ l₁, ∀ y ∈ l₁, ∀ z, Inv z → f (f z x) y = f (f z y) x)
    (init : β) (h0 : Inv init) : l₁.foldl f init = l₂.foldl f init := by
  induction p using List.Perm.recOnSwap' generalizing init with
  | nil => rfl
  | cons x _p IH =>
    simp only [List.foldl]
    apply IH
    · intro a ha z hz; exact keep a (.tail _ ha) z hz
    · intro a ha b hb z hz; exact comm a (.tail _ ha) b (.tail _ hb) z hz
    · exact keep x (.head _) init h0
  | swap' x y _p IH =>
    simp only [List.foldl]
    rw [comm y (.head _) x (.tail _ (.head _)) init h0]
    apply IH
    · intro a ha z hz; exact keep a (.tail _ (.tail _ ha)) z hz
    · intro a ha b hb z hz; exact comm a (.tail _ (.tail _ ha)) b (.tail _ (.tail _ hb)) z hz
    · exact keep y (.head _) _ (keep x (.tail _ (.head _)) init h0)
  | trans p₁ _p₂ IH₁ IH₂ =>
    refine (IH₁ keep comm init h0).trans (IH₂ ?_ ?_ init h0)
    · intro a ha z hz; exact keep a (p₁.symm.subset ha) z hz
    · intro a ha b hb z hz; exact comm a (p₁.symm.subset ha) b (p₁.symm.subset hb) z hz

/-- the fold function of the range loop: `min`/`max` steps commute -/
theorem Range.step_comm (r : Range) (a b : Int) : (r.step a).step b = (r.step b).step a := by
  simp only [Range.step]
  congr 1 <;> omega

theorem gatherStep_comm (x y : Entry) (hx : x.value.widen?.isSome) (hy : y.value.widen?.isSome)
    (z : Except Failure Range) : gatherStep (gatherStep z x) y = gatherStep (gatherStep z y) x := by
  obtain ⟨vx, ex⟩ := Option.isSome_iff_exists.1 hx
  obtain ⟨vy, ey⟩ := Option.isSome_iff_exists.1 hy
  cases z with
  | error f => simp [gatherStep]
  | ok r => simp [gatherStep, ex, ey, Range.step_comm]

/-- loop 1 is order independent when every value is integer-like (the typer invariant: `EnumValueMustBeInteger`
    is raised before a value is registered) -/
theorem gather_perm {l₁ l₂ : List Entry} (p : l₁.Perm l₂)
    (hint : ∀ e ∈ l₁, e.value.widen?.isSome) : gather l₁ = gather l₂ := by
  unfold gather
  exact p.foldl_eq' (fun x hx y hy z => gatherStep_comm x y (hint x hx) (hint y hy) z) _

/-- without the invariant: whether loop 1 panics does not depend on the order (the panic *message* names the
    first offending constant met and can differ: see `Thm.C07.gather_panic_message_order_dependent`) -/
theorem gather_ok_iff (l : List Entry) :
    (∃ r, gather l = .ok r) ↔ ∀ e ∈ l, e.value.widen?.isSome := by
  unfold gather
  suffices h : ∀ (st : Except Failure Range),
      (∃ r, l.foldl gatherStep st = .ok r) ↔ ((∃ r, st = .ok r) ∧ ∀ e ∈ l, e.value.widen?.isSome) by
    simpa using h (.ok ⟨0, 0⟩)
  induction l with
  | nil => intro st; simp
  | cons e es ih =>
    intro st
    simp only [List.foldl_cons, ih, List.mem_cons, forall_eq_or_imp]
    cases st with
    | error f => simp [gatherStep]
    | ok r =>
      cases hv : e.value.widen? with
      | none => simp [gatherStep, hv]
      | some v => simp [gatherStep, hv]

theorem upd_comm {κ ν : Type} [DecidableEq κ] (m : κ → Option ν) {k₁ k₂ : κ} (h : k₁ ≠ k₂) (v₁ v₂ : ν) :
    upd (upd m k₁ v₁) k₂ v₂ = upd (upd m k₂ v₂) k₁ v₁ := by
  funext k
  simp only [upd]
  by_cases h1 : k = k₁ <;> by_cases h2 : k = k₂ <;> simp_all

theorem convertStep_comm (s : Scalar) (x y : Entry) (hx : x.value.widen?.isSome) (hy : y.value.widen?.isSome)
    (hid : x.id = y.id → x = y) (z : Except Failure (Nat → Option Const)) :
    convertStep s (convertStep s z x) y = convertStep s (convertStep s z y) x := by
  by_cases hxy : x = y
  · subst hxy; rfl
  · have hne : x.id ≠ y.id := fun h => hxy (hid h)
    obtain ⟨vx, ex⟩ := Option.isSome_iff_exists.1 hx
    obtain ⟨vy, ey⟩ := Option.isSome_iff_exists.1 hy
    cases z with
    | error f => simp [convertStep]
    | ok reg => simp [convertStep, ex, ey, upd_comm reg hne]

/-- loop 3: the registry after the conversion loop does not depend on the order (ids are distinct) -/
theorem convert_perm (s : Scalar) {l₁ l₂ : List Entry} (p : l₁.Perm l₂)
    (hint : ∀ e ∈ l₁, e.value.widen?.isSome)
    (hid : ∀ x ∈ l₁, ∀ y ∈ l₁, x.id = y.id → x = y) (reg : Nat → Option Const) :
    l₁.foldl (convertStep s) (.ok reg) = l₂.foldl (convertStep s) (.ok reg) :=
  p.foldl_eq' (fun x hx y hy z => convertStep_comm s x y (hint x hx) (hint y hy) (hid x hx y hy) z) _

/-- one iteration of the promotion loop reads nothing of its element but the name -/
theorem promoteStep_congr (x y : Entry) (h : x.name = y.name) (z : Except Failure (Scope × Nat)) :
    promoteStep z x = promoteStep z y := by
  cases z with
  | error f => rfl
  | ok st => obtain ⟨parent, n⟩ := st; simp only [promoteStep, h]

/-- two iterations of the promotion loop commute on EVERY state: under different names they touch different
    entries of the parent scope (and a missing entry panics with the constant `unwrap` message whichever comes
    first); under the same name they are the same iteration.  No invariant is needed since fix `fe5dd8d` removed
    `assert_eq!(symbols.len(), 1)`: the vector of a name may hold other symbols (a constant buffer block). -/
theorem promoteStep_comm (x y : Entry) (z : Except Failure (Scope × Nat)) :
    promoteStep (promoteStep z x) y = promoteStep (promoteStep z y) x := by
  by_cases hne : x.name = y.name
  · rw [promoteStep_congr y x hne.symm, promoteStep_congr y x hne.symm]
  · cases z with
    | error f => simp [promoteStep]
    | ok st =>
      obtain ⟨parent, n⟩ := st
      have e1 : ∀ v, upd parent x.name v y.name = parent y.name := by
        intro v; simp [upd, Ne.symm hne]
      have e2 : ∀ v, upd parent y.name v x.name = parent x.name := by
        intro v; simp [upd, hne]
      cases hx : parent x.name <;> cases hy : parent y.name <;>
        simp only [promoteStep, hx, hy, e1, e2]
      rw [upd_comm parent hne, Nat.add_right_comm]

/-- loop 4: parent scope and replacement count (or the constant `unwrap` panic) after the promotion loop do not
    depend on the order — for EVERY parent scope: a name may map to a vector of any length (enum value next to a
    constant buffer block of the same name, accepted since `fe5dd8d`), or to nothing -/
theorem promote_perm {l₁ l₂ : List Entry} (p : l₁.Perm l₂) (st : Except Failure (Scope × Nat)) :
    l₁.foldl promoteStep st = l₂.foldl promoteStep st :=
  p.foldl_eq' (fun x _ y _ z => promoteStep_comm x y z) _

/-- loop invariant of the promotion loop: no panic so far and every name of the enum maps to SOME symbol vector
    in the parent scope (what `register_enum_value` leaves; the length is free since `fe5dd8d`) -/
def PromoteInv (l : List Entry) (st : Except Failure (Scope × Nat)) : Prop :=
  ∃ parent n, st = .ok (parent, n) ∧ ∀ e ∈ l, ∃ syms, parent e.name = some syms

theorem promoteStep_keep (l : List Entry) (x : Entry) (hx : x ∈ l) (z : Except Failure (Scope × Nat))
    (hz : PromoteInv l z) : PromoteInv l (promoteStep z x) := by
  obtain ⟨parent, n, rfl, hall⟩ := hz
  obtain ⟨syms, hs⟩ := hall x hx
  refine ⟨upd parent x.name (syms.map Sym.promote), n + (syms.filter Sym.isUntyped).length, ?_, ?_⟩
  · simp [promoteStep, hs]
  · intro e he
    by_cases hn : e.name = x.name
    · exact ⟨syms.map Sym.promote, by simp [upd, hn]⟩
    · obtain ⟨syms', hs'⟩ := hall e he
      exact ⟨syms', by simp [upd, hn, hs']⟩

/-- the promotion loop does not panic when every name has an entry in the parent scope (of any length) -/
theorem promote_ok {l : List Entry} (parent : Scope) (hparent : ∀ e ∈ l, ∃ syms, parent e.name = some syms) :
    ∃ parent' n, l.foldl promoteStep (.ok (parent, 0)) = .ok (parent', n) := by
  suffices h : ∀ (l' : List Entry), (∀ e ∈ l', e ∈ l) → ∀ st, PromoteInv l st → PromoteInv l (l'.foldl promoteStep st) by
    obtain ⟨p', n, hp, _⟩ := h l (fun _ h => h) _ ⟨parent, 0, rfl, hparent⟩
    exact ⟨p', n, hp⟩
  intro l'
  induction l' with
  | nil => intro _ st hst; exact hst
  | cons a as ih =>
    intro hsub st hst
    simp only [List.foldl_cons]
    exact ih (fun e he => hsub e (.tail _ he)) _ (promoteStep_keep l a (hsub a (.head _)) st hst)

/-- two iterations of the reinsertion loop commute on every state: under different names they fill different
    entries; under one name the second of them panics with the constant message, whichever it is -/
theorem reinsertStep_comm (x y : Entry) (z : Except Failure Scope) :
    reinsertStep (reinsertStep z x) y = reinsertStep (reinsertStep z y) x := by
  cases z with
  | error f => simp [reinsertStep]
  | ok scope =>
    by_cases hne : x.name = y.name
    · cases hx : scope x.name with
      | some v => simp [reinsertStep, hx, ← hne]
      | none => simp [reinsertStep, hx, ← hne, upd]
    · have e1 : ∀ v, upd scope x.name v y.name = scope y.name := by
        intro v; simp [upd, Ne.symm hne]
      have e2 : ∀ v, upd scope y.name v x.name = scope x.name := by
        intro v; simp [upd, hne]
      cases hx : scope x.name <;> cases hy : scope y.name <;>
        simp only [reinsertStep, hx, hy, e1, e2]
      rw [upd_comm scope hne]

/-- loop 5: the re-filled enum scope does not depend on the order; the panic message of a duplicate name is a
    constant, so not even distinct names are needed -/
theorem reinsert_perm {l₁ l₂ : List Entry} (p : l₁.Perm l₂) (scope : Scope) :
    l₁.foldl reinsertStep (.ok scope) = l₂.foldl reinsertStep (.ok scope) :=
  p.foldl_eq' (fun x _ y _ z => reinsertStep_comm x y z) _

end RsslVerif.Lemmas.EnumRange

import RsslVerif.Spec.Meta
/-!
# `Model.FixpointSlots` — the declarations of the second generation, as re-read from the printed annotations

The DirectX exporter prints, for every bound resource, ` : register(<letter><index>[, space<group>])`
(`Model.Meta.regAnnot` / `printReg`, C05).  When that text is compiled again the front end keeps from it only the
bind group: `lang_slot.set` / `lang_binding.set` (`assign_api_bindings`: "Api slots are assigned independent of language
register assignments").  `secondDecl` is the declaration `process_definition` sees in the second generation: same kind,
array length and static-sampler flag (the declaration itself is printed unchanged), bind group = what C05's
character-level reader `Spec.Meta.readAnnot` reads from the printed annotation; `, space0` is never printed, and a
missing space means "no explicit group".  Without a pipeline the default group of the second run is 0.
-/
namespace RsslVerif.Model.FixpointSlots
open RsslVerif.Gen.SlotTables RsslVerif.Gen.MetaTables RsslVerif.Model.Slots RsslVerif.Model.Meta RsslVerif.Spec.Meta

/-- the declaration with another explicit bind group -/
def withSet : Decl → Option Nat → Decl
  | .other, _ => .other
  | .cbuffer _, s => .cbuffer s
  | .global _ ss k l, s => .global s ss k l

/-- the explicit bind group the front end takes from a printed annotation -/
def rereadSet (text : List Char × List Char) : Option Nat :=
  match readAnnot text with
  | some (.reg _ _ s) => if s = 0 then none else some s
  | _ => none

/-- the declaration as the second generation sees it -/
def secondDecl (d : Decl) (ob : Option Binding) : Decl :=
  match regAnnot ob with
  | .ok (some a) => withSet d (rereadSet a.print)
  | _ => withSet d none

def secondDecls : List Decl → List (Option Binding) → List Decl
  | d :: ds, b :: bs => secondDecl d b :: secondDecls ds bs
  | _, _ => []

end RsslVerif.Model.FixpointSlots

import RsslVerif.Model.Elab
import RsslVerif.Driver.Util
/-! Line-protocol front end of the C03 model (`C03.conv`, `C03.prog`, `C03.type`); formats are described in
`harness/src/c03.rs`. -/
namespace RsslVerif.Driver.C03
open RsslVerif.Gen.RankTable RsslVerif.Gen.TypingTables RsslVerif.Model.Conv RsslVerif.Model.Overload
open RsslVerif.Model.IrTyping RsslVerif.Model.Elab RsslVerif.Driver

def modLetters : List (Char × (Modifier → Modifier)) :=
  [('c', fun m => { m with isConst := true }), ('v', fun m => { m with volatile := true }),
   ('r', fun m => { m with rest := m.rest ||| 1 }), ('k', fun m => { m with rest := m.rest ||| 2 }),
   ('u', fun m => { m with rest := m.rest ||| 4 }), ('n', fun m => { m with rest := m.rest ||| 8 })]

def parseMods (s : String) : Option Modifier :=
  if s == "-" then some {} else
  s.toList.foldl (fun acc c => acc.bind fun m => (modLetters.lookup c).map (· m)) (some {})

def showMods (m : Modifier) : String :=
  let s := (if m.isConst then "c" else "") ++ (if m.volatile then "v" else "") ++
    (if m.rest &&& 1 != 0 then "r" else "") ++ (if m.rest &&& 2 != 0 then "k" else "") ++
    (if m.rest &&& 4 != 0 then "u" else "") ++ (if m.rest &&& 8 != 0 then "n" else "")
  if s.isEmpty then "-" else s

def parseLayer (s : String) : Option Layer :=
  match s.splitOn "." with
  | ["s", sc] => (Scalar.ofName? sc).map .scalar
  | ["v", sc, n] => do pure (.vector (← Scalar.ofName? sc) (← n.toNat?))
  | ["m", sc, x, y] => do pure (.matrix (← Scalar.ofName? sc) (← x.toNat?) (← y.toNat?))
  | ["e", i] => i.toNat?.map .enum
  | ["o", i] => i.toNat?.map .other
  | _ => none

def showLayer : Layer → String
  | .scalar s => "s." ++ s.name
  | .vector s n => "v." ++ s.name ++ "." ++ toString n
  | .matrix s x y => "m." ++ s.name ++ "." ++ toString x ++ "." ++ toString y
  | .enum i => "e." ++ toString i
  | .other i => "o." ++ toString i

def parseTy (s : String) : Option Ty :=
  match s.splitOn "/" with
  | [m, l] => do pure ⟨← parseMods m, ← parseLayer l⟩
  | _ => none

def showTy (t : Ty) : String := showMods t.mod ++ "/" ++ showLayer t.layer

def parseETy (s : String) : Option ETy :=
  match s.splitOn "/" with
  | [vt, m, l] => do
    let vt ← match vt with | "L" => some VT.lvalue | "R" => some VT.rvalue | _ => none
    pure ⟨⟨← parseMods m, ← parseLayer l⟩, vt⟩
  | _ => none

def showETy (e : ETy) : String := (match e.vt with | .lvalue => "L" | .rvalue => "R") ++ "/" ++ showTy e.ty

def parseParam (s : String) : Option Param :=
  match s.splitOn "/" with
  | [io, m, l] => do
    let io ← match io with
      | "in" => some InputModifier.in | "out" => some .out | "inout" => some .inOut | _ => none
    pure ⟨⟨← parseMods m, ← parseLayer l⟩, io⟩
  | _ => none

def parseFunc (s : String) : Option FuncSig :=
  match s.splitOn ":" with
  | [name, nd, ret, ps] => do
    let ps ← sequenceOpt ((if ps.isEmpty then [] else ps.splitOn ",").map parseParam)
    pure ⟨← name.toNat?, ps, ← nd.toNat?, ← parseTy ret⟩
  | _ => none

def parseEnv (vars funcs ret : String) : Option Env := do
  let vs ← sequenceOpt ((if vars == "-" then [] else vars.splitOn ",").map parseTy)
  let fs ← sequenceOpt ((if funcs == "-" then [] else funcs.splitOn ";").map parseFunc)
  let r ← if ret == "void" then some none else (parseTy ret).map some
  pure { vars := vs, funcs := fs, ret := r }

def convCell (src dst : ETy) : String :=
  match find src dst with
  | .error _ => "panic"
  | .ok none => "err"
  | .ok (some c) =>
    match targetType c with
    | .error _ => "panic"
    | .ok t => showETy t

/-! ## s-expressions -/

inductive Sx where
  | atom (s : String)
  | list (l : List Sx)
  deriving Inhabited

def tokenize (s : String) : List String :=
  let spaced := (s.replace "(" " ( ").replace ")" " ) "
  (spaced.splitOn " ").filter (· ≠ "")

/-- parses one s-expression from the token list; returns the rest -/
partial def parseSx : List String → Option (Sx × List String)
  | [] => none
  | "(" :: rest =>
    let rec items (acc : List Sx) : List String → Option (List Sx × List String)
      | [] => none
      | ")" :: r => some (acc.reverse, r)
      | ts => match parseSx ts with
        | some (x, r) => items (x :: acc) r
        | none => none
    (items [] rest).map fun (l, r) => (.list l, r)
  | ")" :: _ => none
  | t :: rest => some (.atom t, rest)

def readSx (s : String) : Option Sx :=
  match parseSx (tokenize s) with
  | some (x, []) => some x
  | _ => none

partial def toSExpr : Sx → Option SExpr
  | .list [.atom "lit", .atom k] => (Scalar.ofName? k).map .lit
  | .list [.atom "var", .atom i] => i.toNat?.map .var
  | .list [.atom "un", .atom o, e] => do pure (.un (← UnOp.ofName? o) (← toSExpr e))
  | .list [.atom "bin", .atom o, a, b] => do pure (.bin (← BinOp.ofName? o) (← toSExpr a) (← toSExpr b))
  | .list [.atom "tern", c, a, b] => do pure (.tern (← toSExpr c) (← toSExpr a) (← toSExpr b))
  | .list (.atom "call" :: .atom n :: args) => do
    let as ← sequenceOpt (args.map toSExpr)
    pure (.call (← n.toNat?) (SArgs.ofList as))
  | .list [.atom "cast", .atom t, e] => do pure (.cast (← parseTy t) (← toSExpr e))
  | _ => none

def toSStmt : Sx → Option SStmt
  | .list [.atom "expr", e] => (toSExpr e).map .expr
  | .list [.atom "ret"] => some (.ret none)
  | .list [.atom "ret", e] => (toSExpr e).map fun x => .ret (some x)
  | .list [.atom "init", .atom t, e] => do pure (.init (← parseTy t) (← toSExpr e))
  | _ => none

partial def toIExpr : Sx → Option IExpr
  | .list [.atom "lit", .atom k] => (Scalar.ofName? k).map .lit
  | .list [.atom "var", .atom i] => i.toNat?.map .var
  | .list [.atom "tern", c, a, b] => do pure (.tern (← toIExpr c) (← toIExpr a) (← toIExpr b))
  | .list [.atom "seq", a, b] => do pure (.seq (← toIExpr a) (← toIExpr b))
  | .list (.atom "call" :: .atom f :: args) => do
    let as ← sequenceOpt (args.map toIExpr)
    pure (.call (← f.toNat?) (IArgs.ofList as))
  | .list [.atom "cast", .atom t, e] => do pure (.cast (← parseTy t) (← toIExpr e))
  | .list (.atom "op" :: .atom o :: args) => do
    let as ← sequenceOpt (args.map toIExpr)
    pure (.op (← IOp.ofName? o) (IArgs.ofList as))
  | _ => none

partial def showIExpr : IExpr → String
  | .lit k => "(lit " ++ k.name ++ ")"
  | .var i => "(var " ++ toString i ++ ")"
  | .tern c a b => "(tern " ++ showIExpr c ++ " " ++ showIExpr a ++ " " ++ showIExpr b ++ ")"
  | .seq a b => "(seq " ++ showIExpr a ++ " " ++ showIExpr b ++ ")"
  | .call f args => "(call " ++ toString f ++ String.join (args.toList.map fun a => " " ++ showIExpr a) ++ ")"
  | .cast t e => "(cast " ++ showTy t ++ " " ++ showIExpr e ++ ")"
  | .op o args => "(op " ++ o.name ++ String.join (args.toList.map fun a => " " ++ showIExpr a) ++ ")"

def showType (Γ : Env) (e : IExpr) : String :=
  match typeOf Γ e with
  | .ok t => showETy t
  | .error _ => "panic"

def showIStmt (Γ : Env) : IStmt → String
  | .expr e => "(expr " ++ showIExpr e ++ ") : " ++ showType Γ e
  | .ret none => "(ret) : void"
  | .ret (some e) => "(ret " ++ showIExpr e ++ ") : " ++ showType Γ e
  | .init t e => "(init " ++ showTy t ++ " " ++ showIExpr e ++ ") : " ++ showType Γ e

/-- `intrinsics.rs: assert..` -> `intrinsics.rs` -/
def panicFile (site : String) : String := (site.splitOn ":").headD "?"

def showResult (Γ : Env) : Except Err IStmt → String
  | .ok s => "accept " ++ showIStmt Γ s
  | .error (.reject k) => "reject " ++ k
  | .error (.panic s) => "panic " ++ panicFile s
  | .error (.unsupported w) => "unsupported " ++ w

/-- types of every node in pre-order, as `Expression::get_type` would give them -/
partial def preorderTypes (Γ : Env) : IExpr → List String
  | e@(.tern c a b) => showType Γ e :: (preorderTypes Γ c ++ preorderTypes Γ a ++ preorderTypes Γ b)
  | e@(.seq a b) => showType Γ e :: (preorderTypes Γ a ++ preorderTypes Γ b)
  | e@(.call _ args) => showType Γ e :: (args.toList.flatMap (preorderTypes Γ))
  | e@(.cast _ x) => showType Γ e :: preorderTypes Γ x
  | e@(.op _ args) => showType Γ e :: (args.toList.flatMap (preorderTypes Γ))
  | e => [showType Γ e]

/-- every node of the expression has a type under `typeOf` -/
partial def allTyped (Γ : Env) : IExpr → Bool
  | e@(.tern c a b) => (typeOf Γ e).toBool && allTyped Γ c && allTyped Γ a && allTyped Γ b
  | e@(.seq a b) => (typeOf Γ e).toBool && allTyped Γ a && allTyped Γ b
  | e@(.call _ args) => (typeOf Γ e).toBool && args.toList.all (allTyped Γ)
  | e@(.cast _ x) => (typeOf Γ e).toBool && allTyped Γ x
  | e@(.op _ args) => (typeOf Γ e).toBool && args.toList.all (allTyped Γ)
  | e => (typeOf Γ e).toBool

def stmtAllTyped (Γ : Env) : IStmt → Bool
  | .expr e => allTyped Γ e
  | .ret none => true
  | .ret (some e) => allTyped Γ e
  | .init _ e => allTyped Γ e

/-- witness search for release builds: the verdict without the per-node debug check, and whether an accepted
    statement is typed at every node -/
def releaseVerdict (Γ : Env) (s : SStmt) : String :=
  match elabStmt false Γ s with
  | .ok s' => if stmtAllTyped Γ s' then "accept typed" else "accept ILL-TYPED " ++ showIStmt Γ s'
  | .error (.reject k) => "reject " ++ k
  | .error (.panic m) => "panic " ++ panicFile m
  | .error (.unsupported w) => "unsupported " ++ w

def handle (op : String) (args : List String) : String :=
  match op, args with
  | "C03.conv", [src, dsts] =>
    match parseETy src, sequenceOpt ((dsts.splitOn " ").map parseETy) with
    | some s, some ds => " ".intercalate (ds.map (convCell s))
    | _, _ => "bad-request"
  | "C03.prog", [vars, funcs, ret, stmt, _expect] =>
    match parseEnv vars funcs ret, (readSx stmt).bind toSStmt with
    | some Γ, some s => showResult Γ (elabStmt true Γ s)
    | _, _ => "bad-request"
  | "C03.release", [vars, funcs, ret, stmt, _expect] =>
    match parseEnv vars funcs ret, (readSx stmt).bind toSStmt with
    | some Γ, some s => releaseVerdict Γ s
    | _, _ => "bad-request"
  | "C03.type", [vars, funcs, ret, typed] =>
    match parseEnv vars funcs ret, readSx typed with
    | some Γ, some (.list (_ :: rest)) =>
      match rest.getLast? with
      | some (.list l) =>
        match toIExpr (.list l) with
        | some e => " ".intercalate (preorderTypes Γ e)
        | none => "unsupported ir"
      | _ => "void"
    | _, _ => "bad-request"
  | _, _ => "unsupported-op"

end RsslVerif.Driver.C03

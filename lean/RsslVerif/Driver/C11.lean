import RsslVerif.Model.CondChain
import RsslVerif.Model.CondFile
import RsslVerif.Driver.Util
/-!
Line-protocol front end of the C11 model.

* `C11.seq  <symbols>`            one character per line over the property's alphabet:
    `0` `#if 0` · `1` `#if 1` · `d` `#ifdef M` · `n` `#ifndef M` · `e` `#elif 0` · `E` `#elif 1` ·
    `l` `#else` · `f` `#endif` · `t` text line `t<position> M` · `D` `#define M 1`;
    a probe line `probe M` is appended.
* `C11.run  <dir>;<dir>;…`        general lines, fields separated by `:`, tokens by one space:
    `i:<cond>` `d:<name>` `n:<name>` `e:<cond>` `l` `f` `t:<tokens>` `D:<name>:<body>` `U:<name>`
    `P:once|warning|unknown` `I:<tokens of the included line>` `I!` (file missing) `X` (unknown command)
    `N` (`#3`: a directive that does not start with a name)
* `C11.cond <defs>  <cond>`       `defs` = `name=body,name=body`; the value of `#if <cond>`.

Token spelling: `|| && == != < <~ > >~ = ! ( ) true false 123 123u name`; `<~`/`>~` = angle bracket
directly followed by the next token.  Observation: `ok line|line|…` (tokens joined by one space) or
`err <PreprocessError variant>`; for `C11.cond`: `1`, `0` or `err …`.
Every request may carry one more field, the whitespace style (0-3) used by the harness when rendering.
-/
namespace RsslVerif.Driver.C11
open RsslVerif.Gen.CondTables RsslVerif.Model.CondExpr RsslVerif.Model.CondChain RsslVerif.Driver

def isIdent (s : String) : Bool :=
  match s.toList with
  | [] => false
  | c :: r => (c.isAlpha || c == '_') && r.all (fun c => c.isAlphanum || c == '_')

def parseTok (s : String) : CTok :=
  if s == "||" then .VerticalBarVerticalBar
  else if s == "&&" then .AmpersandAmpersand
  else if s == "==" then .EqualsEquals
  else if s == "!=" then .ExclamationPointEquals
  else if s == "<" then .LeftAngleBracket .Whitespace
  else if s == "<~" then .LeftAngleBracket .Token
  else if s == ">" then .RightAngleBracket .Whitespace
  else if s == ">~" then .RightAngleBracket .Token
  else if s == "=" then .Equals
  else if s == "!" then .ExclamationPoint
  else if s == "(" then .LeftParen
  else if s == ")" then .RightParen
  else if s == "true" then .True
  else if s == "false" then .False
  else match s.toNat? with
    | some n => if n < 2 ^ 64 then .LiteralInt (UInt64.ofNat n) else .Other s
    | none =>
      if s.endsWith "u" then
        match (s.dropEnd 1).toString.toNat? with
        | some n => if n < 2 ^ 64 then .LiteralIntUnsigned32 (UInt64.ofNat n) else .Other s
        | none => if isIdent s then .Id s else .Other s
      else if isIdent s then .Id s else .Other s

def parseToks (s : String) : List CTok :=
  (s.splitOn " ").filter (· ≠ "") |>.map parseTok

def showTok : CTok → String
  | .VerticalBarVerticalBar => "||"
  | .AmpersandAmpersand => "&&"
  | .EqualsEquals => "=="
  | .ExclamationPointEquals => "!="
  | .LeftAngleBracket _ => "<"
  | .RightAngleBracket _ => ">"
  | .Equals => "="
  | .ExclamationPoint => "!"
  | .False => "false"
  | .True => "true"
  | .LiteralInt v => toString v.toNat
  | .LiteralIntUnsigned32 v => toString v.toNat ++ "u"
  | .LeftParen => "("
  | .RightParen => ")"
  | .Id n => n
  | .Other t => t

def showErr : Err → String
  | .chain .ElseNotMatched => "ElseNotMatched"
  | .chain .EndIfNotMatched => "EndIfNotMatched"
  | .chain .ConditionChainNotFinished => "ConditionChainNotFinished"
  | .chain .ElseAfterElse => "ElseAfterElse"
  | .chain .ElifAfterElse => "ElifAfterElse"
  | .cond .FailedToParseIfCondition => "FailedToParseIfCondition"
  | .cond .MacroRequiresArguments => "MacroRequiresArguments"
  | .cond .MacroArgumentsNeverEnd => "MacroArgumentsNeverEnd"
  | .cond .MacroExpectsDifferentNumberOfArguments => "MacroExpectsDifferentNumberOfArguments"
  | .UnknownPragma => "UnknownPragma"
  | .UnknownCommand => "UnknownCommand"
  | .FailedToFindFile => "FailedToFindFile"

def showOut (out : List (List CTok)) : String :=
  "|".intercalate ((out.filter (fun l => !l.isEmpty)).map (fun l => " ".intercalate (l.map showTok)))

def showResult : Except Err St → String
  | .ok s => "ok " ++ showOut s.out
  | .error e => "err " ++ showErr e

def parseDir (s : String) : Option Dir :=
  match s.splitOn ":" with
  | ["i", c] => some (.ifc (parseToks c))
  | ["d", n] => some (.ifdef false n)
  | ["n", n] => some (.ifdef true n)
  | ["e", c] => some (.elif (parseToks c))
  | ["l"] => some .els
  | ["f"] => some .endif
  | ["t", t] => some (.text (parseToks t))
  | ["D", n, b] => some (.define n (parseToks b))
  | ["U", n] => some (.undef n)
  | ["P", "once"] => some (.pragma .once)
  | ["P", "warning"] => some (.pragma .warning)
  | ["P", "unknown"] => some (.pragma .unknown)
  | ["I", t] => some (.incl (some [parseToks t]))
  | ["I!"] => some (.incl none)
  | ["X"] => some .unknown
  | ["N"] => some .nonName
  | _ => none

def symDir (pos : Nat) (c : Char) : Option Dir :=
  if c == '0' then some (.ifc [.LiteralInt 0])
  else if c == '1' then some (.ifc [.LiteralInt 1])
  else if c == 'd' then some (.ifdef false "M")
  else if c == 'n' then some (.ifdef true "M")
  else if c == 'e' then some (.elif [.LiteralInt 0])
  else if c == 'E' then some (.elif [.LiteralInt 1])
  else if c == 'l' then some .els
  else if c == 'f' then some .endif
  else if c == 't' then some (.text [.Id ("t" ++ toString pos), .Id "M"])
  else if c == 'D' then some (.define "M" [.LiteralInt 1])
  else none

def symDirs (s : String) : Option (List Dir) :=
  let rec go : Nat → List Char → Option (List Dir)
    | _, [] => some [.text [.Id "probe", .Id "M"]]
    | i, c :: r => do
      let d ← symDir i c
      let t ← go (i + 1) r
      pure (d :: t)
  go 0 s.toList

/-- the model handles object-like macros whose bodies contain no identifier -/
def supportedDir : Dir → Bool
  | .define _ b => idFree b
  | _ => true

def parseDefs (s : String) : Option Macros :=
  if s.isEmpty then some [] else
  sequenceOpt ((s.splitOn ",").map fun d =>
    match d.splitOn "=" with
    | n :: b :: more => some (n, parseToks ("=".intercalate (b :: more)))
    | _ => none)

def handleCore (op : String) (args : List String) : String :=
  match op, args with
  | "C11.seq", [syms] =>
    match symDirs syms with
    | some ds => showResult (runReal [] ds)
    | none => "bad-request"
  | "C11.run", [dirs] =>
    match sequenceOpt ((if dirs.isEmpty then [] else dirs.splitOn ";").map parseDir) with
    | some ds => if ds.all supportedDir then showResult (runReal [] ds) else "unsupported macro body"
    | none => "bad-request"
  | "C11.cond", [defs, cond] =>
    match parseDefs defs with
    | some m =>
      if m.all (fun e => idFree e.2) then
        let m' : Macros := m.foldl (fun acc e => acc.define e.1 e.2) []
        match condValue m' (parseToks cond) with
        | .ok true => "1"
        | .ok false => "0"
        | .error e => "err " ++ showErr (.cond e)
      else "unsupported macro body"
    | none => "bad-request"
  | _, _ => "unsupported-op"

/-! ## `C11.raw`: files as the token streams the real lexer produced (fields after `@toks`)

`C11.raw <api defs> <main text> <name=text>… @toks <D tokens>… <F name tokens>…` — the text fields are what
the implementation and the oracle see; the model (which does not contain a lexer, C10) reads the derived
token fields: `w` blank/comment/spliced line end, `E` line end, `( ) ,`, `##`, `i<name>` identifier,
`n<spelling>` `LiteralInt`/`LiteralIntUnsigned32`, `p<spelling>` any other token (`%xx`-escaped;
`<~`/`>~` = followed by a token), `X` = the lexer fails here. -/

def unpct (s : String) : String :=
  let rec go : List Char → List Char
    | '%' :: a :: b :: r =>
      match hexDigit? a, hexDigit? b with
      | some x, some y => Char.ofNat (x * 16 + y) :: go r
      | _, _ => '%' :: go (a :: b :: r)
    | c :: r => c :: go r
    | [] => []
  String.ofList (go s.toList)

open RsslVerif.Model.Macro in
def rawTok (w : String) : Option RsslVerif.Model.CondFile.SItem :=
  let loc (t : Tok) : Option RsslVerif.Model.CondFile.SItem := some (.tok ⟨t, true⟩)
  if w == "X" then some .lexError
  else if w == "w" then loc .ws
  else if w == "E" then loc .endline
  else if w == "(" then loc .lparen
  else if w == ")" then loc .rparen
  else if w == "," then loc .comma
  else if w == "##" then loc .hashhash
  else match w.toList with
    | 'i' :: r => loc (.id (String.ofList r))
    | 'n' :: r => loc (.int (String.ofList r))
    | 'p' :: r => loc (.punct (unpct (String.ofList r)))
    | _ => none

def rawToks (s : String) : Option (List RsslVerif.Model.CondFile.SItem) :=
  sequenceOpt (((s.splitOn " ").filter (· ≠ "")).map rawTok)

open RsslVerif.Model.Macro in
def showRawTok : Tok → String
  | .id s | .int s => s
  | .punct s => if s == "<~" then "<" else if s == ">~" then ">" else s
  | .lparen => "("
  | .rparen => ")"
  | .comma => ","
  | .ws | .endline => ""
  | .hashhash => "##"
  | .concat => "?Concat"
  | .arg i => "?MacroArg(" ++ toString i ++ ")"

open RsslVerif.Model.Macro in
def rawLines (out : List PTok) : List (List String) :=
  let rec go : List PTok → List String → List (List String)
    | [], cur => if cur.isEmpty then [] else [cur.reverse]
    | t :: r, cur =>
      if t.tok == .endline then (if cur.isEmpty then go r [] else cur.reverse :: go r [])
      else if t.tok.isWhitespace then go r cur
      else go r (showRawTok t.tok :: cur)
  go out []

open RsslVerif.Model.Macro in
def showMacroErr : RsslVerif.Model.Macro.Err → String
  | .invalidDefine => "err InvalidDefine"
  | .invalidUndef => "err InvalidUndef"
  | .macroRequiresArguments _ => "err MacroRequiresArguments"
  | .macroArgumentsNeverEnd => "err MacroArgumentsNeverEnd"
  | .macroExpectsDifferentNumberOfArguments => "err MacroExpectsDifferentNumberOfArguments"
  | .concatMissingLeftToken => "err ConcatMissingLeftToken"
  | .concatMissingRightToken => "err ConcatMissingRightToken"
  | .concatFailed => "err ConcatFailed"
  | .failedToFindFile _ => "err FailedToFindFile"
  -- (C12, wave 5: directive lines rejected by `preprocess_command`; C11's own model has its own variants for them)
  | .unknownPragma => "err UnknownPragma"
  | .unknownCommand => "err UnknownCommand"
  | .invalidInclude => "err InvalidInclude"
  | .panic site => "unsupported: model reports a panic at " ++ site
  | .hang => "unsupported: model reports a hang"
  | .guard w => "unsupported: termination guard " ++ w
  | .unsupported w => "unsupported: " ++ w
  | .includeFuel => "unsupported: include fuel"

def showRawErr : RsslVerif.Model.CondFile.Err → String
  | .macro e => showMacroErr e
  | .lexer => "err LexerError"
  | .unknownCommand => "err UnknownCommand"
  | .invalidInclude => "err InvalidInclude"
  | .failedToFindFile => "err FailedToFindFile"
  | .includeDepthExceeded => "err IncludeDepthExceeded"
  | .failedToParseIfCondition => "err FailedToParseIfCondition"
  | .invalidIfdef => "err InvalidIfdef"
  | .invalidIfndef => "err InvalidIfndef"
  | .invalidElse => "err InvalidElse"
  | .invalidEndIf => "err InvalidEndIf"
  | .chain .ElseNotMatched => "err ElseNotMatched"
  | .chain .EndIfNotMatched => "err EndIfNotMatched"
  | .chain .ConditionChainNotFinished => "err ConditionChainNotFinished"
  | .chain .ElseAfterElse => "err ElseAfterElse"
  | .chain .ElifAfterElse => "err ElifAfterElse"
  | .unknownPragma => "err UnknownPragma"
  | .includeFuel => "unsupported: include fuel"

def handleRaw (args : List String) : String :=
  match args.dropWhile (· ≠ "@toks") with
  | [] => "unsupported: no token fields"
  | _ :: tf =>
    -- `##` inside a `#define` line becomes `Concat` (the paste operator belongs to C12); elsewhere it is an ordinary token
    let pasteInDefine (f : String) : Bool :=
      (f.splitOn " E").any fun line =>
        let ws := (line.splitOn " ").filter (fun w => w ≠ "" ∧ w ≠ "w")
        ws.contains "##" && (match ws.dropWhile (fun w => w ≠ "p#") with
          | _ :: "idefine" :: _ => true
          | _ => false)
    if tf.any (fun f => (f.startsWith "D " && (f.splitOn " ").contains "##") || pasteInDefine f) then
      "unsupported: ## in a macro body belongs to C12" else
    let api := tf.filter (·.startsWith "D ")
    let files := tf.filter (·.startsWith "F ")
    let apiDefs : Option (List RsslVerif.Model.CondFile.ApiDef) := sequenceOpt (api.map fun f =>
      match rawToks (f.drop 2).toString with
      | none => none
      | some items =>
        if items.contains .lexError then some none
        else some (some (items.filterMap fun i => match i with | .tok t => some t | .lexError => none)))
    let fileTabs : Option (List (String × List RsslVerif.Model.CondFile.SItem)) := sequenceOpt (files.map fun f =>
      match (f.drop 2).toString.splitOn " " with
      | name :: toks => (rawToks (" ".intercalate toks)).map (fun t => (name, t))
      | [] => none)
    match apiDefs, fileTabs with
    | some api, some tabs =>
      let h : RsslVerif.Model.CondFile.Handler := fun n => (tabs.find? (·.1 == n)).map (·.2)
      match RsslVerif.Model.CondFile.preprocessAll h api "main.rssl" with
      | .ok out => "ok " ++ "|".intercalate ((rawLines out).map (fun l => " ".intercalate l))
      | .error e => showRawErr e
    | _, _ => "bad-request"

/-- `C11.frag`: one text through `preprocess_fragment`.  The request carries the token stream of the text only;
    the defines come from the source (`Gen.fragmentDefines`), spelled `name value` with a name and a decimal value -/
def handleFrag (args : List String) : String :=
  match args.dropWhile (· ≠ "@toks") with
  | [_, f] =>
    if !f.startsWith "F " then "bad-request" else
    if (f.splitOn " E").any (fun line =>
        let ws := (line.splitOn " ").filter (fun w => w ≠ "" ∧ w ≠ "w")
        ws.contains "##" && (match ws.dropWhile (fun w => w ≠ "p#") with
          | _ :: "idefine" :: _ => true
          | _ => false)) then "unsupported: ## in a macro body belongs to C12" else
    let simple (s : String) : Bool := !s.isEmpty && s.toList.all (fun c => c.isAlphanum || c == '_')
    if !(RsslVerif.Gen.CondTables.fragmentDefines.all fun d => simple d.1 && !d.2.isEmpty && d.2.toList.all Char.isDigit) then
      "unsupported: a fragment define that is not `name decimal`" else
    let api : Option (List RsslVerif.Model.CondFile.ApiDef) :=
      sequenceOpt (RsslVerif.Gen.CondTables.fragmentDefines.map fun d =>
        match rawToks ("i" ++ d.1 ++ " w n" ++ d.2) with
        | none => none
        | some items => some (some (items.filterMap fun i => match i with | .tok t => some t | .lexError => none)))
    match (f.drop 2).toString.splitOn " ", api with
    | name :: toks, some api =>
      match rawToks (" ".intercalate toks) with
      | none => "bad-request"
      | some items =>
        match RsslVerif.Model.CondFile.preprocessFragment items api name with
        | .ok out =>
          -- what `prepare_tokens` hands to the parser must be what the observation shows
          let prepared := RsslVerif.Model.CondFile.prepareTokens out
          if prepared.length ≠ ((rawLines out).map List.length).sum + 1 then "unsupported: prepareTokens and rawLines disagree"
          else "ok " ++ "|".intercalate ((rawLines out).map (fun l => " ".intercalate l))
        | .error e => showRawErr e
    | _, _ => "bad-request"
  | _ => "bad-request"

/-- the optional last field is the whitespace/comment style the harness renders the lines with; the
    model works on tokens and ignores it -/
def handle (op : String) (args : List String) : String :=
  match op, args with
  | "C11.seq", [a, _] => handleCore op [a]
  | "C11.run", [a, _] => handleCore op [a]
  | "C11.cond", [a, b, _] => handleCore op [a, b]
  | "C11.raw", _ => handleRaw args
  | "C11.frag", _ => handleFrag args
  | _, _ => handleCore op args

end RsslVerif.Driver.C11

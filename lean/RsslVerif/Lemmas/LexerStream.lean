import RsslVerif.Lemmas.Lexer
import RsslVerif.Spec.Lexer
/-! # `TokenStream` bookkeeping: every `next` advances, spans chain, errors stay inside the file -/
namespace RsslVerif.Model.Lexer
open RsslVerif.Gen.LexTables RsslVerif.Spec.Lexer

theorem chain_append {a b c : Nat} {xs : List PTok} {t : PTok}
    (h : Chain a xs b) (ht : t.start = b) (hle : t.start ≤ t.stop) (hc : t.stop = c) :
    Chain a (xs ++ [t]) c := by
  induction xs generalizing a with
  | nil => simp only [Chain] at h; subst h; simp [Chain, ht, hc]; omega
  | cons x xs ih => simp only [Chain, List.cons_append] at h ⊢; exact ⟨h.1, h.2.1, ih h.2.2⟩

theorem chain_le {a b : Nat} {xs : List PTok} (h : Chain a xs b) : a ≤ b := by
  induction xs generalizing a with
  | nil => simp only [Chain] at h; omega
  | cons x xs ih => simp only [Chain] at h; have := ih h.2.2; omega

/-- re-emitting a chain of spans gives exactly the bytes between its ends -/
theorem reemit_chain (s : Bytes) {a b : Nat} {ts : List PTok} (h : Chain a ts b) (hb : b ≤ s.length) :
    reemit s ts = (s.drop a).take (b - a) := by
  induction ts generalizing a with
  | nil => simp only [Chain] at h; subst h; simp [reemit]
  | cons t ts ih =>
    simp only [Chain] at h
    obtain ⟨h1, h2, h3⟩ := h
    have hle := chain_le h3
    have := ih h3
    simp only [reemit, List.flatMap_cons] at this ⊢
    rw [this, slice, h1]
    subst h1
    have e : b - t.start = (t.stop - t.start) + (b - t.stop) := by omega
    rw [e, List.take_add, List.drop_drop]
    congr 3
    omega

/-- what one successful `next` does -/
theorem next_ok {s s' : Stream} {inc : Bool} {t : PTok} (hinv : s.offset ≤ s.input.length)
    (h : s.next inc = .ok (t, s')) :
    s'.input = s.input ∧ s'.addTrailingEndline = s.addTrailingEndline ∧ s'.debug = s.debug ∧
    t.start = s.offset ∧ t.stop = s'.offset ∧ s'.offset ≤ s.input.length ∧
    ((s.offset < s'.offset ∧ s'.lastWasEndline = decide (t.tok = .simple .Endline)) ∨
     (t.tok = .simple .Endline ∧ s.offset = s.input.length ∧ s'.offset = s.input.length ∧
      s'.lastWasEndline = true)) := by
  unfold Stream.next at h
  split at h
  · rename_i hc
    split at h
    · cases h
    · simp at h
      obtain ⟨h1, h2⟩ := h
      subst h1 h2
      simp [hc.2]
  · split at h
    · cases h
    · have hg := tokenIntermediate_good (s.input.drop s.offset) inc
      have hs := tokenIntermediate_strict (s.input.drop s.offset) inc
      split at h
      · rename_i remaining tok hti
        rw [hti] at hg hs
        simp only [Good] at hg
        simp only [Strict, List.length_drop] at hs
        have hl := hg.length_le
        simp only [List.length_drop] at hl
        split at h
        · cases h
        · dsimp only at h
          split at h
          · cases h
          · simp at h
            obtain ⟨h1, h2⟩ := h
            subst h1 h2
            simp
            omega
      · split at h
        · cases h
        · dsimp only at h
          split at h <;> cases h
      · split at h <;> cases h
      · cases h

/-- what a failing `next` can be: a diagnostic positioned inside the rest of the file, or the
`assert!(!self.last_was_endline)` (which `read_to_end` never reaches) -/
theorem next_error {s : Stream} {inc : Bool} {e : StreamErr} (hinv : s.offset ≤ s.input.length)
    (h : s.next inc = .error e) :
    (∃ k off, e = .lexer k off ∧ s.offset ≤ off ∧ off ≤ s.input.length) ∨
    (e = .panic "last-was-endline" ∧ s.addTrailingEndline = true ∧ s.offset = s.input.length ∧
      s.lastWasEndline = true) := by
  unfold Stream.next at h
  split at h
  · rename_i hc
    split at h
    · rename_i hl; simp at h; exact .inr ⟨h.symm, hc.1, hc.2, hl⟩
    · cases h
  · split at h
    · omega
    · have hg := tokenIntermediate_good (s.input.drop s.offset) inc
      have hs := tokenIntermediate_strict (s.input.drop s.offset) inc
      split at h
      · rename_i remaining tok hti
        rw [hti] at hg hs
        simp only [Good] at hg
        simp only [Strict, List.length_drop] at hs
        have hl := hg.length_le
        simp only [List.length_drop] at hl
        split at h
        · omega
        · dsimp only at h
          split at h
          · omega
          · cases h
      · rename_i rest kind hti
        rw [hti] at hg
        simp only [Good] at hg
        have hl := hg.length_le
        simp only [List.length_drop] at hl
        split at h
        · omega
        · dsimp only at h
          split at h
          · omega
          · simp at h; exact .inl ⟨kind, _, h.symm, by omega, by omega⟩
      · rename_i kind hti
        split at h
        · omega
        · simp at h; exact .inl ⟨kind, _, h.symm, hinv, Nat.le_refl _⟩
      · rename_i site hti
        rw [hti] at hg
        exact absurd hg (by simp [Good])

/-- how a run of the `read_to_end` loop can end, given what was read before -/
def LoopPost (input : Bytes) (_debug : Bool) (a : Nat) (r : List PTok × Except StreamErr Unit) : Prop :=
  (∀ t ∈ r.1, t.start < t.stop ∨ IsSyntheticEndline input t) ∧
  (match r.2 with
   | .ok () => Chain a r.1 input.length
   | .error (.lexer _ off) => ∃ p, Chain a r.1 p ∧ p ≤ off ∧ off ≤ input.length
   | .error (.panic _) => False
   | .error .outOfFuel => True)

theorem readLoop_spec (inc : Bool) (fuel : Nat) (s : Stream) (acc : List PTok) (a : Nat)
    (hinv : s.offset ≤ s.input.length)
    (hchain : Chain a acc.reverse s.offset)
    (hne : ∀ t ∈ acc, t.start < t.stop ∨ IsSyntheticEndline s.input t) :
    LoopPost s.input s.debug a (readLoop inc fuel s acc) := by
  induction fuel generalizing s acc with
  | zero =>
    simp only [readLoop, LoopPost]
    exact ⟨fun t ht => hne t (List.mem_reverse.mp ht), trivial⟩
  | succ fuel ih =>
    simp only [readLoop]
    split
    · rename_i hend
      refine ⟨fun t ht => hne t (List.mem_reverse.mp ht), ?_⟩
      simp only [Stream.endOfStream, Bool.and_eq_true, decide_eq_true_eq] at hend
      have : s.offset = s.input.length := by omega
      simpa [this] using hchain
    · rename_i hend
      split
      · rename_i e he
        refine ⟨fun t ht => hne t (List.mem_reverse.mp ht), ?_⟩
        rcases next_error hinv he with ⟨k, off, h1, h2, h3⟩ | ⟨h1, h2, h3, h4⟩
        · subst h1; exact ⟨_, hchain, h2, h3⟩
        · exfalso; apply hend
          simp [Stream.endOfStream, h3, h4]
      · rename_i t s' hn
        obtain ⟨h1, h2, h3, h4, h5, h6, h7⟩ := next_ok hinv hn
        have := ih s' (t :: acc) (by rw [h1]; exact h6)
          (by
            simp only [List.reverse_cons]
            refine chain_append hchain h4 ?_ h5
            rcases h7 with h7 | h7 <;> omega)
          (by
            intro x hx
            rw [h1]
            rcases List.mem_cons.mp hx with hx | hx
            · subst hx
              rcases h7 with h7 | h7
              · left; omega
              · right; exact ⟨h7.1, by omega, by omega⟩
            · exact hne x hx)
        rw [h1, h3] at this
        exact this

/-- the fuel given by `readAll` is never exhausted -/
theorem readLoop_fuel (inc : Bool) (fuel : Nat) (s : Stream) (acc : List PTok)
    (hinv : s.offset ≤ s.input.length)
    (hf : s.input.length - s.offset + 2 ≤ fuel ∨ (1 ≤ fuel ∧ s.endOfStream = true)) :
    (readLoop inc fuel s acc).2 ≠ .error .outOfFuel := by
  induction fuel generalizing s acc with
  | zero => rcases hf with hf | hf <;> omega
  | succ fuel ih =>
    simp only [readLoop]
    split
    · simp
    · rename_i hend
      have hf : s.input.length - s.offset + 2 ≤ fuel + 1 := by
        rcases hf with hf | hf
        · exact hf
        · exact absurd hf.2 hend
      split
      · rename_i e he
        rcases next_error hinv he with ⟨k, off, h1, _⟩ | ⟨h1, _⟩ <;> subst h1 <;> simp
      · rename_i t s' hn
        obtain ⟨h1, h2, h3, h4, h5, h6, h7⟩ := next_ok hinv hn
        apply ih s' _ (by rw [h1]; exact h6)
        rw [h1]
        rcases h7 with h7 | h7
        · left; omega
        · right
          refine ⟨by omega, ?_⟩
          simp [Stream.endOfStream, h1, h7.2.2.1, h7.2.2.2]

import RsslVerif.Lemmas.LexerStream
import RsslVerif.Model.SourceMap
/-!
# Token spans of a file inside a multi-file `SourceManager` (C10, multi-file clause)

`TokenStream::new(contents, base)` adds `base` to every offset; `base` is the slot total of the files loaded before
(`SourceManager::add_file`).  Since the spans of a file's tokens lie in `[0, |file|]` (`spans_tile`), every token
location — of the entry file, an included file, a `<define>` file or a `<scratch space>` file alike — decodes to its
own file and to the offset inside it.  The decoder is the model of text/src/location.rs that C14 maintains
(`Model/SourceMap.lean`, tied to the source by `Gen.SourceMapTables`).
-/
namespace RsslVerif.Model.SourceMap
open RsslVerif.Gen.SourceMapTables

theorem decode_in_file (pre post : SourceManager) (f : SourceFile) (off : Nat) (h : off ≤ f.contents.length) :
    getFileOffset (pre ++ f :: post) (totalSlots pre + off) = some (pre.length, off) ∧
    getFileLocation (pre ++ f :: post) (totalSlots pre + off) =
      .known f.name (lineCol f.contents off).line (lineCol f.contents off).col := by
  have hlt : off < f.slots := by unfold SourceFile.slots; have : extraSlots = 1 := rfl; omega
  induction pre with
  | nil =>
    have h0 : totalSlots ([] : SourceManager) = 0 := rfl
    simp [h0, getFileOffset, getFileLocation, hlt]
  | cons g pre ih =>
    have hnot : ¬ (g.slots + totalSlots pre + off < g.slots) := by omega
    have hsub : g.slots + totalSlots pre + off - g.slots = totalSlots pre + off := by omega
    simp only [List.cons_append, getFileOffset, getFileLocation, totalSlots, hnot, if_false, hsub, ih.1, ih.2]
    simp

end RsslVerif.Model.SourceMap

namespace RsslVerif.Spec.Lexer
open RsslVerif.Model.Lexer

theorem chain_bounds {a b : Nat} {ts : List PTok} (h : Chain a ts b) :
    a ≤ b ∧ ∀ t ∈ ts, a ≤ t.start ∧ t.start ≤ t.stop ∧ t.stop ≤ b := by
  induction ts generalizing a with
  | nil => simp [Chain] at h; subst h; simp
  | cons t ts ih =>
    obtain ⟨h1, h2, h3⟩ := h
    obtain ⟨h4, h5⟩ := ih h3
    refine ⟨by omega, ?_⟩
    intro x hx
    rcases List.mem_cons.mp hx with hx | hx
    · subst hx; omega
    · have := h5 x hx; omega

end RsslVerif.Spec.Lexer

"""Gen.UsageTables: what ir/src/usage_analysis.rs descends into, the shape of its fixpoint loop, and how
msl/src/generator.rs analyse_globals classifies globals and names implicit parameters/arguments."""
import re


def register(gen, T):
    @gen("UsageTables")
    def usage_tables():
        from rustsrc import (ExtractError, fn_body, first_match, match_arms, lean_str, normws, enum_variants,
                             split_top, matching)
        ua = T.src("ir/src/usage_analysis.rs")
        gm = T.src("msl/src/generator.rs")
        names_rs = T.src("msl/src/names.rs")
        out = [T.header("UsageTables", ["ir/src/usage_analysis.rs", "msl/src/generator.rs", "msl/src/names.rs"])]

        def lb(b):
            return "true" if b else "false"

        def binders(pat, prefix):
            """`Prefix::Variant(a, ref b, Some(c))` -> (Variant, [a, b, c]) ; `Prefix::Variant` -> (Variant, [])"""
            m = re.fullmatch(re.escape(prefix) + r'::([A-Za-z0-9_]+)\s*(\((.*)\))?', pat, re.S)
            if not m:
                raise ExtractError(f"pattern {pat!r} is not a {prefix} variant")
            if m.group(3) is None:
                return m.group(1), []
            bs = []
            for part in split_top(m.group(3), ','):
                part = part.strip()
                if not part:
                    continue
                part = re.sub(r'^(ref\s+|mut\s+|&)+', '', part)
                inner = re.fullmatch(r'Some\(\s*(?:ref\s+)?([a-z_][a-z_0-9]*)\s*\)', part)
                if inner:
                    part = inner.group(1)
                if part == 'None':
                    part = '_'
                if not re.fullmatch(r'[a-z_][a-z_0-9]*', part):
                    raise ExtractError(f"binder {part!r} in {pat!r} unsupported")
                bs.append(part)
            return m.group(1), bs

        def descends(result, b):
            """the field bound to `b` is passed on to a gather_usage_* call (directly, through a field, a loop
            variable or a nested match)"""
            if b == '_':
                return False
            if not re.search(r'\b' + re.escape(b) + r'\b', result):
                return False
            return 'gather_usage_for_' in result

        def arm_table(fn, scrut_pat, prefix, variants):
            body = fn_body(ua, fn)
            _, arms_text, _ = first_match(body, scrut_pat)
            rows = {}
            inserts = []
            for pats, guard, result in match_arms(arms_text):
                if guard is not None:
                    raise ExtractError(f"{fn}: guard unsupported")
                for p in pats:
                    v, bs = binders(p, prefix)
                    flags = [descends(result, b) for b in bs]
                    if v in rows:
                        # e.g. Return(Some(expr)) and Return(None): a field is descended if any arm does
                        old = rows[v]
                        flags = [a or b for a, b in zip(old, flags)] if len(old) == len(flags) else old
                    rows[v] = flags
                    for m in re.finditer(r'usage\s*\.\s*required\s*\.\s*insert\(\s*UsageSymbol::([A-Za-z]+)\(', result):
                        inserts.append((v, m.group(1)))
            missing = [v for v in variants if v not in rows]
            if missing:
                raise ExtractError(f"{fn}: no arm for {missing}")
            return [(v, rows[v]) for v in variants], inserts

        ir_stmt = T.src("ir/src/ir_statements.rs")
        ir_expr = T.src("ir/src/ir_expressions.rs")
        stmt_variants = [v for v, _ in enum_variants(ir_stmt, "StatementKind")]
        expr_variants = [v for v, _ in enum_variants(ir_expr, "Expression")]
        init_variants = [v for v, _ in enum_variants(ir_stmt, "Initializer")]
        forinit_variants = [v for v, _ in enum_variants(ir_stmt, "ForInit")]

        stmt_rows, _ = arm_table("gather_usage_for_statement", r'statement\.kind', "StatementKind", stmt_variants)
        expr_rows, inserts = arm_table("gather_usage_for_expression", r'expr', "Expression", expr_variants)
        init_rows, _ = arm_table("gather_usage_for_init", r'^init$', "Initializer", init_variants)
        # ForInit is matched inside the For arm of gather_usage_for_statement
        sbody = fn_body(ua, "gather_usage_for_statement")
        _, fi_arms, _ = first_match(sbody, r'^init$')
        fi_rows = {}
        for pats, guard, result in match_arms(fi_arms):
            for p in pats:
                v, bs = binders(p, "ForInit")
                fi_rows[v] = [descends(result, b) for b in bs]
        if sorted(fi_rows) != sorted(forinit_variants):
            raise ExtractError(f"ForInit arms {sorted(fi_rows)} vs variants {sorted(forinit_variants)}")

        def table(name, doc, rows):
            s = f"/-- {doc} -/\ndef {name} : List (String × List Bool) := [\n"
            s += ",\n".join(f"  ({lean_str(v)}, [{', '.join(lb(x) for x in fl)}])" for v, fl in rows)
            return s + "\n]\n\n"

        out.append(table("stmtArms", "gather_usage_for_statement: StatementKind variant ↦ for each field, is it passed on to gather_usage_*", stmt_rows))
        out.append(table("exprArms", "gather_usage_for_expression: Expression variant ↦ per field, is it descended into", expr_rows))
        out.append(table("initArms", "gather_usage_for_init", init_rows))
        out.append(table("forInitArms", "ForInit arms inside the For arm", [(v, fi_rows[v]) for v in forinit_variants]))
        out.append("/-- which Expression variants record a symbol: (variant, UsageSymbol constructor) -/\n"
                   "def symbolInserts : List (String × String) := [" +
                   ", ".join(f"({lean_str(a)}, {lean_str(b)})" for a, b in inserts) + "]\n\n")

        # ---- what calculate_local looks at
        cf = normws(fn_body(ua, "calculate_for_function"))
        m = re.search(r'if let Some\(def\) = def \{(.*)\} usage$', cf)
        if not m:
            raise ExtractError("calculate_for_function: `if let Some(def) = def { … } usage` not found")
        inner = m.group(1).strip()
        body_rx = r'gather_usage_for_scope_block\(&def\.scope_block, &mut usage\);'
        dflt_rx = (r'for param in &def\.params \{ if let Some\(default_expr\) = &param\.default_expr \{ '
                   r'gather_usage_for_expression\(default_expr, &mut usage\); \} \}')
        body_only = bool(re.search(body_rx, inner))
        defaults = bool(re.search(dflt_rx, inner))
        rest = re.sub(dflt_rx, '', re.sub(body_rx, '', inner)).strip()
        if rest:
            raise ExtractError(f"calculate_for_function gathers something unknown: {rest[:80]!r}")
        cl = normws(fn_body(ua, "calculate_local"))
        glob_default = bool(re.search(r'let id = GlobalId\(i as u32\); let usage = LocalUsageAnalysis::default\(\);', cl))
        glob_init = bool(re.search(r'let id = GlobalId\(i as u32\); let mut usage = LocalUsageAnalysis::default\(\); '
                                   r'gather_usage_for_init_opt\(&module\.global_registry\[i\]\.init, &mut usage\); '
                                   r'let valid_insert = result \.insert\(UsageSymbol::GlobalVariable\(id\), usage\)', cl))
        if glob_default == glob_init:
            raise ExtractError("calculate_local: cannot tell whether global initialisers are gathered")
        gio = normws(fn_body(ua, "gather_usage_for_init_opt"))
        init_opt_ok = gio == "if let Some(init) = init { gather_usage_for_init(init, usage); }"
        cb_default = bool(re.search(r'let id = ConstantBufferId\(i as u32\); let usage = LocalUsageAnalysis::default\(\);', cl))
        fn_all = bool(re.search(r'for id in module\.function_registry\.iter\(\) \{ let usage = LocalUsageAnalysis::calculate_for_function\(id, module\);', cl))
        out.append("/-- calculate_for_function gathers the implementation's scope block -/\n"
                   f"def functionBodyGathered : Bool := {lb(body_only)}\n"
                   "/-- … and the default expressions of its parameters -/\n"
                   f"def defaultArgumentsGathered : Bool := {lb(defaults)}\n"
                   "/-- the entry of a global variable gathers its initialiser (through gather_usage_for_init_opt) -/\n"
                   f"def globalInitialisersGathered : Bool := {lb(glob_init and init_opt_ok)}\n"
                   f"def cbuffersHaveEmptyUsage : Bool := {lb(cb_default)}\n"
                   f"def everyFunctionHasAnEntry : Bool := {lb(fn_all)}\n\n")

        # ---- shape of recurse
        rb = normws(fn_body(ua, "recurse"))
        facts = {
            "keysSnapshot": r'let keys = self\.0\.keys\(\)\.cloned\(\)\.collect::<Vec<_>>\(\);',
            "outerLoopUntilUnmodified": r'loop \{ let mut modified = false; for key in &keys \{.*\} if !modified \{ break; \} \} self$',
            "startsFromCurrent": r'let current_set = self\.0\.get\(key\)\.unwrap\(\); let mut new_set = current_set\.required\.clone\(\);',
            "unionsMembersSets": r'for other in &current_set\.required \{ new_set\.extend\(&self\.0\.get\(other\)\.unwrap\(\)\.required\); \}',
            "storesWhenGrown": r'if new_set\.len\(\) > current_set\.required\.len\(\) \{ let stored_analysis = self\.0\.get_mut\(key\)\.unwrap\(\); stored_analysis\.required = new_set; modified = true; \}',
        }
        out.append("/-- syntactic shape of GlobalUsageAnalysis::recurse (regexes over the normalised source) -/\n")
        out.append("structure RecurseShape where\n" + "".join(f"  {k} : Bool\n" for k in facts) + "  deriving DecidableEq, Repr\n\n")
        out.append("def recurseShape : RecurseShape := { " +
                   ", ".join(f"{k} := {lb(bool(re.search(rx, rb)))}" for k, rx in facts.items()) + " }\n\n")

        # ---- analyse_globals: classification of globals
        ag = fn_body(gm, "analyse_globals")
        nag = normws(ag)
        out.append("inductive Storage where | Extern | Static | GroupShared\n  deriving DecidableEq, Repr, Inhabited\n\n")

        def bool_expr(text, atoms):
            """translate a Rust boolean expression over known atoms into Lean"""
            res = []
            s = text.strip()
            # tokenise by hand: atoms may contain parentheses
            while s:
                s = s.lstrip()
                if not s:
                    break
                hit = False
                for a, l in atoms:
                    if s.startswith(a):
                        res.append(l)
                        s = s[len(a):]
                        hit = True
                        break
                if hit:
                    continue
                for op, l in (("&&", "&&"), ("||", "||"), ("(", "("), (")", ")"), ("!", "!")):
                    if s.startswith(op):
                        res.append(l)
                        s = s[len(op):]
                        hit = True
                        break
                if not hit:
                    raise ExtractError(f"cannot translate boolean expression near {s[:40]!r}")
            return " ".join(res)

        m = re.search(r'let is_global_constant = (.*?);', nag)
        if not m:
            raise ExtractError("is_global_constant not found")
        atoms = [("is_const", "isConst"),
                 ("def.storage_class == ir::GlobalStorage::Static", "(storage == .Static)"),
                 ("def.storage_class == ir::GlobalStorage::Extern", "(storage == .Extern)"),
                 ("def.storage_class == ir::GlobalStorage::GroupShared", "(storage == .GroupShared)"),
                 ("def.static_sampler.is_some()", "staticSampler")]
        out.append("/-- `is_global_constant` of analyse_globals: such globals stay at file scope (GlobalMode::Constant) -/\n"
                   "def isGlobalConstant (isConst : Bool) (storage : Storage) (staticSampler : Bool) : Bool :=\n  "
                   + bool_expr(m.group(1), atoms) + "\n\n")
        mode_ok = bool(re.search(r'let mode = if is_global_constant \{ GlobalMode::Constant \} else \{', nag))
        skip_intrinsic = bool(re.search(r'let def = &context\.module\.global_registry\[id\.0 as usize\]; if def\.is_intrinsic \{ continue; \}', nag))
        out.append(f"def constantModeIffGlobalConstant : Bool := {lb(mode_ok)}\n"
                   f"def intrinsicGlobalsHaveNoMode : Bool := {lb(skip_intrinsic)}\n\n")

        # natural address space
        m = re.search(r'let natural_address_space = ', ag)
        if not m:
            raise ExtractError("natural_address_space not found")
        _, arms_text, _ = first_match(ag, r'def\.storage_class', m.end() - 1)
        out.append("inductive AddressSpace where | Constant | Thread | ThreadGroup | Device | ObjectData\n  deriving DecidableEq, Repr, Inhabited\n\n")
        out.append("def naturalAddressSpace : Storage → AddressSpace\n")
        seen = set()
        for pats, guard, result in match_arms(arms_text):
            rm = re.fullmatch(r'ast::AddressSpace::([A-Za-z]+)', result)
            if not rm or guard is not None:
                raise ExtractError(f"natural_address_space arm {result!r}")
            for p in pats:
                pm = re.fullmatch(r'ir::GlobalStorage::([A-Za-z]+)', p)
                if not pm:
                    raise ExtractError(f"natural_address_space pattern {p!r}")
                seen.add(pm.group(1))
                out.append(f"  | .{pm.group(1)} => .{rm.group(1)}\n")
        if seen != {"Extern", "Static", "GroupShared"}:
            raise ExtractError(f"natural_address_space covers {sorted(seen)}")
        # requires_reference
        m = re.search(r'let requires_reference = \{.*?if (natural_address_space == ast::AddressSpace::Constant && tyl\.is_object\(\)) \{ false \} else \{ true \} \};', nag)
        if not m:
            raise ExtractError("requires_reference has an unexpected shape")
        out.append("\n/-- threaded globals are passed by reference unless they are extern objects (not arrays of objects) -/\n"
                   "def requiresReference (storage : Storage) (isObject : Bool) : Bool :=\n"
                   "  !(naturalAddressSpace storage == .Constant && isObject)\n\n")

        # ---- implicit parameters: enum order (derived Ord), sort, producers, names
        variants = enum_variants(gm, "ImplicitFunctionParameter")
        derive = re.search(r'#\[derive\(([^)]*)\)\]\s*enum\s+ImplicitFunctionParameter', gm)
        derives_ord = bool(derive and re.search(r'\bOrd\b', derive.group(1)) and re.search(r'\bPartialOrd\b', derive.group(1)))
        vnames = [v for v, _ in variants]
        out.append("/-- variants of ImplicitFunctionParameter in declaration order (= derived `Ord` order) -/\n"
                   "def implicitVariants : List String := [" + ", ".join(lean_str(v) for v in vnames) + "]\n"
                   f"def implicitDerivesOrd : Bool := {lb(derives_ord)}\n")
        sorts = bool(re.search(r'required_globals\.sort\(\); let valid_insert = context \.function_required_globals \.insert\(id, required_globals\)', nag))
        out.append(f"def requiredGlobalsSorted : Bool := {lb(sorts)}\n")
        pushes_param = bool(re.search(
            r'if !matches!\( context\.global_variable_modes\.get\(gid\)\.unwrap\(\), GlobalMode::Constant \) \{ required_globals\.push\(ImplicitFunctionParameter::Global\(\*gid\)\); \}', nag))
        skips_intrinsic_fn = bool(re.search(
            r'for id in context\.module\.function_registry\.iter\(\) \{ if context \.module \.function_registry \.get_intrinsic_data\(id\) \.is_some\(\) \{ continue; \}', nag))
        out.append(f"def pushesNonConstantGlobals : Bool := {lb(pushes_param)}\n"
                   f"def intrinsicFunctionsSkipped : Bool := {lb(skips_intrinsic_fn)}\n\n")
        # intrinsic function symbols that add implicit parameters
        m = re.search(r'match intrinsic \{', ag)
        if not m:
            raise ExtractError("match intrinsic not found in analyse_globals")
        _, arms_text, _ = first_match(ag, r'^intrinsic$', m.start())
        rows = []
        for pats, guard, result in match_arms(arms_text):
            pushed = re.findall(r'required_globals\s*\.push\(\s*ImplicitFunctionParameter::([A-Za-z]+)', result)
            for p in pats:
                if p == '_':
                    if pushed:
                        raise ExtractError("wildcard intrinsic arm pushes parameters")
                    continue
                pm = re.fullmatch(r'ir::Intrinsic::([A-Za-z0-9_]+)', p)
                if not pm:
                    raise ExtractError(f"intrinsic pattern {p!r}")
                rows.append((pm.group(1), pushed))
        out.append("/-- intrinsic function symbols in a function's closure that add implicit parameters -/\n"
                   "def intrinsicImplicits : List (String × List String) := [\n" +
                   ",\n".join(f"  ({lean_str(a)}, [{', '.join(lean_str(x) for x in b)}])" for a, b in rows) + "\n]\n\n")

        # names: parameter name (generate_function_inner) and argument name (append_arguments_for_globals)
        consts = dict(re.findall(r'pub const ([A-Z_0-9]+): &str = "([^"]*)";', names_rs))

        def names_of(fn, scrut):
            body = fn_body(gm, fn)
            k = body.find("parameters_for_globals")
            _, arms_text, _ = first_match(body, scrut, k)
            res = {}
            for pats, guard, result in match_arms(arms_text):
                for p in pats:
                    pm = re.fullmatch(r'ImplicitFunctionParameter::([A-Za-z]+)(\(.*\))?', p)
                    if not pm:
                        raise ExtractError(f"{fn}: pattern {p!r}")
                    v = pm.group(1)
                    if v == "Global":
                        which = "param" if "params.push(param.clone())" in normws(result) else \
                            ("argument" if "args.push(Located::none(argument.clone()))" in normws(result) else "?")
                        res[v] = "<" + which + ">"
                        continue
                    nm = re.search(r'ScopedIdentifier::trivial\(\s*(&?[A-Za-z_"0-9]+)\s*,?\s*\)', result)
                    if not nm:
                        raise ExtractError(f"{fn}: no identifier in arm {v}")
                    tok = nm.group(1).lstrip('&')
                    if tok.startswith('"'):
                        res[v] = tok.strip('"')
                    elif tok in consts:
                        res[v] = consts[tok]
                    else:
                        raise ExtractError(f"{fn}: unknown name constant {tok}")
            return res

        pn = names_of("generate_function_inner", r'^param$')
        an = names_of("append_arguments_for_globals", r'^param$')
        for v in vnames:
            if v not in pn or v not in an:
                raise ExtractError(f"implicit variant {v} has no parameter/argument arm")
        out.append("/-- implicit variant ↦ (name of the parameter generate_function_inner adds, name of the argument\n"
                   "    append_arguments_for_globals passes); `<param>`/`<argument>` = the two halves of GlobalMode::Parameter -/\n"
                   "def implicitNames : List (String × String × String) := [\n" +
                   ",\n".join(f"  ({lean_str(v)}, {lean_str(pn[v])}, {lean_str(an[v])})" for v in vnames) + "\n]\n\n")
        # GlobalMode::Parameter: param declarator name and argument identifier come from the same `name`
        same_name = bool(re.search(r'let name = context\.get_global_name\(id\)\?\.to_string\(\); let \(mut param_type, declarator\) = generate_type_and_declarator\(def\.type_id, &name, is_global_constant, context\)\?;', nag)) and \
            bool(re.search(r'let argument = ast::Expression::Identifier\(ast::ScopedIdentifier::from\(Located::none\( name\.as_str\(\), \)\)\);', nag))
        out.append(f"def globalParamAndArgumentShareName : Bool := {lb(same_name)}\n\n")
        # call sites and trampolines append the callee's list; parameters come after user parameters
        guc = normws(fn_body(gm, "generate_user_call"))
        call_appends = bool(re.search(r'let mut args = generate_invocation_args\(arguments, context\)\?;.*append_arguments_for_globals\(&mut args, id, context\); let expr = ast::Expression::Call\(Box::new\(Located::none\(object\)\), type_args, args\);', guc))
        fills = bool(re.search(
            r'let mut args = generate_invocation_args\(arguments, context\)\?; let module = context\.module; '
            r'if !context \.function_required_globals \.get\(&id\) \.unwrap\(\) \.is_empty\(\) '
            r'&& let Some\(decl\) = module\.function_registry\.get_function_implementation\(id\) \{ '
            r'for param in decl\.params\.iter\(\)\.skip\(arguments\.len\(\)\) \{ '
            r'if let Some\(default_expr\) = &param\.default_expr \{ '
            r'args\.push\(Located::none\(generate_expression\(default_expr, context\)\?\)\); \} \} \} '
            r'append_arguments_for_globals\(&mut args, id, context\);', guc))
        direct = bool(re.search(r'let mut args = generate_invocation_args\(arguments, context\)\?; append_arguments_for_globals\(&mut args, id, context\);', guc))
        if fills == direct:
            raise ExtractError("generate_user_call: cannot tell whether omitted default arguments are filled in")
        out.append("/-- generate_user_call passes the default values of omitted arguments explicitly when the callee\n"
                   "    receives parameters for globals -/\n"
                   f"def callSitesFillDefaults : Bool := {lb(fills)}\n")
        tramp = normws(fn_body(gm, "generate_function_out_trampoline_body"))
        tramp_appends = bool(re.search(r'metal_lib_identifier\("true_type"\).*append_arguments_for_globals\(&mut params, id, context\);', tramp))
        gfi = normws(fn_body(gm, "generate_function_inner"))
        order_ok = bool(re.search(r'for param in &decl\.params \{ params\.push\(generate_function_param\( param, false, (?:trampoline_target|trampoline_target \|\| has_parameters_for_globals), context, \)\?\); \} if trampoline_target \{ params\.push\(ast::FunctionParam \{ param_type: ast::Type::from\(metal_lib_identifier\("true_type"\)\),.*?\}\) \} let parameters_for_globals = context\.function_required_globals\.get\(&id\)\.unwrap\(\)\.clone\(\); for param in parameters_for_globals \{', gfi))
        no_defaults = bool(re.search(
            r'let has_parameters_for_globals = !context \.function_required_globals \.get\(&id\) \.unwrap\(\) \.is_empty\(\);.*'
            r'generate_function_param\( param, false, trampoline_target \|\| has_parameters_for_globals, context, \)', gfi))
        old_defaults = bool(re.search(r'generate_function_param\( param, false, trampoline_target, context, \)', gfi))
        if no_defaults == old_defaults:
            raise ExtractError("generate_function_inner: cannot tell when parameter defaults are emitted")
        gfp = normws(fn_body(gm, "generate_function_param"))
        dis = bool(re.search(r'let default_expr = if let Some\(default_expr\) = &param\.default_expr \{ if disable_default \{ None \} else \{ Some\(generate_expression\(default_expr, context\)\?\) \} \} else \{ None \};', gfp))
        out.append("/-- functions with parameters for globals (and trampoline targets) are emitted without parameter defaults -/\n"
                   f"def noDefaultsWithImplicitParams : Bool := {lb(no_defaults and dis)}\n")
        # initialisers of threaded statics are generated after function_required_globals is complete
        late_init = bool(re.search(
            r'\.function_required_globals \.insert\(id, required_globals\) \.is_none\(\); assert!\(valid_insert\); \} '
            r'for i in 0\.\.context\.module\.global_registry\.len\(\) \{.*'
            r'let generated_init = generate_initializer\(&def\.init, def\.type_id, context\)\?;', nag)) and \
            not re.search(r'generate_initializer\(.*for id in context\.module\.function_registry\.iter\(\)', nag)
        out.append(f"def staticInitialisersGeneratedLast : Bool := {lb(late_init)}\n")
        gft = normws(fn_body(gm, "generate_function_and_trampoline"))
        tramp_rule = bool(re.search(r'let has_out = sig \.param_types \.iter\(\) \.any\(\|p\| p\.input_modifier != ir::InputModifier::In\); let needs_trampoline = has_out && context\.called_functions\.contains\(&id\);', gft))
        aag = normws(fn_body(gm, "append_arguments_for_globals"))
        append_in_order = bool(re.match(r'let parameters_for_globals = context\.function_required_globals\.get\(&id\)\.unwrap\(\); for param in parameters_for_globals \{ match param \{', aag))
        out.append(f"def argumentsAppendedInListOrder : Bool := {lb(append_in_order)}\n")
        out.append(f"def callSitesAppendCalleeList : Bool := {lb(call_appends)}\n"
                   f"def trampolineAppendsOwnList : Bool := {lb(tramp_appends)}\n"
                   f"def implicitParamsFollowUserParams : Bool := {lb(order_ok)}\n"
                   f"def trampolineIffOutAndCalled : Bool := {lb(tramp_rule)}\n")
        out.append(T.footer("UsageTables"))
        return "".join(out)

    @gen("MslGenTables")
    def msl_gen_tables():
        """tables and shape facts of the expression / statement / function half of msl/src/generator.rs (semantic half
        of C02); enums (IntrinsicOp, UnaryOp, BinOp, LitKind, ConstKind, LitArm, LitGuard) are those of Gen.HlslGenTables"""
        from rustsrc import ExtractError, fn_body, first_match, match_arms, enum_variants, normws, lean_str, matching, split_top
        gm = T.src("msl/src/generator.rs")
        names_rs = T.src("msl/src/names.rs")
        intr_rs = T.src("ir/src/intrinsics.rs")
        ast_rs = T.src("ast/src/ast_expressions.rs")
        irt_rs = T.src("ir/src/ir_types.rs")
        hdr = T.header("MslGenTables", ["msl/src/generator.rs", "msl/src/names.rs", "ir/src/intrinsics.rs",
                                        "ir/src/ir_types.rs", "ast/src/ast_expressions.rs"])
        first, rest = hdr.split("\n", 1)
        out = [first + "\nimport RsslVerif.Gen.HlslGenTables\n" + rest + "open RsslVerif.Gen.HlslGenTables\n\n"]

        def lb(b):
            return "true" if b else "false"

        SAFE = {"String": "Str"}
        iops = [v for v, _ in enum_variants(intr_rs, "IntrinsicOp")]
        uops = [v for v, _ in enum_variants(ast_rs, "UnaryOp")]
        bops = [v for v, _ in enum_variants(ast_rs, "BinOp")]
        lits = [v for v, _ in enum_variants(ast_rs, "Literal")]
        consts = [SAFE.get(v, v) for v, _ in enum_variants(irt_rs, "Constant")]
        scalars = [v for v, _ in enum_variants(irt_rs, "ScalarType")]

        # ---------------------------------------------------------------- generate_intrinsic_op
        body = fn_body(gm, "generate_intrinsic_op")
        scrut, arms_text, end = first_match(body, r'^&?\s*intrinsic$')
        out.append("/-- `Form` of the Metal generate_intrinsic_op.  `floatCall n s b`: the arm looks at the scalar type of the first\n"
                   "operand and returns `generate_invoke_simple(n, …)` when it is one of `s`, otherwise `Form::Binary(b)` -/\n"
                   "inductive MForm where\n  | unary (op : UnaryOp)\n  | binary (op : BinOp)\n"
                   "  | floatCall (name : String) (scalars : List String) (op : BinOp)\n"
                   "  | floatAssign (scalars : List String) (err : String) (outer inner : IntrinsicOp) (op : BinOp)\n"
                   "  | special\n  | meshMethod\n  | meshHelper\n"
                   "  deriving DecidableEq, Repr, Inhabited\n\n")
        seen = {}
        place_guard = None

        def parse_place_fn(text, self_name, other_name):
            """arms of `match expr { … }` of a local `fn(expr: &ir::Expression) -> bool`: rows (ctor, arity, ops allowed at an
            operator field, fields tested by `self_name`, fields tested by `other_name`, Vec fields tested with
            `.iter().all(self_name)`); the `_` arm must be `false`"""
            scrut, arms_text_, _ = first_match(text, r'^expr$')
            rows, default = [], None
            for pats_, guard_, result_ in match_arms(arms_text_):
                if guard_ is not None:
                    raise ExtractError(f"msl {self_name}: match arm with an `if` guard")
                rr = normws(result_)
                if rr.startswith("{") and rr.endswith("}"):
                    rr = rr[1:-1].strip()
                if pats_ == ["_"]:
                    default = rr
                    continue
                for p_ in pats_:
                    pm_ = re.fullmatch(r'ir::Expression::([A-Za-z]+)(?:\((.*)\))?', p_)
                    if not pm_:
                        raise ExtractError(f"msl {self_name}: pattern {p_!r}")
                    binders = [normws(x) for x in split_top(pm_.group(2), ',') if x.strip()] if pm_.group(2) else []
                    ops = []
                    for k_, b_ in enumerate(binders):
                        if '|' in b_ or (b_ in iops):
                            alts = [normws(x) for x in b_.split('|')]
                            if k_ != 0 or any(a_ not in iops for a_ in alts):
                                raise ExtractError(f"msl {self_name}: operator alternatives {b_!r}")
                            ops = alts
                        elif not re.fullmatch(r'_|[a-z_]+', b_):
                            raise ExtractError(f"msl {self_name}: binder {b_!r}")
                    mine, theirs, allof = [], [], []
                    if rr != "true":
                        for part in [x.strip() for x in rr.split("&&")]:
                            cm = re.fullmatch(r'([a-z_]+)\(([a-z_]+)\)', part)
                            am = re.fullmatch(r'([a-z_]+)\.iter\(\)\.all\(([a-z_]+)\)', part) or \
                                re.fullmatch(r'([a-z_]+)\.iter\(\)\.all\(\|slot\| ([a-z_]+)\(&slot\.expr\)\)', part)
                            if cm and cm.group(2) in binders and cm.group(1) == self_name:
                                mine.append(binders.index(cm.group(2)))
                            elif cm and cm.group(2) in binders and other_name and cm.group(1) == other_name:
                                theirs.append(binders.index(cm.group(2)))
                            elif am and am.group(1) in binders and am.group(2) == self_name:
                                allof.append(binders.index(am.group(1)))
                            else:
                                raise ExtractError(f"msl {self_name}: arm result {rr!r}")
                    rows.append((pm_.group(1), len(binders), ops, sorted(mine), sorted(theirs), sorted(allof)))
            if default != "false":
                raise ExtractError(f"msl {self_name}: default arm {default!r}")
            return rows

        def parse_float_assign(r):
            """the RemainderAssignment arm since fixes 92d66eb + 35faaaa: on a floating-point first operand `a op= b` becomes
            `a = inner_op(a, b)` through generate_expression, provided `a` is a plain place and `b` is free of writes"""
            head = ("{ let lhs_ety = exprs[0].get_type(context.module).unwrap(); "
                    "let lhs_ty = context.module.type_registry.remove_modifier(lhs_ety.0); "
                    "match context.module.type_registry.extract_scalar(lhs_ty) { ")
            if not r.startswith(head):
                return None
            m1 = re.match(r'((?:Some\(ir::ScalarType::[A-Za-z0-9]+\)(?: \| )?)+) => \{ fn is_plain_place\(expr: &ir::Expression\) -> bool \{', r[len(head):])
            if not m1:
                return None
            ss = re.findall(r'ir::ScalarType::([A-Za-z0-9]+)', m1.group(1))
            a = len(head) + m1.end() - 1
            b = matching(r, a)
            place_text = r[a + 1:b]
            rest = r[b + 1:].strip()
            m2 = re.match(r'fn is_plain_index\(expr: &ir::Expression\) -> bool \{', rest)
            if not m2:
                return None
            a2 = m2.end() - 1
            b2 = matching(rest, a2)
            index_text = rest[a2 + 1:b2]
            tail = rest[b2 + 1:].strip()
            m2b = re.match(r'fn is_free_of_writes\(expr: &ir::Expression\) -> bool \{', tail)
            if not m2b:
                return None
            a3 = m2b.end() - 1
            b3 = matching(tail, a3)
            writes_text = tail[a3 + 1:b3]
            tail = tail[b3 + 1:].strip()
            m3 = re.fullmatch(
                r'if !is_plain_place\(&exprs\[0\]\) \|\| !is_free_of_writes\(&exprs\[1\]\) \{ return Err\(GenerateError::([A-Za-z]+)\); \} '
                r'let value = ir::Expression::IntrinsicOp\(([A-Za-z]+), exprs\.to_vec\(\)\); '
                r'let assignment = ir::Expression::IntrinsicOp\( ([A-Za-z]+), Vec::from\(\[exprs\[0\]\.clone\(\), value\]\), \); '
                r'return generate_expression\(&assignment, context\); \} '
                r'_ => Form::Binary\(ast::BinOp::([A-Za-z0-9_]+)\), \} \}', tail)
            if not m3:
                return None
            err, inner, outer, bop = m3.groups()
            if any(x not in scalars for x in ss) or inner not in iops or outer not in iops or bop not in bops:
                raise ExtractError(f"msl generate_intrinsic_op: {tail[:80]!r}")
            return ss, err, outer, inner, bop, parse_place_fn(place_text, "is_plain_place", "is_plain_index"), \
                parse_place_fn(index_text, "is_plain_index", None), parse_place_fn(writes_text, "is_free_of_writes", None)
        for pats, guard, result in match_arms(arms_text):
            if guard is not None:
                raise ExtractError("msl generate_intrinsic_op: guard unsupported")
            r = normws(result)
            m = re.fullmatch(r'Form::(Unary|Binary)\(\s*ast::(UnaryOp|BinOp)::([A-Za-z0-9_]+)\s*\)', r)
            mf = re.fullmatch(
                r'\{ let lhs_ety = exprs\[0\]\.get_type\(context\.module\)\.unwrap\(\); '
                r'let lhs_ty = context\.module\.type_registry\.remove_modifier\(lhs_ety\.0\); '
                r'match context\.module\.type_registry\.extract_scalar\(lhs_ty\) \{ '
                r'((?:Some\(ir::ScalarType::[A-Za-z0-9]+\)(?: \| )?)+) => \{ '
                r'return generate_invoke_simple\("([a-z0-9_]+)", &\[\], exprs, context\); \} '
                r'_ => Form::Binary\(ast::BinOp::([A-Za-z0-9_]+)\), \} \}', r)
            if m:
                kind, en, v = m.groups()
                if (kind, en) not in (("Unary", "UnaryOp"), ("Binary", "BinOp")):
                    raise ExtractError(f"msl generate_intrinsic_op: {r!r} mixes form and operator enum")
                if v not in (uops if kind == "Unary" else bops):
                    raise ExtractError(f"msl generate_intrinsic_op: unknown operator {v}")
                val = f".{kind.lower()} .{v}"
            elif mf:
                ss = re.findall(r'ir::ScalarType::([A-Za-z0-9]+)', mf.group(1))
                if any(x not in scalars for x in ss) or mf.group(3) not in bops:
                    raise ExtractError(f"msl generate_intrinsic_op: {r[:60]!r}")
                val = f".floatCall {lean_str(mf.group(2))} {T.lean_list(lean_str(x) for x in ss)} .{mf.group(3)}"
            elif parse_float_assign(r):
                ss, err, outer, inner, bop, prow, irow, wrow = parse_float_assign(r)
                if place_guard is not None:
                    raise ExtractError("msl generate_intrinsic_op: two arms with a plain-place test")
                place_guard = (prow, irow, wrow)
                val = f".floatAssign {T.lean_list(lean_str(x) for x in ss)} {lean_str(err)} .{outer} .{inner} .{bop}"
            elif r.startswith("Form::Special("):
                val = ".special"
            elif r.startswith("Form::MeshOutputMethod("):
                val = ".meshMethod"
            elif r.startswith("Form::MeshOutputHelper("):
                val = ".meshHelper"
            else:
                raise ExtractError(f"msl generate_intrinsic_op: arm result {r[:80]!r} unsupported")
            for p in pats:
                if p not in iops:
                    raise ExtractError(f"msl generate_intrinsic_op: pattern {p!r} is not an IntrinsicOp")
                seen.setdefault(p, val)
        missing = [o for o in iops if o not in seen]
        if missing:
            raise ExtractError(f"msl generate_intrinsic_op: no arm for {missing}")
        out.append("def mslOpForm : IntrinsicOp → MForm\n" + "".join(f"  | .{o} => {seen[o]}\n" for o in iops) + "\n")
        out.append("/-- the variants of `ir::IntrinsicOp` in declaration order (operator payloads of constructor trees are indices into it) -/\n"
                   "def intrinsicOpNames : List String := " + T.lean_list(lean_str(o) for o in iops) + "\n"
                   "def intrinsicOpIdx : IntrinsicOp → Nat\n" + "".join(f"  | .{o} => {k}\n" for k, o in enumerate(iops)) + "\n")
        out.append("/-- one accepting arm of a local test `fn(expr: &ir::Expression) -> bool` of the floating-point `%=` arm: constructor,\n"
                   "number of fields in the pattern, the operators the pattern allows at field 0 (`[]` = no operator field), the `Box` fields\n"
                   "handed to the test itself, the `Box` fields handed to the other test (`is_plain_index` from `is_plain_place`), the `Vec`\n"
                   "fields tested with `.iter().all(test)`; an arm without any of them is `true`; the `_` arm is `false` -/\n"
                   "structure PlaceRow where\n  ctor : String\n  arity : Nat\n  ops : List String\n  self : List Nat\n  other : List Nat\n"
                   "  allOf : List Nat\n  deriving DecidableEq, Repr\n\n")

        def rows_text(rows):
            return "[\n" + ",\n".join(
                f"  ⟨{lean_str(c)}, {a}, {T.lean_list(lean_str(x) for x in ops)}, [{', '.join(map(str, m_))}], [{', '.join(map(str, t_))}], "
                f"[{', '.join(map(str, al))}]⟩" for c, a, ops, m_, t_, al in rows) + "\n]"
        if place_guard is None:
            place_guard = ([], [], [])
        out.append("/-- `is_plain_place`: the test on the target of a floating-point `%=`, which is written twice (`a = fmod(a, b)`) -/\n"
                   "def remAssignPlaceGuard : List PlaceRow := " + rows_text(place_guard[0]) + "\n"
                   "/-- `is_plain_index`: the test `is_plain_place` applies to the index of a subscript -/\n"
                   "def remAssignIndexGuard : List PlaceRow := " + rows_text(place_guard[1]) + "\n"
                   "/-- `is_free_of_writes` (fix 35faaaa): the test on the right operand, which `a = fmod(a, b)` evaluates AFTER the target is\n"
                   "read while `a %= b` evaluates it before -/\n"
                   "def remAssignWritesGuard : List PlaceRow := " + rows_text(place_guard[2]) + "\n\n")
        scrut2, arms2, _ = first_match(body, r'^form$', end)
        shape = {}
        for pats, guard, result in match_arms(arms2):
            r = normws(result)
            if pats == ["Form::Unary(op)"]:
                shape["unary"] = r == ("{ assert_eq!(exprs.len(), 1); let inner = generate_expression(&exprs[0], context)?; "
                                       "ast::Expression::UnaryOperation(op, Box::new(Located::none(inner))) }")
            elif pats == ["Form::Binary(op)"]:
                shape["binary"] = r == (
                    "{ assert_eq!(exprs.len(), 2); let left = generate_expression(&exprs[0], context)?; "
                    "let right = generate_expression(&exprs[1], context)?; let output = ast::Expression::BinaryOperation( op, "
                    "Box::new(Located::none(left)), Box::new(Located::none(right)), ); "
                    "let unmod_ty = context.module.type_registry.remove_modifier(output_type); "
                    "let tyl = context.module.type_registry.get_type_layer(unmod_ty); "
                    "if matches!(tyl, ir::TypeLayer::Enum(_)) { let cast_target = generate_type_id(output_type, context)?; "
                    "ast::Expression::Cast(Box::new(cast_target), Box::new(Located::none(output))) } else { output } }")
        out.append("/-- Form::Unary(op) builds UnaryOperation(op, gen exprs[0]) after asserting one operand -/\n"
                   f"def mslUnaryFormAsModelled : Bool := {lb(shape.get('unary'))}\n"
                   "/-- Form::Binary(op) builds BinaryOperation(op, gen exprs[0], gen exprs[1]) after asserting two operands; only a\n"
                   "result of enum type is wrapped in a cast (no enums in the modelled subset) -/\n"
                   f"def mslBinaryFormAsModelled : Bool := {lb(shape.get('binary'))}\n")
        inv = normws(fn_body(gm, "generate_invoke_simple")) == (
            "let identifier = metal_lib_identifier(name); let object = Box::new(Located::none(ast::Expression::Identifier(identifier))); "
            "let type_args = generate_template_type_args(tys, context)?; let args = generate_invocation_args(exprs, context)?; "
            "Ok(ast::Expression::Call(object, type_args, args))")
        mli = normws(fn_body(gm, "metal_lib_identifier")) == "metal_lib_identifier_complex(&[name])" and \
            normws(fn_body(gm, "metal_lib_identifier_complex")) == (
                'let mut identifiers = Vec::new(); identifiers.push("metal"); identifiers.extend(names); ast::ScopedIdentifier { '
                "base: ast::ScopedIdentifierBase::Relative, identifiers: identifiers .into_iter() .map(|name| Located::none(String::from(name))) "
                ".collect(), }")
        gia = normws(fn_body(gm, "generate_invocation_args")) == (
            "let mut ast = Vec::new(); for expr in exprs { ast.push(Located::none(generate_expression(expr, context)?)); } Ok(ast)")
        out.append("/-- generate_invoke_simple(name, [], exprs): Call(metal::name, no type arguments, the arguments in order) -/\n"
                   f"def invokeSimpleAsModelled : Bool := {lb(inv and mli)}\n"
                   f"def invocationArgsInOrder : Bool := {lb(gia)}\n"
                   'def metalLibPrefix : String := "metal"\n\n')

        # ---------------------------------------------------------------- generate_literal
        lbody = fn_body(gm, "generate_literal")
        _, larms, _ = first_match(lbody, r'^\*literal$')
        rows = []
        for pats, guard, result in match_arms(larms):
            if len(pats) != 1:
                raise ExtractError("msl generate_literal: alternative patterns unsupported")
            pm = re.fullmatch(r'ir::Constant::([A-Za-z0-9]+)\((.*)\)', pats[0])
            if not pm or SAFE.get(pm.group(1), pm.group(1)) not in consts:
                raise ExtractError(f"msl generate_literal: pattern {pats[0]!r}")
            ck = SAFE.get(pm.group(1), pm.group(1))
            r = normws(result)
            bm = re.fullmatch(r'\{ (ast::Literal::[A-Za-z0-9]+\(.*\)) \}', r)
            if bm:
                r = bm.group(1)
            g = normws(guard) if guard else None
            gk = None
            if ck == "Enum":
                arm, gk = ".enumLookup", "always"
            elif r.startswith("panic!"):
                arm, gk = ".panics", "always" if g is None else None
            elif re.fullmatch(r'return Err\(GenerateError::([A-Za-z0-9]+)\)', r):
                # since fixes 6017bad / 9824ce3: an IntLiteral beyond +-u64::MAX is `Err(GenerateError::IntLiteralOutOfRange)`,
                # a Float64 constant `Err(GenerateError::UnsupportedDouble)` — the export is refused, nothing panics
                em = re.fullmatch(r'return Err\(GenerateError::([A-Za-z0-9]+)\)', r)
                arm, gk = f".errs {lean_str(em.group(1))}", "always" if g is None else None
            else:
                m = re.fullmatch(r'ast::Literal::([A-Za-z0-9]+)\((.*)\)', r)
                mneg = re.search(r'return Ok\(ast::Expression::UnaryOperation\( ast::UnaryOp::Minus, Box::new\(Located::none\('
                                 r'ast::Expression::Literal\( ast::Literal::([A-Za-z0-9]+)\((-v as u64|u64::from\(v\.unsigned_abs\(\)\))\), \)\)\), \)\);', r)
                if m and m.group(1) in lits:
                    inner = m.group(2)
                    if inner == "v":
                        arm = f".plain .{m.group(1)}"
                    elif inner in ("v as u64", "u64::from(v)"):
                        arm = f".widen .{m.group(1)}"
                    else:
                        raise ExtractError(f"msl generate_literal: literal payload {inner!r}")
                elif mneg and mneg.group(1) in lits:
                    arm = (".negMinus" if mneg.group(2) == "-v as u64" else ".negMinusAbs") + f" .{mneg.group(1)}"
                else:
                    raise ExtractError(f"msl generate_literal: result {r[:80]!r} unsupported")
            if gk is None:
                if g is None:
                    gk = "always"
                elif g == "v < 0":
                    gk = "neg"
                elif g == "v < 0 && -v <= u64::MAX as i128":
                    gk = "negFitsU64"
                elif g == "v >= 0 && v <= u64::MAX as i128":
                    gk = "nonnegFitsU64"
                else:
                    raise ExtractError(f"msl generate_literal: guard {g!r} unsupported")
            rows.append((ck, gk, arm))
        out.append("/-- arms of `match *literal` in the Metal generate_literal, in source order (first match wins) -/\n"
                   "def mslLiteralArms : List (ConstKind × LitGuard × LitArm) :=\n  " +
                   T.lean_list(f"(.{c}, .{g}, {a})" for c, g, a in rows) + "\n\n")

        # ---------------------------------------------------------------- generate_expression arms
        ebody = fn_body(gm, "generate_expression")
        _, earms, _ = first_match(ebody, r'^expr$')
        facts = {"mslSequenceAsModelled": False, "mslCastAsModelled": False, "mslTernaryInOrder": False,
                 "mslVariableIsLeafName": False, "mslGlobalIsName": False, "mslCallDispatch": False, "mslLiteralArm": False}
        for pats, guard, result in match_arms(earms):
            r = normws(result)
            if pats == ["ir::Expression::Sequence(exprs)"]:
                facts["mslSequenceAsModelled"] = r == (
                    "{ assert!(exprs.len() >= 2); let (last, front) = exprs.split_last().unwrap(); "
                    "let mut end = generate_expression(last, context)?; for expr in front.iter().rev() { "
                    "let expr = generate_expression(expr, context)?; end = ast::Expression::BinaryOperation( ast::BinOp::Sequence, "
                    "Box::new(Located::none(expr)), Box::new(Located::none(end)), ) } end }")
            elif pats == ["ir::Expression::Cast(type_id, expr)"]:
                facts["mslCastAsModelled"] = all(x in r for x in [
                    "let to_literal = matches!( unmod_tyl, ir::TypeLayer::Scalar(ir::ScalarType::IntLiteral) | ir::TypeLayer::Scalar(ir::ScalarType::FloatLiteral) );",
                    "let inner = generate_expression(expr, context)?; let to_struct = matches!(unmod_tyl, ir::TypeLayer::Struct(_)); if to_struct {",
                    "} else if !to_literal { fn try_implicit_truncate(",
                    "match input_tyl { ir::TypeLayer::Vector(_, in_dim) => {",
                    "_ => expr, } } let inner = try_implicit_truncate(input_tyl, unmod_tyl, inner); let ty = generate_type_id(*type_id, context)?; "
                    "ast::Expression::Cast(Box::new(ty), Box::new(Located::none(inner))) } else { inner } }"])
            elif pats == ["ir::Expression::TernaryConditional(expr_cond, expr_true, expr_false)"]:
                facts["mslTernaryInOrder"] = r == (
                    "{ let expr_cond = generate_expression(expr_cond, context)?; let expr_true = generate_expression(expr_true, context)?; "
                    "let expr_false = generate_expression(expr_false, context)?; let expr_cond = Box::new(Located::none(expr_cond)); "
                    "let expr_true = Box::new(Located::none(expr_true)); let expr_false = Box::new(Located::none(expr_false)); "
                    "ast::Expression::TernaryConditional(expr_cond, expr_true, expr_false) }")
            elif pats == ["ir::Expression::Variable(v)"]:
                facts["mslVariableIsLeafName"] = r == "ast::Expression::Identifier(ast::ScopedIdentifier::trivial( context.get_variable_name(*v)?, ))"
            elif pats == ["ir::Expression::Global(v)"]:
                facts["mslGlobalIsName"] = r.endswith(
                    "} else { match context.global_variable_modes.get(v) { Some(GlobalMode::Constant) => ast::Expression::Identifier( "
                    "scoped_name_to_identifier(context.get_global_name_full(*v)?), ), _ => ast::Expression::Identifier(ast::ScopedIdentifier::trivial( "
                    "context.get_global_name(*v)?, )), } } }") and r.startswith("{ let def = &context.module.global_registry[v.0 as usize]; if def.is_intrinsic {")
            elif pats == ["ir::Expression::Call(id, ct, exprs)"]:
                facts["mslCallDispatch"] = r.endswith(
                    "if let Some(intrinsic) = context.module.function_registry.get_intrinsic_data(*id) { "
                    "generate_intrinsic_function(intrinsic, tys, exprs, context)? } else { generate_user_call(*id, ct, tys, exprs, context)? } }")
            elif pats == ["ir::Expression::Literal(lit)"]:
                facts["mslLiteralArm"] = r == "generate_literal(lit, context)?"
        for k, v in facts.items():
            out.append(f"def {k} : Bool := {lb(v)}\n")
        guc = normws(fn_body(gm, "generate_user_call"))
        user_call = all(x in guc for x in [
            "ir::CallType::FreeFunction => { let scoped_name = context.get_function_name_full(id)?; "
            "let object = ast::Expression::Identifier(scoped_name_to_identifier(scoped_name)); (object, exprs.as_slice()) }",
            "let type_args = generate_template_type_args(tys, context)?; let mut args = generate_invocation_args(arguments, context)?;",
            "append_arguments_for_globals(&mut args, id, context); let expr = ast::Expression::Call(Box::new(Located::none(object)), type_args, args); Ok(expr)"])
        out.append("/-- generate_user_call (free function): Call(name, no type arguments, user arguments in order ++ defaults ++ the\n"
                   "callee's arguments for globals) -/\n"
                   f"def mslUserCallAsModelled : Bool := {lb(user_call)}\n\n")

        # ---------------------------------------------------------------- statements
        sb = normws(fn_body(gm, "generate_scope_block"))
        scope_ok = sb == (
            "let mut statements = Vec::new(); for statement in &block.0 { let statement = generate_statement(statement, context)?; "
            "if let Some(ast::Statement { kind: ast::StatementKind::CaseLabel(_, current) | ast::StatementKind::DefaultLabel(current), .. }) "
            "= statements.last_mut() && let ast::Statement { kind: ast::StatementKind::Empty, .. } = **current "
            "{ **current = statement; continue; } statements.push(statement); } Ok(statements)")
        out.append(f"def mslScopeBlockAsModelled : Bool := {lb(scope_ok)}\n")
        gs = fn_body(gm, "generate_statement")
        _, sarms, _ = first_match(gs, r'^&statement\.kind$')
        blk = ("Box::new(ast::Statement { kind: ast::StatementKind::Block(%s), location: SourceLocation::UNKNOWN, attributes: Vec::new(), })")
        expected = {
            "ir::StatementKind::Expression(expr)": "{ let expr = generate_expression(expr, context)?; ast::StatementKind::Expression(expr) }",
            "ir::StatementKind::Var(def)": "{ let def = generate_variable_definition(def, context)?; ast::StatementKind::Var(def) }",
            "ir::StatementKind::Block(block)": "{ let statements = generate_scope_block(block, context)?; ast::StatementKind::Block(statements) }",
            "ir::StatementKind::If(cond, block)": "{ let cond = generate_expression(cond, context)?; let block = generate_scope_block(block, context)?; "
                "let cond = Located::none(cond); let block = " + blk % "block" + "; ast::StatementKind::If(cond, block) }",
            "ir::StatementKind::IfElse(cond, block_true, block_false)": "{ let cond = generate_expression(cond, context)?; "
                "let block_true = generate_scope_block(block_true, context)?; let block_false = generate_scope_block(block_false, context)?; "
                "let cond = Located::none(cond); let block_true = " + blk % "block_true" + "; let block_false = " + blk % "block_false" +
                "; ast::StatementKind::IfElse(cond, block_true, block_false) }",
            "ir::StatementKind::For(init, cond, inc, block)": "{ let init = generate_for_init(init, context)?; let cond = match cond { "
                "Some(cond) => Some(Located::none(generate_expression(cond, context)?)), None => None, }; let inc = match inc { "
                "Some(inc) => Some(Located::none(generate_expression(inc, context)?)), None => None, }; "
                "let block = generate_scope_block(block, context)?; let block = " + blk % "block" + "; ast::StatementKind::For(init, cond, inc, block) }",
            "ir::StatementKind::While(cond, block)": "{ let cond = generate_expression(cond, context)?; let block = generate_scope_block(block, context)?; "
                "let cond = Located::none(cond); let block = " + blk % "block" + "; ast::StatementKind::While(cond, block) }",
            "ir::StatementKind::DoWhile(block, cond)": "{ let block = generate_scope_block(block, context)?; let cond = generate_expression(cond, context)?; "
                "let cond = Located::none(cond); let block = " + blk % "block" + "; ast::StatementKind::DoWhile(block, cond) }",
            "ir::StatementKind::Switch(cond, block)": "{ let cond = generate_expression(cond, context)?; let block = generate_scope_block(block, context)?; "
                "let cond = Located::none(cond); let block = " + blk % "block" + "; ast::StatementKind::Switch(cond, block) }",
            "ir::StatementKind::Break": "ast::StatementKind::Break",
            "ir::StatementKind::Continue": "ast::StatementKind::Continue",
            "ir::StatementKind::Return(expr_opt)": "{ if let Some(expr) = expr_opt { let expr = generate_expression(expr, context)?; "
                "ast::StatementKind::Return(Some(Located::none(expr))) } else { ast::StatementKind::Return(None) } }",
            "ir::StatementKind::CaseLabel(value)": "{ let expr = generate_literal(value, context)?; let empty_statement = Box::new(ast::Statement { "
                "kind: ast::StatementKind::Empty, location: SourceLocation::UNKNOWN, attributes: Vec::new(), }); "
                "ast::StatementKind::CaseLabel(Located::none(expr), empty_statement) }",
            "ir::StatementKind::DefaultLabel": "{ let empty_statement = Box::new(ast::Statement { kind: ast::StatementKind::Empty, "
                "location: SourceLocation::UNKNOWN, attributes: Vec::new(), }); ast::StatementKind::DefaultLabel(empty_statement) }",
        }
        got = {pats[0]: normws(result) for pats, guard, result in match_arms(sarms) if len(pats) == 1 and guard is None}
        bad = [k for k, v in expected.items() if got.get(k) != v]
        out.append("/-- every statement arm of the Metal generate_statement that the model mirrors has exactly the modelled text\n"
                   f"(differing arms: {bad}) -/\n"
                   f"def mslStatementArmsAsModelled : Bool := {lb(not bad)}\n")
        gvd = normws(fn_body(gm, "generate_variable_definition")) == (
            "let var_def = context.module.variable_registry.get_local_variable(def.id); let storage_modifier = match var_def.storage_class { "
            "ir::LocalStorage::Local => None, ir::LocalStorage::Static => Some(ast::TypeModifier::Static), }; "
            "if var_def.precise { return Err(GenerateError::UnsupportedPrecise); }; let name = context.get_variable_name(def.id)?.to_string(); "
            "let (base, declarator) = generate_type_and_declarator(var_def.type_id, &name, false, context)?; "
            "let local_type = prepend_modifiers(base, &[storage_modifier]); let init = generate_initializer(&def.init, var_def.type_id, context)?; "
            "let init_declarator = ast::InitDeclarator { declarator, location_annotations: Vec::new(), init, }; "
            "let def = ast::VarDef { local_type, defs: Vec::from([init_declarator]), }; Ok(def)")
        gfi_ = normws(fn_body(gm, "generate_for_init")) == (
            "let ast = match init { ir::ForInit::Empty => ast::InitStatement::Empty, ir::ForInit::Expression(expr) => { "
            "ast::InitStatement::Expression(Located::none(generate_expression(expr, context)?)) } ir::ForInit::Definitions(defs) => { "
            "let (head, tail) = defs.split_first().unwrap(); let mut ast = generate_variable_definition(head, context)?; "
            "assert_eq!(ast.defs.len(), 1); for def in tail { let mut tail_ast = generate_variable_definition(def, context)?; "
            "if ast.local_type != tail_ast.local_type { return Err(GenerateError::ComplexTypeBind); } assert_eq!(tail_ast.defs.len(), 1); "
            "ast.defs.append(&mut tail_ast.defs); } "
            "ast::InitStatement::Declaration(ast) } }; Ok(ast)")
        out.append(f"def mslVariableDefinitionAsModelled : Bool := {lb(gvd)}\n"
                   f"def mslForInitAsModelled : Bool := {lb(gfi_)}\n\n")

        # ---------------------------------------------------------------- generate_scalar_type
        sbody = fn_body(gm, "generate_scalar_type")
        _, sarms2, _ = first_match(sbody, r'^ty$')
        names = []
        for pats, guard, result in match_arms(sarms2):
            pm = re.fullmatch(r'ir::ScalarType::([A-Za-z0-9]+)', pats[0])
            if not pm:
                raise ExtractError(f"msl generate_scalar_type: pattern {pats[0]!r}")
            sm = re.fullmatch(r'"([a-z0-9_]+)"', result)
            if sm:
                names.append((pm.group(1), "some (some " + lean_str(sm.group(1)) + ")"))
            elif result.startswith("panic!"):
                names.append((pm.group(1), "some none"))
            elif result.startswith("return Err("):
                names.append((pm.group(1), "none"))
            else:
                raise ExtractError(f"msl generate_scalar_type: result {result!r}")
        out.append("/-- Metal generate_scalar_type: scalar ↦ type name; `some none` = the arm panics, `none` = a diagnostic (Err) -/\n"
                   "def mslScalarTypeName : List (String × Option (Option String)) :=\n  " +
                   T.lean_list(f"({lean_str(a)}, {b})" for a, b in names) + "\n\n")

        # ---------------------------------------------------------------- functions, parameters, trampoline
        gfp = normws(fn_body(gm, "generate_function_param"))
        ref_param = ("let is_reference = matches!( param.param_type.input_modifier, ir::InputModifier::Out | ir::InputModifier::InOut ); "
                     "if is_reference { param_type .modifiers .prepend(Located::none(ast::TypeModifier::AddressSpace( ast::AddressSpace::Thread, ))); "
                     "declarator = declarator.insert_base(|base| { ast::Declarator::Reference(ast::ReferenceDeclarator { attributes: Vec::new(), "
                     "inner: Box::new(base), }) }); }") in gfp
        out.append("/-- generate_function_param: an out / inout parameter becomes `thread T& name`, an in parameter `T name` -/\n"
                   f"def outParamsAreThreadReferences : Bool := {lb(ref_param)}\n")
        m = re.search(r'pub const STAGE_OUTPUT_NAME_LOCAL: &str = "([A-Za-z_0-9]+)";', names_rs)
        if not m:
            raise ExtractError("names.rs: STAGE_OUTPUT_NAME_LOCAL")
        out.append(f"def trampolineResultName : String := {lean_str(m.group(1))}\n")
        tb = normws(fn_body(gm, "generate_function_out_trampoline_body"))
        pm = re.search(r'let local_name = format!\("([^"{}]*)\{\}", input_name\);', tb)
        if not pm:
            raise ExtractError("trampoline: local name format")
        out.append(f"def trampolineLocalPrefix : String := {lean_str(pm.group(1))}\n")
        tramp_expected = (
            'let needs_return = !context .module .type_registry .is_void(sig.return_type.return_type); let mut statements = Vec::new(); '
            'let mut statements_after = Vec::new(); let mut params = Vec::new(); for param in &decl.params { '
            'let input_name = context.get_variable_name(param.id)?.to_string(); if param.param_type.input_modifier != ir::InputModifier::In { '
            'let local_name = format!("' + pm.group(1) + '{}", input_name); let (ty, declarator) = generate_type_and_declarator( param.param_type.type_id, &local_name, false, context, )?; '
            'statements.push(ast::Statement { kind: ast::StatementKind::Var(ast::VarDef { local_type: ty, defs: Vec::from([ast::InitDeclarator { '
            'declarator, location_annotations: Vec::new(), init: if param.param_type.input_modifier == ir::InputModifier::InOut { '
            'Some(ast::Initializer::Expression(Located::none( ast::Expression::Identifier(ast::ScopedIdentifier::trivial( &input_name, )), ))) } '
            'else { None }, }]), }), location: SourceLocation::UNKNOWN, attributes: Vec::new(), }); '
            'statements_after.push(ast::Statement { kind: ast::StatementKind::Expression(ast::Expression::BinaryOperation( ast::BinOp::Assignment, '
            'Box::new(Located::none(ast::Expression::Identifier( ast::ScopedIdentifier::trivial(&input_name), ))), '
            'Box::new(Located::none(ast::Expression::Identifier( ast::ScopedIdentifier::trivial(&local_name), ))), )), '
            'location: SourceLocation::UNKNOWN, attributes: Vec::new(), }); params.push(Located::none(ast::Expression::Identifier( '
            'ast::ScopedIdentifier::trivial(&local_name), ))); } else { params.push(Located::none(ast::Expression::Identifier( '
            'ast::ScopedIdentifier::trivial(&input_name), ))); } } { params.push(Located::none(ast::Expression::Call( '
            'Box::new(Located::none(ast::Expression::Identifier( metal_lib_identifier("true_type"), ))), Vec::new(), Vec::new(), ))); } '
            'append_arguments_for_globals(&mut params, id, context); { let expr = ast::Expression::Call( '
            'Box::new(Located::none(ast::Expression::Identifier( ast::ScopedIdentifier::trivial(name), ))), Vec::new(), params, ); '
            'statements.push(ast::Statement { kind: if needs_return { ast::StatementKind::Var(ast::VarDef::one_with_expr( '
            'Located::none(String::from(STAGE_OUTPUT_NAME_LOCAL)), return_type.clone(), Located::none(expr), )) } else { '
            'ast::StatementKind::Expression(expr) }, location: SourceLocation::UNKNOWN, attributes: Vec::new(), }); } '
            'statements.extend(statements_after); if needs_return { statements.push(ast::Statement { '
            'kind: ast::StatementKind::Return(Some(Located::none(ast::Expression::Identifier( ast::ScopedIdentifier::trivial(STAGE_OUTPUT_NAME_LOCAL), )))), '
            'location: SourceLocation::UNKNOWN, attributes: Vec::new(), }); } Ok(statements)')
        out.append("/-- generate_function_out_trampoline_body has exactly the text `Model.GenMsl.trampolineBody` mirrors: one local per out/inout\n"
                   "parameter (initialised from the parameter only for inout), the call of the same name with the locals, `metal::true_type()`\n"
                   "and the arguments for globals, the copies back in parameter order, `return` of the saved result -/\n"
                   f"def trampolineBodyAsModelled : Bool := {lb(tb == tramp_expected)}\n")
        gft = normws(fn_body(gm, "generate_function_and_trampoline"))
        emit_order = gft.endswith(
            "if !needs_trampoline || !only_declare { functions.push(generate_function_inner( id, only_declare, needs_trampoline, false, context, )?); } "
            "if needs_trampoline { functions.push(generate_function_inner( id, only_declare, false, true, context, )?); } Ok(())")
        out.append("/-- the trampoline target (extra `metal::true_type` parameter) is emitted first, then the trampoline under the same name -/\n"
                   f"def targetThenTrampoline : Bool := {lb(emit_order)}\n")
        gfi = normws(fn_body(gm, "generate_function_inner"))
        body_sel = ("let body = if only_declare { None } else if out_trampoline { Some(generate_function_out_trampoline_body( &name, id, sig, decl, "
                    "&return_type, context, )?) } else { let mut statements = Vec::new(); for statement in &decl.scope_block.0 { "
                    "statements.push(generate_statement(statement, context)?); } Some(statements) };") in gfi
        out.append("/-- generate_function_inner: the body is the trampoline body or the statements of the source body, one by one\n"
                   "(not through generate_scope_block: a label at function level keeps its empty statement) -/\n"
                   f"def functionBodyAsModelled : Bool := {lb(body_sel)}\n")
        tag_param = ('if trampoline_target { params.push(ast::FunctionParam { param_type: ast::Type::from(metal_lib_identifier("true_type")), '
                     "declarator: ast::Declarator::Empty, location_annotations: Vec::new(), default_expr: None, }) }") in gfi
        out.append(f"def tagParameterAsModelled : Bool := {lb(tag_param)}\n")
        out.append(T.footer("MslGenTables"))
        return "".join(out)

    @gen("MslVecTables")
    def msl_vec_tables():
        """shape-changing arms of the Metal generate_expression (Swizzle on vectors and on scalars, Constructor, the
        non-struct half of Cast with try_implicit_truncate), the Vector / Matrix arms of generate_type_impl, the matrix arms
        of generate_intrinsic_function (mul, transpose) and the rejection of matrix subscripts / matrix swizzles: what
        Model/GenMslVec.lean mirrors.  `SwizzleSlot` is the enum of Gen.HlslVecTables (same ir:: type)."""
        from rustsrc import ExtractError, fn_body, first_match, match_arms, enum_variants, normws, lean_str, matching
        gm = T.src("msl/src/generator.rs")
        expr_rs = T.src("ir/src/ir_expressions.rs")
        hdr = T.header("MslVecTables", ["msl/src/generator.rs", "ir/src/ir_expressions.rs"])
        first, rest = hdr.split("\n", 1)
        out = [first + "\nimport RsslVerif.Gen.HlslVecTables\n" + rest + "open RsslVerif.Gen.HlslVecTables\n\n"]

        def lb(b):
            return "true" if b else "false"

        slots = [v for v, payload in enum_variants(expr_rs, "SwizzleSlot")]
        ebody = fn_body(gm, "generate_expression")
        _, earms, _ = first_match(ebody, r'^expr$')
        facts = {"mslSwizzleArmAsModelled": False, "mslConstructorArmAsModelled": False, "mslCastHeadAsModelled": False,
                 "mslCastTruncatesThenCasts": False, "matrixSwizzleRejected": False, "matrixSubscriptRejected": False}
        chars = {}
        trunc = {}
        for pats, guard, result in match_arms(earms):
            r = normws(result)
            if pats == ["ir::Expression::Swizzle(expr_object, swizzle)"]:
                m = re.fullmatch(
                    r'\{ let object_ty = match expr_object\.get_type\(context\.module\) \{ Ok\(ty\) => context\.module\.type_registry\.remove_modifier\(ty\.0\), '
                    r'Err\(_\) => return Err\(GenerateError::InvalidModule\), \}; let object_tyl = context\.module\.type_registry\.get_type_layer\(object_ty\); '
                    r'let object = generate_expression\(expr_object, context\)\?; match object_tyl \{ ir::TypeLayer::Scalar\(st\) => \{ '
                    r'let output_size = swizzle\.len\(\); for channel in swizzle \{ assert_eq!\(\*channel, ir::SwizzleSlot::X\); \} '
                    r'if output_size == 1 \{ object \} else \{ let output_ty = \{ let st = match st \{ '
                    r'ir::ScalarType::IntLiteral => ir::ScalarType::Int32, ir::ScalarType::FloatLiteral => ir::ScalarType::Float32, st => st, \}; '
                    r'let inner = context \.module \.type_registry \.register_type\(ir::TypeLayer::Scalar\(st\)\); '
                    r'context \.module \.type_registry \.register_type\(ir::TypeLayer::Vector\(inner, output_size as u32\)\) \}; '
                    r'let ty = generate_type\(output_ty, context\)\?; assert_eq!\(ty\.layout\.1\.len\(\), 0\); assert!\(ty\.modifiers\.modifiers\.is_empty\(\)\); '
                    r'ast::Expression::Call\( Box::new\(Located::none\(ast::Expression::Identifier\(ty\.layout\.0\)\)\), Vec::new\(\), '
                    r'Vec::from\(\[Located::none\(object\)\]\), \) \} \} ir::TypeLayer::Vector\(_, _\) => \{ let member = \{ let mut member = String::new\(\); '
                    r'for channel in swizzle \{ match channel \{ (.*?),? \} \} ast::ScopedIdentifier::trivial\(&member\) \}; '
                    r'ast::Expression::Member\(Box::new\(Located::none\(object\)\), member\) \} _ => return Err\(GenerateError::InvalidModule\), \} \}', r)
                if m:
                    ok = True
                    for arm in [x.strip() for x in m.group(1).split(",") if x.strip()]:
                        am = re.fullmatch(r"ir::SwizzleSlot::([A-Za-z]+) => member\.push\('([a-z])'\)", arm)
                        if not am or am.group(1) not in slots or am.group(1) in chars:
                            ok = False
                            break
                        chars[am.group(1)] = am.group(2)
                    facts["mslSwizzleArmAsModelled"] = ok and sorted(chars) == sorted(slots)
            elif pats == ["ir::Expression::Constructor(type_id, args)"]:
                facts["mslConstructorArmAsModelled"] = r == (
                    '{ let unmodified_id = context.module.type_registry.remove_modifier(*type_id); '
                    'let ty = generate_type(unmodified_id, context)?; assert!(ty.modifiers.modifiers.is_empty()); '
                    'let name = ast::Expression::Identifier(ty.layout.0); let name = Box::new(Located::none(name)); '
                    'let mut ast_args = Vec::new(); for slot in args { ast_args.push(Located::none(generate_expression(&slot.expr, context)?)); } '
                    'ast::Expression::Call(name, ty.layout.1.to_vec(), ast_args) }')
            elif pats == ["ir::Expression::MatrixSwizzle(_, _)"]:
                facts["matrixSwizzleRejected"] = r == '{ return Err(GenerateError::UnimplementedMatrixSwizzle); }'
            elif pats == ["ir::Expression::ArraySubscript(expr_object, expr_index)"]:
                facts["matrixSubscriptRejected"] = r.startswith(
                    '{ let type_id = match expr_object.get_type(context.module) { Ok(ty) => context.module.type_registry.remove_modifier(ty.0), '
                    'Err(_) => return Err(GenerateError::InvalidModule), }; let tyl = context.module.type_registry.get_type_layer(type_id); '
                    'if let ir::TypeLayer::Matrix(_, _, _) = tyl { return Err(GenerateError::UnimplementedMatrixIndex); }')
            elif pats == ["ir::Expression::Cast(type_id, expr)"]:
                head = ('{ let unmod_id = context.module.type_registry.remove_modifier(*type_id); '
                        'let unmod_tyl = context.module.type_registry.get_type_layer(unmod_id); '
                        'let input_ety = expr.get_type(context.module)?; let input_ty = context.module.type_registry.remove_modifier(input_ety.0); '
                        'let input_tyl = context.module.type_registry.get_type_layer(input_ty); let to_literal = matches!( unmod_tyl, '
                        'ir::TypeLayer::Scalar(ir::ScalarType::IntLiteral) | ir::TypeLayer::Scalar(ir::ScalarType::FloatLiteral) ); '
                        'let inner = generate_expression(expr, context)?; let to_struct = matches!(unmod_tyl, ir::TypeLayer::Struct(_)); if to_struct {')
                # one generate_expression on the arm's operand; the only other call sits in the struct half (per-element conversion
                # since fix 5d2f434, pinned by Gen.MslDupSites)
                si = r.find("if to_struct {")
                sj = matching(r, si + len("if to_struct ")) if si >= 0 else -1
                facts["mslCastHeadAsModelled"] = r.startswith(head) and si >= 0 and \
                    (r[:si] + r[sj + 1:]).count("generate_expression(") == 1 and r[si:sj + 1].count("generate_expression(") == 1
                tm = re.search(
                    r'\} else if !to_literal \{ fn try_implicit_truncate\( input_tyl: ir::TypeLayer, unmod_tyl: ir::TypeLayer, expr: ast::Expression, \) '
                    r'-> ast::Expression \{ match input_tyl \{ ir::TypeLayer::Vector\(_, in_dim\) => \{ let swizzle = match unmod_tyl \{ '
                    r'ir::TypeLayer::Scalar\(_\) \| ir::TypeLayer::Vector\(_, 1\) if 1 < in_dim => \{ "([a-z]+)" \} '
                    r'ir::TypeLayer::Vector\(_, 2\) if 2 < in_dim => "([a-z]+)", '
                    r'ir::TypeLayer::Vector\(_, 3\) if 3 < in_dim => "([a-z]+)", _ => return expr, \}; ast::Expression::Member\( '
                    r'Box::new\(Located::none\(expr\)\), ast::ScopedIdentifier::trivial\(swizzle\), \) \} _ => expr, \} \} '
                    r'let inner = try_implicit_truncate\(input_tyl, unmod_tyl, inner\); let ty = generate_type_id\(\*type_id, context\)\?; '
                    r'ast::Expression::Cast\(Box::new\(ty\), Box::new\(Located::none\(inner\)\)\) \} else \{ inner \} \}$', r)
                if tm:
                    trunc = {"scalar": tm.group(1), "vec2": tm.group(2), "vec3": tm.group(3)}
                    facts["mslCastTruncatesThenCasts"] = True
        if sorted(chars) != sorted(slots):
            raise ExtractError(f"msl generate_expression: Swizzle arm does not give one letter per SwizzleSlot ({chars})")
        if not trunc:
            raise ExtractError("msl generate_expression: Cast arm: try_implicit_truncate not in the expected shape")
        out.append("/-- letter pushed for each channel by the vector half of the Swizzle arm -/\ndef mslSwizzleChar : SwizzleSlot → Char\n" +
                   "".join(f"  | .{s} => '{chars[s]}'\n" for s in slots) + "\n")
        out.append("/-- `try_implicit_truncate`: the member selected from a vector operand of more than one component before a cast to a\n"
                   "scalar or to a one-component vector (a scalar on Metal; since fix b6f2da1 — the pinned text has the guard `1 < in_dim`\n"
                   "on both alternatives) / to a 2-vector from a longer one / to a 3-vector from a longer one (Metal has no vector → scalar /\n"
                   "vector → shorter vector conversion) -/\n"
                   f"def truncateToScalar : String := {lean_str(trunc['scalar'])}\n"
                   f"def truncateToVec2 : String := {lean_str(trunc['vec2'])}\n"
                   f"def truncateToVec3 : String := {lean_str(trunc['vec3'])}\n\n")
        # generate_type_impl: Vector / Matrix arms
        tbody = fn_body(gm, "generate_type_impl")
        _, tarms, _ = first_match(tbody, r'^tyl$')
        vec_ok = False
        mat_ok = False
        for pats, guard, result in match_arms(tarms):
            r = normws(result)
            if pats == ["ir::TypeLayer::Vector(st, x)"]:
                vec_ok = r == ('{ let (mut base, inner_declarator) = generate_type_impl(st, declarator, false, context)?; '
                               'declarator = inner_declarator; assert!(base.layout.0.identifiers.len() == 1); '
                               'if x != 1 { base.layout.0.identifiers[0].node += &format!("{x}"); } base }')
            elif pats == ["ir::TypeLayer::Matrix(st, x, y)"]:
                mat_ok = r == ('{ let base_name = match context.module.type_registry.get_type_layer(st) { '
                               'ir::TypeLayer::Scalar(ir::ScalarType::Float16) => "half", ir::TypeLayer::Scalar(ir::ScalarType::Float32) => "float", '
                               '_ => return Err(GenerateError::UnsupportedNonFloatMatrix), }; if x == 1 || y == 1 { return Err(GenerateError::UnsupportedUnitMatrix); } '
                               'let name = format!("{base_name}{y}x{x}"); let mut type_name = ast::Type::trivial(&name); '
                               'type_name .layout .0 .identifiers .insert(0, Located::none("metal".to_string())); type_name }')
        facts["vectorTypeNameAppendsDimUnlessOne"] = vec_ok
        facts["matrixTypeNameSwapsDims"] = mat_ok
        # generate_intrinsic_function: mul / transpose
        ibody = fn_body(gm, "generate_intrinsic_function")
        _, iarms, _ = first_match(ibody, r'^&?\s*intrinsic$')
        mul_ok = False
        tr_ok = False
        for pats, guard, result in match_arms(iarms):
            r = normws(result)
            if pats == ["Mul"]:
                mul_ok = r == ('{ assert_eq!(exprs.len(), 2); let left = generate_expression(&exprs[0], context)?; '
                               'let right = generate_expression(&exprs[1], context)?; let ast = ast::Expression::BinaryOperation( '
                               'ast::BinOp::Multiply, Box::new(Located::none(left)), Box::new(Located::none(right)), ); Ok(ast) }')
            elif pats == ["Transpose"]:
                tr_ok = r == 'invoke_simple("transpose", context)'
        facts["mulIsMultiplyInOrder"] = mul_ok
        facts["transposeIsTranspose"] = tr_ok
        for k, v in facts.items():
            out.append(f"def {k} : Bool := {lb(v)}\n")
        out.append(T.footer("MslVecTables"))
        return "".join(out)

    @gen("MslCallTables")
    def msl_call_tables():
        """`generate_user_call` per CallType: which operands of the IR call are ARGUMENTS (for MethodExternal operand 0 is the
        object) and from which parameter on the default values of left-out arguments are filled in (`.skip(n)` over the
        callee's parameters).  Both are written down relative to the operand list `exprs`: `argStart` = index of the first
        operand that is an argument, `skipOff` = n is `exprs.len() - skipOff`.  The code is right when the two agree in every
        arm (the parameters that are skipped are exactly the ones that received an argument).  The extractor reads the direct
        form (`let (object, arguments) = match ct { .. (object, <slice>) .. }` + `.skip(arguments.len())`) and the form with the
        argument list generated inside the arms and / or the fill loop in a helper function that receives the count."""
        from rustsrc import ExtractError, fn_body, first_match, match_arms, normws, lean_str
        gm = T.src("msl/src/generator.rs")
        out = [T.header("MslCallTables", ["msl/src/generator.rs"])]

        def lb(b):
            return "true" if b else "false"

        body = fn_body(gm, "generate_user_call")
        nb = normws(body)
        _, arms_text, _ = first_match(body, r'^ct$')
        SLICE = r'(exprs\.as_slice\(\)|&exprs\[(\d+)\.\.\]|&exprs\[\.\.\]|exprs)'
        arms = []
        tuple_bound = None
        mb = re.search(r'let \((?:mut )?(\w+), (?:mut )?(\w+)\) = match ct \{', nb)
        if not mb:
            raise ExtractError("generate_user_call: no `let (object, arguments) = match ct`")
        second = mb.group(2)
        object_ok = True
        for pats, guard, result in match_arms(arms_text):
            if guard or len(pats) != 1 or not re.fullmatch(r'ir::CallType::\w+', pats[0]):
                raise ExtractError(f"generate_user_call: arm {pats!r}")
            r = normws(result)
            tup = re.search(r'\((\w+), ' + SLICE + r'\) \}$', r)
            inv = re.findall(r'generate_invocation_args\(' + SLICE + r', context\)', r)
            if tup and not inv:
                start, kind = int(tup.group(3) or 0), "slice"
            elif len(inv) == 1 and not tup:
                start, kind = int(inv[0][1] or 0), "generated"
            else:
                raise ExtractError(f"generate_user_call: cannot tell which operands of arm {pats[0]} are arguments")
            if tuple_bound not in (None, kind):
                raise ExtractError("generate_user_call: arms bind different things")
            tuple_bound = kind
            if start > 0:
                object_ok = object_ok and start == 1 and "generate_expression(&exprs[0], context)?" in r
            arms.append((pats[0].split("::")[-1], start))
        if not arms:
            raise ExtractError("generate_user_call: no arms")
        # where the argument list is generated when the arms hand out the slice
        if tuple_bound == "slice":
            gen_pos = nb.find(f"let mut args = generate_invocation_args({second}, context)?;")
        else:
            gen_pos = nb.find("match ct {")
        # the fill loop: here or in a helper that receives the number of provided arguments
        fill_text = nb
        call_pos = None
        ms = re.search(r'decl\.params\.iter\(\)\.skip\(([^()]*(?:\(\))?[^()]*)\)', nb)
        if ms:
            skip_expr = ms.group(1).strip()
            call_pos = ms.start()
        else:
            mh = re.search(r'\b(\w+)\(&mut args, id, ([^,]+), context\)\??;', nb)
            if not mh:
                raise ExtractError("generate_user_call: no fill loop and no helper call")
            helper = mh.group(1)
            hsrc = gm
            hm = re.search(r'\bfn\s+' + helper + r'\s*\(([^)]*)\)', hsrc)
            if not hm:
                raise ExtractError(f"generate_user_call: helper {helper} not found")
            hparams = [x.strip().split(":")[0].strip() for x in hm.group(1).split(",") if x.strip()]
            if len(hparams) != 4:
                raise ExtractError(f"generate_user_call: helper {helper} has parameters {hparams}")
            fill_text = normws(fn_body(hsrc, helper))
            mk = re.search(r'decl\.params\.iter\(\)\.skip\((\w+)\)', fill_text)
            if not mk or mk.group(1) != hparams[2]:
                raise ExtractError(f"generate_user_call: helper {helper} does not skip its count parameter")
            skip_expr = mh.group(2).strip()
            call_pos = mh.start()

        def skip_off(start):
            if skip_expr == f"{second}.len()" and tuple_bound == "slice":
                return start
            if skip_expr == "args.len()":
                # the generated argument list: one per argument operand at this point
                return start
            if skip_expr == "exprs.len()":
                return 0
            mo = re.fullmatch(r'exprs\.len\(\) - (\d+)', skip_expr)
            if mo:
                return int(mo.group(1))
            raise ExtractError(f"generate_user_call: skip count {skip_expr!r}")

        rows = [(n, st, skip_off(st)) for n, st in arms]
        pushes = "if let Some(default_expr) = &param.default_expr { args.push(Located::none(generate_expression(default_expr, context)?)); }" in fill_text
        only_with_globals = bool(re.search(r'context \.function_required_globals \.get\(&id\) \.unwrap\(\) \.is_empty\(\)', fill_text))
        app_pos = nb.find("append_arguments_for_globals(&mut args, id, context);")
        end_pos = nb.find("ast::Expression::Call(Box::new(Located::none(object)), type_args, args)")
        order = -1 < gen_pos < call_pos < app_pos < end_pos and nb.count("args.push(") + fill_text.count("args.push(") <= 2
        out.append("/-- one arm of `match ct` in generate_user_call: call type, index of the first operand that is an argument, and the\n"
                   "    fill loop skips `exprs.len() - skipOff` parameters -/\n"
                   "structure CallArm where\n  name : String\n  argStart : Nat\n  skipOff : Nat\n  deriving DecidableEq, Repr\n\n")
        out.append("def userCallArms : List CallArm := [\n" + ",\n".join(f"  ⟨{lean_str(n)}, {a}, {k}⟩" for n, a, k in rows) + "\n]\n\n")
        out.append(f"/-- the count handed to `.skip(..)`, as written -/\ndef userCallSkipExpression : String := {lean_str(skip_expr)}\n\n")
        out.append("/-- where operands are skipped, operand 0 is generated as the object of the member call -/\n"
                   f"def userCallObjectIsOperand0 : Bool := {lb(object_ok)}\n")
        out.append("/-- arguments, then the fill loop, then append_arguments_for_globals, then the Call node; nothing else pushes -/\n"
                   f"def userCallOrderAsModelled : Bool := {lb(order)}\n")
        out.append("/-- the fill loop pushes the generated default of every remaining parameter that has one, nothing else -/\n"
                   f"def fillPushesDefaultsOnly : Bool := {lb(pushes)}\n")
        out.append("/-- the fill loop runs only when the callee receives parameters for globals -/\n"
                   f"def fillOnlyWithGlobals : Bool := {lb(only_with_globals)}\n")
        out.append(T.footer("MslCallTables"))
        return "".join(out)

    @gen("MslDupSites")
    def msl_dup_sites():
        """Where can the Metal back end write one IR operand more than once?  `ast::Expression` / `ir::Expression` are not
        `Copy`, so Rust's ownership rules leave three ways: (a) an explicit copy (`.clone()`, `.cloned()`, `.to_vec()`,
        `.to_owned()`, `vec![x; n]`, `repeat`) of a value that holds an expression, (b) running a generator twice on the
        same IR operand inside one arm, (c) text built by `format!` (the exporter builds a syntax tree, never text).  This
        inventory lists every copy site of the back end's files (a) and every arm that mentions the same generator call
        twice (b); Thm/C02Dup.lean holds the reviewed classification.  For the one site that repeats an operand — the
        struct half of the Cast arm — the guard is extracted as a table (constructor, which expression-typed fields the
        guard recurses into, which it ignores) together with the constructors of `ir::Expression` and their fields."""
        from rustsrc import ExtractError, fn_body, first_match, match_arms, enum_variants, normws, lean_str, matching, split_top
        import sys
        files = ["msl/src/generator.rs", "msl/src/generator/intrinsic_helpers.rs", "msl/src/generator/pipeline.rs", "msl/src/lib.rs",
                 "msl/src/simplify_resource_subscript.rs", "msl/src/rewrite_mesh_output.rs", "ir/src/simplify_cbuffers.rs"]
        out = [T.header("MslDupSites", files + ["ir/src/ir_expressions.rs"])]

        def lb(b):
            return "true" if b else "false"

        def fn_spans(text):
            """[(name, body start, body end)] of every `fn` with a body, nested ones included"""
            spans = []
            for m in re.finditer(r'\bfn\s+([A-Za-z_][A-Za-z0-9_]*)', text):
                i = m.end()
                while i < len(text):
                    c = text[i]
                    if c in '([':
                        i = matching(text, i) + 1
                        continue
                    if c == '<':
                        # generics: skip to the matching '>'
                        depth, j = 0, i
                        while j < len(text):
                            if text[j] == '<':
                                depth += 1
                            elif text[j] == '>' and text[j - 1] != '-':
                                depth -= 1
                                if depth == 0:
                                    break
                            j += 1
                        i = j + 1
                        continue
                    if c == '{':
                        spans.append((m.group(1), i, matching(text, i)))
                        break
                    if c == ';':
                        break
                    i += 1
            return spans

        def enclosing_fn(spans, pos):
            best = None
            for name, a, b in spans:
                if a <= pos <= b and (best is None or a > best[1]):
                    best = (name, a, b)
            return best

        def receiver(text, end):
            """the postfix expression that ends at `end` (exclusive): identifiers, paths, `.field`, `[..]`, `(..)`, leading `* &`"""
            i = end
            while i > 0:
                c = text[i - 1]
                if c.isalnum() or c in '_.:':
                    i -= 1
                elif c in ')]':
                    depth, j = 0, i - 1
                    while j >= 0:
                        if text[j] in ')]':
                            depth += 1
                        elif text[j] in '([':
                            depth -= 1
                            if depth == 0:
                                break
                        j -= 1
                    i = j
                elif c == '?':
                    i -= 1
                elif c.isspace() and text[i] == '.':
                    # a method chain broken over lines
                    while i > 0 and text[i - 1].isspace():
                        i -= 1
                else:
                    break
            while i > 0 and text[i - 1] in '*&':
                i -= 1
            return normws(text[i:end])

        copy_rx = re.compile(r'\.clone\(\)|\.cloned\(\)|\.to_vec\(\)|\.to_owned\(\)|\.clone_from\(|\bvec!\s*\[|\brepeat(?:_n)?\s*\(|\bClone::clone\s*\(|\.extend_from_slice\(|\.repeat\(')
        sites = []
        for rel in files:
            text = T.src(rel)
            spans = fn_spans(text)
            for m in copy_rx.finditer(text):
                tok = m.group(0)
                if tok.startswith('vec!'):
                    j = matching(text, m.end() - 1)
                    inner = text[m.end():j]
                    if len(split_top(inner, ';')) < 2:
                        continue          # vec![a, b, c]: a list, nothing repeated
                    what = "vec![" + normws(inner) + "]"
                elif tok.startswith('.'):
                    what = receiver(text, m.start()) + tok.rstrip('(') + ('(' if tok.endswith('(') and not tok.endswith('()') else '')
                else:
                    j = matching(text, m.end() - 1)
                    what = normws(text[m.start():j + 1])
                f = enclosing_fn(spans, m.start())
                sites.append((rel, f[0] if f else "-", re.sub(r'\s+\.', '.', what)))
        counted = {}
        for s_ in sites:
            counted[s_] = counted.get(s_, 0) + 1
        out.append("/-- one explicit copy in the Metal back end: file, innermost function, the copied expression, how often this text occurs there -/\n"
                   "structure CopySite where\n  file : String\n  fn : String\n  what : String\n  count : Nat\n  deriving DecidableEq, Repr\n\n")
        out.append("def copySites : List CopySite := [\n" + ",\n".join(
            f"  ⟨{lean_str(a)}, {lean_str(b)}, {lean_str(c)}, {n}⟩" for (a, b, c), n in sorted(counted.items())) + "\n]\n\n")

        # (b) the same generator call twice inside one arm (innermost `=> { … }` block or function body)
        gen_rx = re.compile(r'\bgenerate_(?:expression|invoke_simple|initializer|intrinsic_function|intrinsic_op|user_call)\s*\(')
        twice = {}
        for rel in ["msl/src/generator.rs", "msl/src/generator/intrinsic_helpers.rs", "msl/src/generator/pipeline.rs"]:
            text = T.src(rel)
            spans = fn_spans(text)
            # every `=> {` block
            arms = []
            for m in re.finditer(r'=>\s*\{', text):
                a = m.end() - 1
                arms.append((a, matching(text, a)))
            for m in gen_rx.finditer(text):
                f = enclosing_fn(spans, m.start())
                if not f or text[max(0, m.start() - 3):m.start()] == 'fn ':
                    continue
                j = matching(text, m.end() - 1)
                call = normws(text[m.start():j + 1])
                best = (f[1], f[2])
                for a, b in arms:
                    if best[0] < a <= m.start() <= b:
                        best = (a, b)
                # the head of the arm: the text before `=>` back to the previous `,` `{` or `}` at that level
                head = "-"
                if best != (f[1], f[2]):
                    k = text.rfind('=>', 0, best[0] + 1)
                    h = k
                    depth = 0
                    while h > 0:
                        c = text[h - 1]
                        if c in ')]':
                            depth += 1
                        elif c in '([':
                            depth -= 1
                        elif depth == 0 and c in ',{}':
                            break
                        h -= 1
                    head = normws(text[h:k])
                key = (rel, f[0], head, call, best[0])
                twice[key] = twice.get(key, 0) + 1
        rep = sorted((k[0], k[1], k[2], k[3], n) for k, n in twice.items() if n > 1)
        out.append("/-- arms of the exporter in which the text of one generator call occurs more than once: file, function, arm, call, count -/\n"
                   "def repeatedGeneratorCalls : List (String × String × String × String × Nat) := [\n" + ",\n".join(
                       f"  ({lean_str(a)}, {lean_str(b)}, {lean_str(c)}, {lean_str(d)}, {n})" for a, b, c, d, n in rep) + "\n]\n\n")
        # (c) text-building emission inside the expression generators
        gm = T.src("msl/src/generator.rs")
        ebody = fn_body(gm, "generate_expression")
        out.append("/-- `generate_expression` builds syntax-tree nodes only: the number of `format!` / `write!` in its body -/\n"
                   "def textBuildingInGenerateExpression : Nat := %d\n\n" % len(re.findall(r'\b(?:format|write|writeln)!', ebody)))

        # ---- constructors of ir::Expression and which of their fields hold expressions
        expr_rs = T.src("ir/src/ir_expressions.rs")
        variants = enum_variants(expr_rs, "Expression")
        slot = re.search(r'pub struct ConstructorSlot\s*\{([^}]*)\}', expr_rs)
        if not slot or not re.search(r'\bexpr\s*:\s*Expression\b', slot.group(1)):
            raise ExtractError("ConstructorSlot { expr: Expression } not found")
        vrows = []
        for name, payload in variants:
            fields = [normws(x) for x in split_top(payload.strip()[1:-1], ',') if x.strip()] if payload.strip().startswith('(') else []
            holds = [i for i, t in enumerate(fields) if re.search(r'\bExpression\b|\bConstructorSlot\b', t)]
            vrows.append((name, len(fields), holds))
        out.append("/-- a constructor of `ir::Expression`: name, number of fields, the fields that hold expressions (`Box<Expression>`,\n"
                   "`Vec<Expression>`, `Vec<ConstructorSlot>`) -/\n"
                   "structure Ctor where\n  name : String\n  arity : Nat\n  exprFields : List Nat\n  deriving DecidableEq, Repr\n\n")
        out.append("def irExpressionCtors : List Ctor := [\n" + ",\n".join(
            f"  ⟨{lean_str(n)}, {a}, [{', '.join(map(str, h))}]⟩" for n, a, h in vrows) + "\n]\n\n")

        # ---- the struct half of the Cast arm
        _, earms, _ = first_match(ebody, r'^expr$')
        cast = None
        for pats, guard, result in match_arms(earms):
            if pats == ["ir::Expression::Cast(type_id, expr)"]:
                cast = normws(result)
        if cast is None:
            raise ExtractError("msl generate_expression: Cast arm not found")
        i = cast.find("if to_struct {")
        if i < 0:
            raise ExtractError("msl Cast arm: `if to_struct {` not found")
        j = matching(cast, i + len("if to_struct "))
        sbody = cast[i + len("if to_struct {"):j]
        # the aggregate branch: `} else { <fn get_member_types> let mut member_types = …; <guard> if no_side_effects { … } else { return Err(..) } }`
        decl = "let mut member_types = Vec::new(); get_member_types(unmod_id, context.module, &mut member_types);"
        k = sbody.find(decl)
        if k < 0:
            raise ExtractError("msl Cast arm: member_types not computed as modelled")
        rest = sbody[k + len(decl):].strip()
        count_fn = ("fn get_member_types( id: ir::TypeId, module: &ir::Module, output: &mut Vec<ir::TypeId>, ) { "
                    "let id = module.type_registry.remove_modifier(id); "
                    "let tyl = module.type_registry.get_type_layer(id); match tyl { ir::TypeLayer::Array(inner_id, Some(len)) => { "
                    "for _ in 0..len { get_member_types(inner_id, module, output); } } "
                    "ir::TypeLayer::Array(_, None) => { panic!(\"Can not cast to unbounded array\") } "
                    "ir::TypeLayer::Struct(id) => { let sd = &module.struct_registry[id.0 as usize]; "
                    "for member in &sd.members { get_member_types(member.type_id, module, output); } } _ => output.push(id), } }")
        out.append("/-- `get_member_types` (since fix 5d2f434; `get_member_count` before): the element types in order — an array repeats its\n"
                   "element's list `len` times, a struct concatenates its members' lists, everything else (scalars, vectors, matrices, enums,\n"
                   "objects) is one element of its own unmodified type; an unbounded array panics -/\n"
                   f"def memberTypesAsModelled : Bool := {lb(count_fn in sbody)}\n\n")
        # optional local helper `fn <name>(expr: &ir::Expression) -> bool { match expr { … } }` before the guard
        helper = None
        hm = re.match(r'fn ([a-z_]+)\(expr: &ir::Expression\) -> bool \{', rest)
        if hm:
            a = hm.end() - 1
            b = matching(rest, a)
            helper = (hm.group(1), rest[a + 1:b].strip())
            rest = rest[b + 1:].strip()
        gm_ = re.match(r'let no_side_effects = (.*?); if no_side_effects \{', rest)
        if not gm_:
            raise ExtractError("msl Cast arm: `let no_side_effects = …; if no_side_effects {` not found")
        gexpr = gm_.group(1).strip()
        tail = rest[gm_.end() - 1:]
        tb = matching(tail, 0)
        then_body = normws(tail[1:tb])
        else_part = normws(tail[tb + 1:])
        emit_ok = then_body == ("let ty = generate_type_id(*type_id, context)?; let mut inits = Vec::with_capacity(member_types.len()); "
                                "for member_type in member_types { let is_literal = matches!(**expr, ir::Expression::Literal(_)); "
                                "let element = if member_type == input_ty || is_literal { inner.clone() } else { "
                                "let cast = ir::Expression::Cast(member_type, expr.clone()); generate_expression(&cast, context)? }; "
                                "inits.push(ast::Initializer::Expression(Located::none(element))); } "
                                "ast::Expression::BracedInit(Box::new(ty), inits)")
        else_ok = else_part.startswith("else { return Err(GenerateError::UnsupportedCast); }")
        if not else_ok:
            print("MslDupSites: else part", repr(else_part[:200]), file=sys.stderr)
        out.append("/-- accepted: `BracedInit(type, clauses)`, one clause per element type in order: the generated operand copied\n"
                   "(`inner.clone()`) when the element's type is the operand's type or the operand is a literal, otherwise the IR operand\n"
                   "copied below a cast to the element's type and generated again (`generate_expression(Cast(member_type, expr.clone()))`,\n"
                   "fix 5d2f434) -/\n"
                   f"def structCastClausePerElement : Bool := {lb(emit_ok)}\n"
                   "/-- refused: `Err(UnsupportedCast)` -/\n"
                   f"def structCastRefusalIsDiagnostic : Bool := {lb(else_ok)}\n\n")

        def parse_guard_match(mtext, self_name):
            """arms of `match <scrutinee> { … }` -> (rows, default)"""
            _, arms_text, _ = first_match(mtext, None)
            rows, default = [], None
            for pats, guard, result in match_arms(arms_text):
                if guard is not None:
                    raise ExtractError("struct cast guard: match arm with an `if` guard")
                r = normws(result)
                if pats == ["_"]:
                    default = r
                    continue
                for p in pats:
                    pm = re.fullmatch(r'ir::Expression::([A-Za-z]+)(?:\((.*)\))?', p)
                    if not pm:
                        raise ExtractError(f"struct cast guard: pattern {p!r}")
                    binders = [normws(x) for x in split_top(pm.group(2), ',')] if pm.group(2) else []
                    if r == "true":
                        rec = []
                    else:
                        rec = []
                        for part in [x.strip() for x in r.split("&&")]:
                            cm = re.fullmatch(re.escape(self_name or "\0") + r'\(([a-z_]+)\)', part)
                            if not cm or cm.group(1) not in binders:
                                raise ExtractError(f"struct cast guard: arm result {r!r}")
                            rec.append(binders.index(cm.group(1)))
                    rows.append((pm.group(1), len(binders), sorted(rec)))
            if default is None:
                raise ExtractError("struct cast guard: no `_` arm")
            return rows, default

        if helper is None and gexpr.startswith("match **expr {"):
            rows, default = parse_guard_match(gexpr, None)
            or_count_one = False
            if default == "member_types.len() == 1":
                default, or_count_one = "false", True
        elif helper is not None:
            rows, default = parse_guard_match(helper[1], helper[0])
            gx = re.fullmatch(re.escape(helper[0]) + r'\(expr\)( \|\| member_types\.len\(\) == 1)?', gexpr)
            if not gx:
                raise ExtractError(f"struct cast guard: {gexpr!r}")
            or_count_one = gx.group(1) is not None
        else:
            raise ExtractError(f"struct cast guard: {gexpr!r}")
        if default != "false":
            raise ExtractError(f"struct cast guard: default arm {default!r}")
        out.append("/-- one accepting arm of the side-effect test that protects the repetition: constructor, number of fields in the\n"
                   "pattern, the fields the test recurses into (an accepting arm without recursion is `true`) -/\n"
                   "structure GuardRow where\n  ctor : String\n  arity : Nat\n  recursed : List Nat\n  deriving DecidableEq, Repr\n\n")
        out.append("def structCastGuard : List GuardRow := [\n" + ",\n".join(
            f"  ⟨{lean_str(n)}, {a}, [{', '.join(map(str, r))}]⟩" for n, a, r in rows) + "\n]\n\n")
        out.append("/-- everything else is repeated only when the struct has exactly one element (then nothing is repeated) -/\n"
                   f"def structCastAcceptsAnythingForOneElement : Bool := {lb(or_count_one)}\n")
        out.append(T.footer("MslDupSites"))
        return "".join(out)

//! C13: compile-time constant evaluation. Drives the real `rssl_typer::verif::evaluate_constexpr`
//! on IR obtained by type-checking generated constant expressions (and on IR built directly), and
//! judges every result with an independent reference evaluator written from the property text
//! (exact i128 for literals, 32-bit two's complement wrap for int/uint, shift count & 31, C
//! comparisons and logic, HLSL conversions).
//!
//! request : C13.eval \t <ir s-expression> [\t src:<source text the IR came from>]
//!           C13.pos  \t <position> \t <ir s-expression> [\t src:<expr source>]
//!   expr  : (lit C) | (var C|-) | (gl C|-) | (ev <enum id> C) | (cast T expr) | (sizeof T)
//!           | (op <IntrinsicOp> expr*) | (other)
//!   C     : b0 b1 | L<i128> | i<i32> | u<u32> | I<i64> | U<u64> | fl<f64 bits> | h<f32 bits>
//!           | f<f32 bits> | d<f64 bits> | s | E<enum id>:C
//!   T     : bool lit int uint flit half float double | enum<id>:<int|uint> | other
//! observe : C | notconst | panic:<message>
use crate::util::*;
use rssl::ir;
use rssl_typer::verif::evaluate_constexpr;

#[path = "c13_pos.rs"]
pub mod pos;
#[path = "c13_mix.rs"]
pub mod mix;
#[path = "c13_inst.rs"]
pub mod inst;

// ------------------------------------------------------------------------------------------
// own tree (what the request says), independent of the ir types
// ------------------------------------------------------------------------------------------
#[derive(Clone, Debug, PartialEq)]
pub enum K {
    Bool(bool),
    Lit(i128),
    I32(i32),
    U32(u32),
    I64(i64),
    U64(u64),
    FLit(u64),
    F16(u32),
    F32(u32),
    F64(u64),
    Str,
    Enum(u32, Box<K>),
}

#[derive(Clone, Copy, Debug, PartialEq)]
pub enum T {
    Bool,
    Lit,
    Int,
    UInt,
    FLit,
    Half,
    Float,
    Double,
    Enum(u32, bool), // id, underlying is uint
    Other,
}

#[derive(Clone, Debug, PartialEq)]
pub enum X {
    Lit(K),
    Var(Option<K>),
    Global(Option<K>),
    EnumVal(u32, K),
    Cast(T, Box<X>),
    SizeOf(T),
    Op(String, Vec<X>),
    Other,
}

pub fn show_k(k: &K) -> String {
    match k {
        K::Bool(b) => format!("b{}", *b as u8),
        K::Lit(v) => format!("L{}", v),
        K::I32(v) => format!("i{}", v),
        K::U32(v) => format!("u{}", v),
        K::I64(v) => format!("I{}", v),
        K::U64(v) => format!("U{}", v),
        K::FLit(v) => format!("fl{:016x}", v),
        K::F16(v) => format!("h{:08x}", v),
        K::F32(v) => format!("f{:08x}", v),
        K::F64(v) => format!("d{:016x}", v),
        K::Str => "s".into(),
        K::Enum(id, inner) => format!("E{}:{}", id, show_k(inner)),
    }
}

pub fn parse_k(s: &str) -> Option<K> {
    if let Some(r) = s.strip_prefix("fl") {
        return u64::from_str_radix(r, 16).ok().map(K::FLit);
    }
    let (h, r) = s.split_at(s.char_indices().nth(1).map(|x| x.0).unwrap_or(s.len()));
    match h {
        "b" => match r {
            "0" => Some(K::Bool(false)),
            "1" => Some(K::Bool(true)),
            _ => None,
        },
        "L" => r.parse().ok().map(K::Lit),
        "i" => r.parse().ok().map(K::I32),
        "u" => r.parse().ok().map(K::U32),
        "I" => r.parse().ok().map(K::I64),
        "U" => r.parse().ok().map(K::U64),
        "h" => u32::from_str_radix(r, 16).ok().map(K::F16),
        "f" => u32::from_str_radix(r, 16).ok().map(K::F32),
        "d" => u64::from_str_radix(r, 16).ok().map(K::F64),
        "s" if r.is_empty() => Some(K::Str),
        "E" => {
            let (id, inner) = r.split_once(':')?;
            Some(K::Enum(id.parse().ok()?, Box::new(parse_k(inner)?)))
        }
        _ => None,
    }
}

pub fn show_t(t: &T) -> String {
    match t {
        T::Bool => "bool".into(),
        T::Lit => "lit".into(),
        T::Int => "int".into(),
        T::UInt => "uint".into(),
        T::FLit => "flit".into(),
        T::Half => "half".into(),
        T::Float => "float".into(),
        T::Double => "double".into(),
        T::Enum(id, u) => format!("enum{}:{}", id, if *u { "uint" } else { "int" }),
        T::Other => "other".into(),
    }
}

pub fn parse_t(s: &str) -> Option<T> {
    Some(match s {
        "bool" => T::Bool,
        "lit" => T::Lit,
        "int" => T::Int,
        "uint" => T::UInt,
        "flit" => T::FLit,
        "half" => T::Half,
        "float" => T::Float,
        "double" => T::Double,
        "other" => T::Other,
        _ => {
            let r = s.strip_prefix("enum")?;
            let (id, u) = r.split_once(':')?;
            T::Enum(
                id.parse().ok()?,
                match u {
                    "int" => false,
                    "uint" => true,
                    _ => return None,
                },
            )
        }
    })
}

pub fn show_x(x: &X) -> String {
    let ok = |o: &Option<K>| o.as_ref().map(show_k).unwrap_or_else(|| "-".into());
    match x {
        X::Lit(k) => format!("(lit {})", show_k(k)),
        X::Var(k) => format!("(var {})", ok(k)),
        X::Global(k) => format!("(gl {})", ok(k)),
        X::EnumVal(id, k) => format!("(ev {} {})", id, show_k(k)),
        X::Cast(t, e) => format!("(cast {} {})", show_t(t), show_x(e)),
        X::SizeOf(t) => format!("(sizeof {})", show_t(t)),
        X::Op(o, a) => {
            let mut s = format!("(op {}", o);
            for e in a {
                s.push(' ');
                s.push_str(&show_x(e));
            }
            s.push(')');
            s
        }
        X::Other => "(other)".into(),
    }
}

fn tokens(s: &str) -> Vec<String> {
    let mut out = Vec::new();
    let mut cur = String::new();
    for c in s.chars() {
        match c {
            '(' | ')' => {
                if !cur.is_empty() {
                    out.push(std::mem::take(&mut cur));
                }
                out.push(c.to_string());
            }
            ' ' => {
                if !cur.is_empty() {
                    out.push(std::mem::take(&mut cur));
                }
            }
            c => cur.push(c),
        }
    }
    if !cur.is_empty() {
        out.push(cur);
    }
    out
}

fn parse_x_at(t: &[String], i: &mut usize) -> Option<X> {
    if t.get(*i)? != "(" {
        return None;
    }
    *i += 1;
    let head = t.get(*i)?.clone();
    *i += 1;
    let optk = |s: &str| -> Option<Option<K>> {
        if s == "-" { Some(None) } else { parse_k(s).map(Some) }
    };
    let r = match head.as_str() {
        "lit" => {
            let k = parse_k(t.get(*i)?)?;
            *i += 1;
            X::Lit(k)
        }
        "var" => {
            let k = optk(t.get(*i)?)?;
            *i += 1;
            X::Var(k)
        }
        "gl" => {
            let k = optk(t.get(*i)?)?;
            *i += 1;
            X::Global(k)
        }
        "ev" => {
            let id = t.get(*i)?.parse().ok()?;
            let k = parse_k(t.get(*i + 1)?)?;
            *i += 2;
            X::EnumVal(id, k)
        }
        "cast" => {
            let ty = parse_t(t.get(*i)?)?;
            *i += 1;
            let e = parse_x_at(t, i)?;
            X::Cast(ty, Box::new(e))
        }
        "sizeof" => {
            let ty = parse_t(t.get(*i)?)?;
            *i += 1;
            X::SizeOf(ty)
        }
        "op" => {
            let o = t.get(*i)?.clone();
            *i += 1;
            let mut args = Vec::new();
            while t.get(*i)? != ")" {
                args.push(parse_x_at(t, i)?);
            }
            X::Op(o, args)
        }
        "other" => X::Other,
        _ => return None,
    };
    if t.get(*i)? != ")" {
        return None;
    }
    *i += 1;
    Some(r)
}

pub fn parse_x(s: &str) -> Option<X> {
    let t = tokens(s);
    let mut i = 0;
    let x = parse_x_at(&t, &mut i)?;
    if i == t.len() { Some(x) } else { None }
}

// ------------------------------------------------------------------------------------------
// conversion from / to the real IR
// ------------------------------------------------------------------------------------------
pub fn k_of_const(c: &ir::Constant) -> K {
    match c {
        ir::Constant::Bool(b) => K::Bool(*b),
        ir::Constant::IntLiteral(v) => K::Lit(*v),
        ir::Constant::Int32(v) => K::I32(*v),
        ir::Constant::UInt32(v) => K::U32(*v),
        ir::Constant::Int64(v) => K::I64(*v),
        ir::Constant::UInt64(v) => K::U64(*v),
        ir::Constant::FloatLiteral(v) => K::FLit(v.to_bits()),
        ir::Constant::Float16(v) => K::F16(v.to_bits()),
        ir::Constant::Float32(v) => K::F32(v.to_bits()),
        ir::Constant::Float64(v) => K::F64(v.to_bits()),
        ir::Constant::String(_) => K::Str,
        ir::Constant::Enum(id, inner) => K::Enum(id.0, Box::new(k_of_const(inner))),
    }
}

pub fn const_of_k(k: &K) -> ir::Constant {
    match k {
        K::Bool(b) => ir::Constant::Bool(*b),
        K::Lit(v) => ir::Constant::IntLiteral(*v),
        K::I32(v) => ir::Constant::Int32(*v),
        K::U32(v) => ir::Constant::UInt32(*v),
        K::I64(v) => ir::Constant::Int64(*v),
        K::U64(v) => ir::Constant::UInt64(*v),
        K::FLit(v) => ir::Constant::FloatLiteral(f64::from_bits(*v)),
        K::F16(v) => ir::Constant::Float16(f32::from_bits(*v)),
        K::F32(v) => ir::Constant::Float32(f32::from_bits(*v)),
        K::F64(v) => ir::Constant::Float64(f64::from_bits(*v)),
        K::Str => ir::Constant::String("s".into()),
        K::Enum(id, inner) => ir::Constant::Enum(ir::EnumId(*id), Box::new(const_of_k(inner))),
    }
}

fn t_of_type(module: &ir::Module, id: ir::TypeId) -> T {
    let un = module.type_registry.remove_modifier(id);
    match module.type_registry.get_type_layer(un) {
        ir::TypeLayer::Scalar(s) => match s {
            ir::ScalarType::Bool => T::Bool,
            ir::ScalarType::IntLiteral => T::Lit,
            ir::ScalarType::Int32 => T::Int,
            ir::ScalarType::UInt32 => T::UInt,
            ir::ScalarType::FloatLiteral => T::FLit,
            ir::ScalarType::Float16 => T::Half,
            ir::ScalarType::Float32 => T::Float,
            ir::ScalarType::Float64 => T::Double,
        },
        ir::TypeLayer::Enum(eid) => match module.enum_registry.get_underlying_scalar(eid) {
            ir::ScalarType::Int32 => T::Enum(eid.0, false),
            ir::ScalarType::UInt32 => T::Enum(eid.0, true),
            _ => T::Other,
        },
        _ => T::Other,
    }
}

/// serialise a real IR expression (with the parts of the module it refers to inlined)
pub fn x_of_expr(module: &ir::Module, e: &ir::Expression) -> X {
    match e {
        ir::Expression::Literal(c) => X::Lit(k_of_const(c)),
        ir::Expression::Variable(id) => X::Var(
            module
                .variable_registry
                .get_local_variable(*id)
                .constexpr_value
                .as_ref()
                .map(k_of_const),
        ),
        ir::Expression::Global(id) => X::Global(
            module.global_registry[id.0 as usize]
                .constexpr_value
                .as_ref()
                .map(k_of_const),
        ),
        ir::Expression::EnumValue(id) => {
            let v = module.enum_registry.get_enum_value(*id);
            X::EnumVal(v.enum_id.0, k_of_const(&v.value))
        }
        ir::Expression::Cast(ty, inner) => {
            X::Cast(t_of_type(module, *ty), Box::new(x_of_expr(module, inner)))
        }
        ir::Expression::SizeOf(ty) => X::SizeOf(t_of_type(module, *ty)),
        ir::Expression::IntrinsicOp(op, args) => X::Op(
            format!("{:?}", op),
            args.iter().map(|a| x_of_expr(module, a)).collect(),
        ),
        _ => X::Other,
    }
}

const OPS: &[(&str, ir::IntrinsicOp)] = &[
    ("PrefixIncrement", ir::IntrinsicOp::PrefixIncrement),
    ("PrefixDecrement", ir::IntrinsicOp::PrefixDecrement),
    ("PostfixIncrement", ir::IntrinsicOp::PostfixIncrement),
    ("PostfixDecrement", ir::IntrinsicOp::PostfixDecrement),
    ("Plus", ir::IntrinsicOp::Plus),
    ("Minus", ir::IntrinsicOp::Minus),
    ("LogicalNot", ir::IntrinsicOp::LogicalNot),
    ("BitwiseNot", ir::IntrinsicOp::BitwiseNot),
    ("Add", ir::IntrinsicOp::Add),
    ("Subtract", ir::IntrinsicOp::Subtract),
    ("Multiply", ir::IntrinsicOp::Multiply),
    ("Divide", ir::IntrinsicOp::Divide),
    ("Modulus", ir::IntrinsicOp::Modulus),
    ("LeftShift", ir::IntrinsicOp::LeftShift),
    ("RightShift", ir::IntrinsicOp::RightShift),
    ("BitwiseAnd", ir::IntrinsicOp::BitwiseAnd),
    ("BitwiseOr", ir::IntrinsicOp::BitwiseOr),
    ("BitwiseXor", ir::IntrinsicOp::BitwiseXor),
    ("BooleanAnd", ir::IntrinsicOp::BooleanAnd),
    ("BooleanOr", ir::IntrinsicOp::BooleanOr),
    ("LessThan", ir::IntrinsicOp::LessThan),
    ("LessEqual", ir::IntrinsicOp::LessEqual),
    ("GreaterThan", ir::IntrinsicOp::GreaterThan),
    ("GreaterEqual", ir::IntrinsicOp::GreaterEqual),
    ("Equality", ir::IntrinsicOp::Equality),
    ("Inequality", ir::IntrinsicOp::Inequality),
    ("Assignment", ir::IntrinsicOp::Assignment),
    ("SumAssignment", ir::IntrinsicOp::SumAssignment),
    ("MakeSigned", ir::IntrinsicOp::MakeSigned),
];

/// the fixed declarations every request is interpreted against: enum 0 has underlying type int,
/// enum 1 has underlying type uint, global 0 is a `static const`, `g` is a non-constant global
pub const PRELUDE: &str = "enum E0 { E0A = 0, E0B = 1, E0C = 5, E0D = -1, E0M = 2147483647 };\n\
enum E1 { E1A = 1, E1B = 32, E1M = 4294967295u };\n\
static const int gI = 7;\nstatic int gN = 7;\n\
namespace NS { static const int nI = 3; static const uint nU = 4u; enum EN { EN0, EN1, EN2 }; }\n\
cbuffer CB0 { int cbM; }\nstruct GSt { int x; };\nstatic const GSt gS = { 3 };\nstatic const int gA[2] = { 1, 2 };\n\
static const bool gB = true;\nstatic const uint gU = 2147483648u;\n";

fn type_of_t(module: &mut ir::Module, t: &T) -> ir::TypeId {
    let sc = |m: &mut ir::Module, s| m.type_registry.register_type(ir::TypeLayer::Scalar(s));
    match t {
        T::Bool => sc(module, ir::ScalarType::Bool),
        T::Lit => sc(module, ir::ScalarType::IntLiteral),
        T::Int => sc(module, ir::ScalarType::Int32),
        T::UInt => sc(module, ir::ScalarType::UInt32),
        T::FLit => sc(module, ir::ScalarType::FloatLiteral),
        T::Half => sc(module, ir::ScalarType::Float16),
        T::Float => sc(module, ir::ScalarType::Float32),
        T::Double => sc(module, ir::ScalarType::Float64),
        T::Enum(id, _) => module.enum_registry.get_type_id(ir::EnumId(*id)),
        T::Other => module.type_registry.register_type(ir::TypeLayer::Void),
    }
}

/// build the real IR expression for a request tree inside `module` (a type-checked PRELUDE)
pub fn expr_of_x(module: &mut ir::Module, x: &X) -> Result<ir::Expression, String> {
    Ok(match x {
        X::Lit(k) => ir::Expression::Literal(const_of_k(k)),
        X::Var(k) => {
            let ty = type_of_t(module, &T::Int);
            let id = module
                .variable_registry
                .register_local_variable(ir::LocalVariable {
                    name: rssl::text::Located::none("v".to_string()),
                    type_id: ty,
                    storage_class: ir::LocalStorage::Local,
                    precise: false,
                    constexpr_value: k.as_ref().map(const_of_k),
                });
            ir::Expression::Variable(id)
        }
        X::Global(k) => {
            let mut g = module.global_registry[0].clone();
            g.constexpr_value = k.as_ref().map(const_of_k);
            module.global_registry.push(g);
            ir::Expression::Global(ir::GlobalId(module.global_registry.len() as u32 - 1))
        }
        X::EnumVal(id, k) => {
            if *id >= module.enum_registry.get_enum_count() {
                return Err(format!("enum {} not in prelude", id));
            }
            let under = module.enum_registry.get_underlying_type_id(ir::EnumId(*id));
            let vid = module.enum_registry.register_enum_value(
                ir::EnumId(*id),
                rssl::text::Located::none("EV".to_string()),
                const_of_k(k),
                under,
            );
            ir::Expression::EnumValue(vid)
        }
        X::Cast(t, inner) => {
            if let T::Enum(id, u) = t {
                if *id >= module.enum_registry.get_enum_count() {
                    return Err(format!("enum {} not in prelude", id));
                }
                let real = module.enum_registry.get_underlying_scalar(ir::EnumId(*id));
                if (real == ir::ScalarType::UInt32) != *u {
                    return Err(format!("enum {} underlying type differs from prelude", id));
                }
            }
            let ty = type_of_t(module, t);
            ir::Expression::Cast(ty, Box::new(expr_of_x(module, inner)?))
        }
        X::SizeOf(t) => ir::Expression::SizeOf(type_of_t(module, t)),
        X::Op(o, args) => {
            let op = OPS
                .iter()
                .find(|p| p.0 == o)
                .ok_or_else(|| format!("op {} unknown", o))?
                .1
                .clone();
            let mut a = Vec::new();
            for e in args {
                a.push(expr_of_x(module, e)?);
            }
            ir::Expression::IntrinsicOp(op, a)
        }
        X::Other => ir::Expression::Sequence(Vec::new()),
    })
}

// ------------------------------------------------------------------------------------------
// the reference evaluator (the property's own words)
// ------------------------------------------------------------------------------------------
/// what the property requires of the result
#[derive(Clone, Debug, PartialEq)]
pub enum Want {
    /// exactly this value
    Val(K),
    /// must be reported as not constant
    NotConst,
    /// this value or "not constant" (never another value)
    ValOrNotConst(K),
    /// outside what the property speaks about (unsupported operator / ill-typed operands):
    /// any result is acceptable, a panic only when the IR did not come from the type checker
    Unspecified(&'static str),
}

const I128_MIN: i128 = i128::MIN;

fn f32v(bits: u32) -> f64 {
    f32::from_bits(bits) as f64
}

/// decoded float: None = NaN, else exact comparison key via f64 (f32 widens exactly)
fn fval(k: &K) -> Option<Option<f64>> {
    let v = match k {
        K::FLit(b) | K::F64(b) => f64::from_bits(*b),
        K::F16(b) | K::F32(b) => f32v(*b),
        _ => return None,
    };
    Some(if v.is_nan() { None } else { Some(v) })
}

/// HLSL float -> 32-bit integer conversion (the rule taken: D3D ftoi/ftou — truncate toward zero,
/// saturate to the target range, NaN gives 0). Computed on the exact binary expansion.
fn float_to_int(bits: u64, lo: i128, hi: i128) -> i128 {
    let sign = bits >> 63 != 0;
    let exp = ((bits >> 52) & 0x7ff) as i32;
    let frac = bits & ((1u64 << 52) - 1);
    if exp == 0x7ff {
        if frac != 0 {
            return 0;
        }
        return if sign { lo } else { hi };
    }
    let (m, e) = if exp == 0 { (frac, -1074) } else { (frac | (1u64 << 52), exp - 1075) };
    // |value| = m * 2^e, truncated
    let mag: i128 = if e >= 0 {
        if e > 64 { i128::MAX } else { (m as i128).checked_shl(e as u32).unwrap_or(i128::MAX) }
    } else if -e >= 64 {
        0
    } else {
        (m >> (-e)) as i128
    };
    let v = if sign { -mag } else { mag };
    v.clamp(lo, hi)
}

fn widen(bits: u32) -> u64 {
    (f32::from_bits(bits) as f64).to_bits()
}

fn as_f64_bits(k: &K) -> Option<u64> {
    match k {
        K::FLit(b) | K::F64(b) => Some(*b),
        K::F16(b) | K::F32(b) => Some(widen(*b)),
        _ => None,
    }
}

/// integer view of a 32-bit or literal integer constant
fn ival(k: &K) -> Option<i128> {
    match k {
        K::Lit(v) => Some(*v),
        K::I32(v) => Some(*v as i128),
        K::U32(v) => Some(*v as i128),
        _ => None,
    }
}

fn wrap_like(k: &K, exact: i128) -> K {
    // reduce an exact integer result into the operand's type
    match k {
        K::I32(_) => {
            let m = exact.rem_euclid(1i128 << 32);
            K::I32(if m >= 1i128 << 31 { (m - (1i128 << 32)) as i32 } else { m as i32 })
        }
        K::U32(_) => K::U32(exact.rem_euclid(1i128 << 32) as u32),
        _ => K::Lit(exact),
    }
}

fn same_kind(a: &K, b: &K) -> bool {
    std::mem::discriminant(a) == std::mem::discriminant(b)
}

pub fn cast_ref(t: &T, v: &K) -> Want {
    let v = match v {
        K::Enum(_, inner) => (**inner).clone(),
        o => o.clone(),
    };
    if let K::Enum(_, _) = v {
        return Want::Unspecified("nested enum constant");
    }
    match t {
        T::Enum(id, uint) => {
            let under = if *uint { T::UInt } else { T::Int };
            match cast_ref(&under, &v) {
                Want::Val(k) => Want::Val(K::Enum(*id, Box::new(k))),
                o => o,
            }
        }
        T::Bool => match &v {
            K::Bool(b) => Want::Val(K::Bool(*b)),
            K::Lit(_) | K::I32(_) | K::U32(_) => Want::Val(K::Bool(ival(&v).unwrap() != 0)),
            K::FLit(_) | K::F16(_) | K::F32(_) | K::F64(_) => {
                // non-zero (NaN is non-zero)
                Want::Val(K::Bool(fval(&v).unwrap() != Some(0.0)))
            }
            _ => Want::Unspecified("cast of 64-bit/string constant"),
        },
        T::Int | T::UInt => {
            let (lo, hi) = if *t == T::Int {
                (i32::MIN as i128, i32::MAX as i128)
            } else {
                (0, u32::MAX as i128)
            };
            let exact = match &v {
                K::Bool(b) => *b as i128,
                K::Lit(_) | K::I32(_) | K::U32(_) => ival(&v).unwrap(),
                K::FLit(_) | K::F16(_) | K::F32(_) | K::F64(_) => {
                    float_to_int(as_f64_bits(&v).unwrap(), lo, hi)
                }
                _ => return Want::Unspecified("cast of 64-bit/string constant"),
            };
            Want::Val(wrap_like(if *t == T::Int { &K::I32(0) } else { &K::U32(0) }, exact))
        }
        T::Half | T::Float | T::Double => {
            // to floating point: nearest representable (Rust `as` is the trusted primitive here);
            // half constants are kept at float precision by the compiler, which the property does not
            // speak about
            let f: f64 = match &v {
                K::Bool(b) => *b as u8 as f64,
                K::Lit(x) => {
                    return Want::Val(match t {
                        T::Half => K::F16((*x as f32).to_bits()),
                        T::Float => K::F32((*x as f32).to_bits()),
                        _ => K::F64((*x as f64).to_bits()),
                    });
                }
                K::I32(x) => *x as f64,
                K::U32(x) => *x as f64,
                K::FLit(_) | K::F16(_) | K::F32(_) | K::F64(_) => {
                    f64::from_bits(as_f64_bits(&v).unwrap())
                }
                _ => return Want::Unspecified("cast of 64-bit/string constant"),
            };
            Want::Val(match t {
                T::Half => K::F16((f as f32).to_bits()),
                T::Float => K::F32((f as f32).to_bits()),
                _ => K::F64(f.to_bits()),
            })
        }
        T::Lit | T::FLit | T::Other => Want::Unspecified("cast to a type the evaluator does not support"),
    }
}

fn size_ref(t: &T) -> Want {
    match t {
        T::Bool | T::Int | T::UInt | T::Float | T::Enum(_, _) => Want::Val(K::U32(4)),
        T::Half => Want::Val(K::U32(2)),
        T::Double => Want::Val(K::U32(8)),
        _ => Want::NotConst,
    }
}

const CMP_OPS: &[&str] = &[
    "LessThan",
    "LessEqual",
    "GreaterThan",
    "GreaterEqual",
    "Equality",
    "Inequality",
];

/// Reference value of an operator applied to evaluated operands
fn op_ref(op: &str, raw: &[K]) -> Want {
    // enums take part through their underlying integer; the result of a non-comparison is of the enum
    let mut enum_id: Option<u32> = None;
    let mut args: Vec<K> = Vec::new();
    for (i, a) in raw.iter().enumerate() {
        match a {
            K::Enum(id, inner) => {
                if let K::Enum(_, _) = **inner {
                    return Want::Unspecified("nested enum constant");
                }
                if (enum_id.is_some() && enum_id != Some(*id)) || (i > 0 && enum_id.is_none()) {
                    return Want::Unspecified("operands mix an enum with another type");
                }
                enum_id = Some(*id);
                args.push((**inner).clone());
            }
            o => {
                if enum_id.is_some() {
                    return Want::Unspecified("operands mix an enum with another type");
                }
                args.push(o.clone());
            }
        }
    }
    let wrap_enum = |w: Want| -> Want {
        match (enum_id, CMP_OPS.contains(&op)) {
            (Some(id), false) => match w {
                Want::Val(k) => Want::Val(K::Enum(id, Box::new(k))),
                Want::ValOrNotConst(k) => Want::ValOrNotConst(K::Enum(id, Box::new(k))),
                o => o,
            },
            _ => w,
        }
    };
    let int_like = |k: &K| matches!(k, K::Lit(_) | K::I32(_) | K::U32(_));
    let lit_fit = |v: Option<i128>| match v {
        Some(v) => Want::Val(K::Lit(v)),
        None => Want::NotConst, // exact result is not representable: must not be a wrong value
    };
    let r = match (op, args.as_slice()) {
        ("PrefixIncrement" | "PostfixIncrement", [a @ (K::I32(_) | K::U32(_))]) => {
            Want::Val(wrap_like(a, ival(a).unwrap() + 1))
        }
        ("PrefixDecrement" | "PostfixDecrement", [a @ (K::I32(_) | K::U32(_))]) => {
            Want::Val(wrap_like(a, ival(a).unwrap() - 1))
        }
        ("Plus", [a]) if !matches!(a, K::Str | K::I64(_) | K::U64(_)) => Want::Val(a.clone()),
        ("Minus", [K::Lit(a)]) => lit_fit(a.checked_neg()),
        ("Minus", [a @ K::I32(_)]) => Want::Val(wrap_like(a, -ival(a).unwrap())),
        ("Minus", [K::FLit(b)]) => Want::Val(K::FLit(b ^ (1 << 63))),
        ("Minus", [K::F64(b)]) => Want::Val(K::F64(b ^ (1 << 63))),
        ("Minus", [K::F16(b)]) => Want::Val(K::F16(b ^ (1 << 31))),
        ("Minus", [K::F32(b)]) => Want::Val(K::F32(b ^ (1 << 31))),
        ("LogicalNot", [K::Bool(b)]) => Want::Val(K::Bool(!b)),
        ("BitwiseNot", [a]) if int_like(a) => Want::Val(wrap_like(a, -1 - ival(a).unwrap())),
        ("Add" | "Subtract" | "Multiply", [a, b]) if int_like(a) && same_kind(a, b) => {
            let (x, y) = (ival(a).unwrap(), ival(b).unwrap());
            let exact = match op {
                "Add" => x.checked_add(y),
                "Subtract" => x.checked_sub(y),
                _ => x.checked_mul(y),
            };
            match (a, exact) {
                (K::Lit(_), e) => lit_fit(e),
                (_, Some(e)) => Want::Val(wrap_like(a, e)),
                (_, None) => unreachable!(),
            }
        }
        ("Divide" | "Modulus", [a, b]) if int_like(a) && same_kind(a, b) => {
            let (x, y) = (ival(a).unwrap(), ival(b).unwrap());
            if y == 0 {
                Want::NotConst
            } else if x == I128_MIN && y == -1 {
                // only reachable for literals: the quotient is not representable, the remainder is 0
                if op == "Divide" { Want::NotConst } else { Want::ValOrNotConst(K::Lit(0)) }
            } else {
                // C semantics: quotient truncated toward zero, remainder has the sign of the dividend
                let q = x / y;
                let r = x - q * y;
                Want::Val(wrap_like(a, if op == "Divide" { q } else { r }))
            }
        }
        ("LeftShift" | "RightShift", [a @ (K::I32(_) | K::U32(_)), b]) if same_kind(a, b) => {
            // 32-bit shifts use the low five bits of the count
            let n = (ival(b).unwrap() & 31) as u32;
            let x = ival(a).unwrap();
            Want::Val(wrap_like(a, if op == "LeftShift" { x << n } else { x >> n }))
        }
        ("LeftShift", [K::Lit(x), K::Lit(n)]) => {
            if *n < 0 {
                Want::NotConst
            } else if *n > 127 {
                // x * 2^n is representable only for x = 0
                if *x == 0 { Want::ValOrNotConst(K::Lit(0)) } else { Want::NotConst }
            } else {
                // exact: x * 2^n, by repeated doubling
                let mut v = Some(*x);
                for _ in 0..*n {
                    v = v.and_then(|v| v.checked_mul(2));
                }
                lit_fit(v)
            }
        }
        ("RightShift", [K::Lit(x), K::Lit(n)]) => {
            if *n < 0 {
                Want::NotConst
            } else if *n > 127 {
                Want::ValOrNotConst(K::Lit(if *x < 0 { -1 } else { 0 }))
            } else if *n == 127 {
                Want::Val(K::Lit(if *x < 0 { -1 } else { 0 }))
            } else {
                // exact: floor(x / 2^n)
                Want::Val(K::Lit(x.div_euclid(1i128 << *n)))
            }
        }
        ("BitwiseAnd" | "BitwiseOr" | "BitwiseXor", [a, b]) if int_like(a) && same_kind(a, b) => {
            // two's complement bit operations; on exact integers they never leave the operand range
            let (x, y) = (ival(a).unwrap(), ival(b).unwrap());
            let v = match op {
                "BitwiseAnd" => x & y,
                "BitwiseOr" => x | y,
                _ => x ^ y,
            };
            Want::Val(wrap_like(a, v))
        }
        ("BooleanAnd", [K::Bool(a), K::Bool(b)]) => Want::Val(K::Bool(*a && *b)),
        ("BooleanOr", [K::Bool(a), K::Bool(b)]) => Want::Val(K::Bool(*a || *b)),
        ("LessThan" | "LessEqual" | "GreaterThan" | "GreaterEqual" | "Equality" | "Inequality", [a, b])
            if same_kind(a, b) && !matches!(a, K::Str) =>
        {
            use std::cmp::Ordering::*;
            // C comparison: an ordering, or unordered when a NaN is involved
            let ord = match (a, b) {
                (K::Bool(x), K::Bool(y)) => Some(x.cmp(y)),
                (K::I64(x), K::I64(y)) => Some(x.cmp(y)),
                (K::U64(x), K::U64(y)) => Some(x.cmp(y)),
                _ if int_like(a) => Some(ival(a).unwrap().cmp(&ival(b).unwrap())),
                _ => match (fval(a).unwrap(), fval(b).unwrap()) {
                    (Some(x), Some(y)) => x.partial_cmp(&y),
                    _ => None,
                },
            };
            Want::Val(K::Bool(match op {
                "LessThan" => ord == Some(Less),
                "LessEqual" => ord == Some(Less) || ord == Some(Equal),
                "GreaterThan" => ord == Some(Greater),
                "GreaterEqual" => ord == Some(Greater) || ord == Some(Equal),
                "Equality" => ord == Some(Equal),
                _ => ord != Some(Equal),
            }))
        }
        _ => Want::Unspecified("operator/operand kinds outside the property"),
    };
    wrap_enum(r)
}

/// reference evaluation of a whole tree
pub fn reference(x: &X) -> Want {
    match x {
        X::Lit(k) => Want::Val(k.clone()),
        X::Var(Some(k)) | X::Global(Some(k)) => Want::Val(k.clone()),
        X::Var(None) | X::Global(None) | X::Other => Want::NotConst,
        X::EnumVal(id, k) => Want::Val(K::Enum(*id, Box::new(k.clone()))),
        X::SizeOf(t) => size_ref(t),
        X::Cast(t, inner) => match reference(inner) {
            Want::Val(v) => cast_ref(t, &v),
            Want::ValOrNotConst(v) => match cast_ref(t, &v) {
                Want::Val(k) => Want::ValOrNotConst(k),
                o => o,
            },
            o => o,
        },
        X::Op(op, args) => {
            let mut vals = Vec::new();
            let mut soft = false;
            for a in args {
                match reference(a) {
                    Want::Val(v) => vals.push(v),
                    Want::ValOrNotConst(v) => {
                        soft = true;
                        vals.push(v)
                    }
                    o => return o,
                }
            }
            match op_ref(op, &vals) {
                Want::Val(k) if soft => Want::ValOrNotConst(k),
                o => o,
            }
        }
    }
}

// ------------------------------------------------------------------------------------------
// running the real code
// ------------------------------------------------------------------------------------------
#[derive(Clone, Debug, PartialEq)]
pub enum Obs {
    Val(K),
    NotConst,
    Panic(String),
}

pub fn show_obs(o: &Obs) -> String {
    match o {
        Obs::Val(k) => show_k(k),
        Obs::NotConst => "notconst".into(),
        Obs::Panic(m) => format!("panic:{}", m),
    }
}

pub fn eval_real(module: &ir::Module, e: &ir::Expression) -> Obs {
    let mut m = module.clone();
    let e = e.clone();
    match guard(move || evaluate_constexpr(&e, &mut m)) {
        Ok(Ok(c)) => Obs::Val(k_of_const(&c)),
        Ok(Err(())) => Obs::NotConst,
        Err(p) => Obs::Panic(norm_panic(&p)),
    }
}

/// `file:line: message` with the file made relative to the repository whatever directory it was built from
pub fn norm_panic(p: &str) -> String {
    for root in ["/typer/src/", "/ir/src/", "/parser/src/", "/preprocess/src/", "/ast/src/", "/text/src/",
                 "/formatter/src/", "/hlsl/src/", "/msl/src/"] {
        if let Some(i) = p.find(root) {
            return p[i + 1..].to_string();
        }
    }
    p.to_string()
}

fn panic_msg(p: &str) -> String {
    // "file:line: message" -> message (the model predicts the message, not the line)
    p.splitn(2, ": ").nth(1).unwrap_or(p).to_string()
}

/// the no-panic guarantee speaks about trees a type checker can emit: operator nodes with the operand count
/// the operator takes, enum operands not mixed with operands of another type, `~` on an integer.
/// (Written from the property text; the Lean theorem has the same hypothesis, stated independently.)
pub fn admissible(x: &X) -> bool {
    match x {
        X::Cast(_, e) => admissible(e),
        X::Op(op, args) => {
            if !args.iter().all(admissible) {
                return false;
            }
            let unary = UNARY_OPS.contains(&op.as_str());
            let binary = BINARY_OPS.contains(&op.as_str());
            if (unary && args.len() != 1) || (binary && args.len() != 2) {
                return false;
            }
            // operands are evaluated left to right up to the first one without a value
            let mut vals = Vec::new();
            for a in args {
                match reference(a) {
                    Want::Val(v) | Want::ValOrNotConst(v) => vals.push(v),
                    // an operand the property does not speak about: its kind is unknown
                    Want::Unspecified(_) => return false,
                    Want::NotConst => break,
                }
            }
            let id = |k: &K| match k {
                K::Enum(i, _) => Some(*i),
                _ => None,
            };
            if let Some(first) = vals.first() {
                if vals.iter().any(|v| id(v) != id(first)) {
                    return false;
                }
            }
            let nested = |k: &K| matches!(k, K::Enum(_, inner) if matches!(**inner, K::Enum(_, _)));
            if vals.iter().any(nested) {
                return false;
            }
            if op == "BitwiseNot" {
                let int_like = |k: &K| {
                    let k = match k {
                        K::Enum(_, inner) => &**inner,
                        o => o,
                    };
                    matches!(k, K::Lit(_) | K::I32(_) | K::U32(_))
                };
                if !vals.iter().all(int_like) {
                    return false;
                }
            }
            true
        }
        X::Lit(K::Enum(_, inner)) => !matches!(**inner, K::Enum(_, _)),
        X::EnumVal(_, inner) => !matches!(inner, K::Enum(_, _)),
        X::Var(Some(K::Enum(_, inner))) | X::Global(Some(K::Enum(_, inner))) => !matches!(**inner, K::Enum(_, _)),
        _ => true,
    }
}

/// verdict of the property's oracle on one observation
pub fn judge(x: &X, obs: &Obs, from_typer: bool) -> String {
    let want = reference(x);
    match (obs, &want) {
        (Obs::Panic(_), _) if !from_typer && !admissible(x) => "ok".into(),
        (Obs::Panic(p), _) => format!("FAIL:panic {}", p),
        (_, Want::Unspecified(_)) => "ok".into(),
        (Obs::Val(k), Want::Val(w)) | (Obs::Val(k), Want::ValOrNotConst(w)) => {
            if k == w {
                "ok".into()
            } else {
                format!("FAIL:value {} expected {}", show_k(k), show_k(w))
            }
        }
        (Obs::NotConst, Want::NotConst) | (Obs::NotConst, Want::ValOrNotConst(_)) => "ok".into(),
        (Obs::NotConst, Want::Val(w)) => format!("FAIL:not constant, expected {}", show_k(w)),
        (Obs::Val(k), Want::NotConst) => {
            format!("FAIL:value {} where the expression must be reported not constant", show_k(k))
        }
    }
}

/// compile a whole program to HLSL text (no pipeline mode), or `!error ...` / `!panic ...`
pub fn emit_hlsl(src: &str) -> String {
    emit_target(src, rssl::Target::HlslForDirectX)
}

pub fn emit_target(src: &str, target: rssl::Target) -> String {
    let mut inc = MemFiles(vec![("main.rssl".to_string(), src.to_string())]);
    let r = guard(|| rssl::compile(rssl::CompileArgs::new("main.rssl", &mut inc, target).no_pipeline_mode()));
    match r {
        Err(p) => format!("!panic {}", norm_panic(&p)),
        Ok(Err(e)) => format!("!error {}", e),
        Ok(Ok(ps)) => ps.into_iter().map(|p| String::from_utf8_lossy(&p.data).to_string()).collect::<Vec<_>>().join("\n"),
    }
}

pub struct World {
    pub prelude: ir::Module,
}

impl World {
    pub fn new() -> Result<World, String> {
        let src = format!("{}void t() {{}}\n", PRELUDE);
        match guard(|| front_end_src(&src)) {
            Ok(Ok(m)) => Ok(World { prelude: m }),
            Ok(Err(e)) => Err(format!("reject:{}", one_line(e.text()))),
            Err(p) => Err(format!("panic:{}", norm_panic(&p))),
        }
    }

    /// type check `PRELUDE void t() { <src>; }` and return the module and the expression
    pub fn typed(&self, src: &str) -> Result<(ir::Module, ir::Expression), String> {
        let text = format!("{}void t() {{ {}; }}\n", PRELUDE, src);
        let m = match guard(|| front_end_src(&text)) {
            Ok(Ok(m)) => m,
            Ok(Err(e)) => return Err(format!("reject:{}:{}", e.stage(), e.text())),
            Err(p) => return Err(format!("panic:{}", norm_panic(&p))),
        };
        let mut found = None;
        for id in m.function_registry.iter() {
            if m.function_registry.get_function_name(id) == "t" {
                if let Some(imp) = m.function_registry.get_function_implementation(id) {
                    if let Some(ir::Statement {
                        kind: ir::StatementKind::Expression(e),
                        ..
                    }) = imp.scope_block.0.first()
                    {
                        found = Some(e.clone());
                    }
                }
            }
        }
        match found {
            Some(e) => Ok((m, e)),
            None => Err("reject:shape:no expression statement".into()),
        }
    }
}

/// static type of a source expression (modifiers included), found with the built-in `assert_type<T>(e)`, which
/// compares type ids exactly.  Returns the class the enum model needs: `bool|int|uint|lit|enum<id>:<under>|other`, with
/// a trailing `!` when the type is not the plain type of a literal of that value (const-qualified, or an enum).
pub fn static_cls(w: &World, src: &str, x: &X) -> Option<String> {
    let accepts = |ty: &str| -> bool {
        let text = format!("{}void t() {{ assert_type<{}>({}); }}\n", PRELUDE, ty, src);
        matches!(guard(|| front_end_src(&text)), Ok(Ok(_)))
    };
    const NAMED: &[(&str, &str)] = &[
        ("int", "int"), ("uint", "uint"), ("bool", "bool"), ("E0", "enum0:int"), ("E1", "enum1:uint"), ("NS::EN", "enum2:int"),
        ("float", "other"), ("half", "other"), ("double", "other"),
    ];
    for (ty, cls) in NAMED {
        if accepts(ty) {
            return Some(if cls.starts_with("enum") { format!("{}!", cls) } else { cls.to_string() });
        }
        if accepts(&format!("const {}", ty)) {
            return Some(if *cls == "other" { cls.to_string() } else { format!("{}!", cls) });
        }
    }
    // the literal types have no name
    match reference(x) {
        Want::Val(K::Lit(_)) | Want::ValOrNotConst(K::Lit(_)) => Some("lit".into()),
        Want::Val(K::FLit(_)) => Some("other".into()),
        _ => match x {
            X::Lit(K::Lit(_)) => Some("lit".into()),
            X::Op(_, _) | X::Cast(_, _) => {
                // an operator on literals that has no value (1 / 0, 1 << 200): the operands tell
                fn lit_typed(x: &X) -> bool {
                    match x {
                        X::Lit(K::Lit(_)) => true,
                        X::Op(o, a) => !CMP_OPS.contains(&o.as_str()) && !a.is_empty() && a.iter().all(lit_typed),
                        _ => false,
                    }
                }
                if lit_typed(x) { Some("lit".into()) } else { None }
            }
            _ => None,
        },
    }
}

fn count_nodes(x: &X, hist: &mut Hist) -> (u32, u32) {
    // (nodes, depth)
    match x {
        X::Cast(t, e) => {
            hist.add(&format!("cast:{}", show_t(t).split(':').next().unwrap_or("")));
            let (n, d) = count_nodes(e, hist);
            (n + 1, d + 1)
        }
        X::Op(o, a) => {
            hist.add(&format!("op:{}", o));
            let mut n = 1;
            let mut d = 0;
            for e in a {
                let (n1, d1) = count_nodes(e, hist);
                n += n1;
                d = d.max(d1);
            }
            (n, d + 1)
        }
        X::Lit(k) => {
            hist.add(&format!("leaf:{}", &show_k(k)[..1]));
            (1, 0)
        }
        X::EnumVal(_, _) => {
            hist.add("leaf:enumvalue");
            (1, 0)
        }
        X::Var(_) | X::Global(_) => {
            hist.add("leaf:variable");
            (1, 0)
        }
        X::SizeOf(_) => {
            hist.add("leaf:sizeof");
            (1, 0)
        }
        X::Other => {
            hist.add("leaf:other");
            (1, 0)
        }
    }
}

/// run one tree on the real evaluator (IR rebuilt inside the prelude module) and emit the case
fn run_tree(w: &World, x: &X, src: Option<&str>, out: &mut Out, hist: &mut Hist) {
    let mut req = format!("C13.eval\t{}", show_x(x));
    if let Some(s) = src {
        req.push_str(&format!("\tsrc:{}", s));
    }
    let mut m = w.prelude.clone();
    let e = match expr_of_x(&mut m, x) {
        Ok(e) => e,
        Err(why) => {
            out.case(&req, "unbuildable", &format!("SKIP:{}", why));
            return;
        }
    };
    let obs = eval_real(&m, &e);
    let verdict = judge(x, &obs, src.is_some());
    let (n, d) = count_nodes(x, hist);
    hist.add(&format!("depth{}", d));
    hist.add(&format!("nodes{}", if n > 12 { "13+".to_string() } else { n.to_string() }));
    hist.add(match &obs {
        Obs::Val(_) => "result:value",
        Obs::NotConst => "result:notconst",
        Obs::Panic(_) => "result:panic",
    });
    match reference(x) {
        Want::Unspecified(_) => hist.add("oracle:unspecified"),
        Want::NotConst => hist.add("oracle:must-be-notconst"),
        Want::Val(_) => hist.add("oracle:value"),
        Want::ValOrNotConst(_) => hist.add("oracle:value-or-notconst"),
    }
    let shown = match &obs {
        Obs::Panic(p) => format!("panic:{}", panic_msg(p)),
        o => show_obs(o),
    };
    out.case(&req, &shown, &verdict);
}

/// type check a source expression, check that the IR survives the request round trip with the same
/// result, then run it as a tree
fn run_source(w: &World, src: &str, verbose: bool, out: &mut Out, hist: &mut Hist) {
    match w.typed(src) {
        Err(e) if e.starts_with("panic:") => {
            hist.add("source:frontend-panic");
            out.case(
                &format!("C13.src\t{}", src),
                &format!("panic:{}", panic_msg(&e[6..])),
                &format!("FAIL:panic {}", &e[6..]),
            );
        }
        Err(e) => {
            let kind: String = e.split(':').take(2).collect::<Vec<_>>().join(":");
            hist.add(&format!("source:{}", kind));
            if verbose {
                out.case(&format!("C13.src\t{}", src), &e, "SKIP:rejected by the front end");
            }
        }
        Ok((m, e)) => {
            hist.add("source:typed");
            let x = x_of_expr(&m, &e);
            // the value in the module the type checker built must be the value of the rebuilt tree
            let direct = eval_real(&m, &e);
            let mut m2 = w.prelude.clone();
            if let Ok(e2) = expr_of_x(&mut m2, &x) {
                let rebuilt = eval_real(&m2, &e2);
                if rebuilt != direct {
                    out.case(
                        &format!("C13.eval\t{}\tsrc:{}", show_x(&x), src),
                        &show_obs(&direct),
                        &format!(
                            "SKIP:harness serialisation loses information (rebuilt tree gives {})",
                            show_obs(&rebuilt)
                        ),
                    );
                    hist.add("source:roundtrip-mismatch");
                    return;
                }
            }
            run_tree(w, &x, Some(src), out, hist);
            // the hypotheses of the theorems (well-formed, admissible operand kinds) are claimed of every
            // tree the type checker emits; the model evaluates them
            out.case(&format!("C13.hyp\t{}\tsrc:{}", show_x(&x), src), "wf=1 kinds=1", "ok");
        }
    }
}

// ------------------------------------------------------------------------------------------
// positions that demand a constant
// ------------------------------------------------------------------------------------------
pub fn err_kind(e: &str) -> String {
    // "reject:type:<text>" -> a short stable label
    let t = e.splitn(3, ':').nth(2).unwrap_or(e);
    let t = t.split(": error: ").nth(1).unwrap_or(t);
    let t = t.strip_prefix("error: ").unwrap_or(t);
    let words: Vec<&str> = t.split_whitespace().take(5).collect();
    words.join(" ").chars().filter(|c| c.is_ascii_alphabetic() || *c == ' ').collect()
}

/// integer view used to compare values observed at a position with the reference value
pub fn as_integer(k: &K) -> Option<i128> {
    match k {
        K::Bool(b) => Some(*b as i128),
        K::Lit(v) => Some(*v),
        K::I32(v) => Some(*v as i128),
        K::U32(v) => Some(*v as i128),
        K::I64(v) => Some(*v as i128),
        K::U64(v) => Some(*v as i128),
        K::Enum(_, inner) => as_integer(inner),
        _ => None,
    }
}

/// `assert_eval<T>(expr, expected)` acceptance: the expected operand is rendered from the reference value
fn render_reference(k: &K) -> Option<(String, String)> {
    // (type name, source text of a trivial expression with that value)
    Some(match k {
        K::Bool(b) => ("bool".into(), b.to_string()),
        K::I32(v) => ("int".into(), format!("(int){}", v)),
        K::U32(v) => ("uint".into(), format!("{}u", v)),
        K::Enum(0, inner) => ("E0".into(), format!("(E0){}", as_integer(inner)?)),
        K::Enum(1, inner) => ("E1".into(), format!("(E1){}u", as_integer(inner)?)),
        K::F32(b) if f32::from_bits(*b).is_finite() && *b >> 31 == 0 => {
            ("float".into(), format!("{:e}f", f32::from_bits(*b)))
        }
        K::F64(b) if f64::from_bits(*b).is_finite() && *b >> 63 == 0 => {
            ("double".into(), format!("{:e}L", f64::from_bits(*b)))
        }
        _ => return None,
    })
}

fn run_position(w: &World, pos: &str, src: &str, out: &mut Out, hist: &mut Hist) {
    // reference value of the expression itself (through the type checker, standalone)
    let (m, e) = match w.typed(src) {
        Ok(x) => x,
        Err(e) if e.starts_with("panic:") => {
            out.case(&format!("C13.src\t{}", src), &format!("panic:{}", panic_msg(&e[6..])), &format!("FAIL:panic {}", &e[6..]));
            return;
        }
        Err(_) => {
            hist.add("position:expression-rejected");
            return;
        }
    };
    let x = x_of_expr(&m, &e);
    let want = reference(&x);
    let req = format!("C13.pos\t{}\t{}", pos, src);
    if pos == "assert" || pos == "assertr" {
        let val = match &want {
            Want::Val(k) => k.clone(),
            _ => {
                hist.add("assert:no-definite-value");
                return;
            }
        };
        let (ty, expected) = match render_reference(&val) {
            Some(r) => r,
            None => {
                hist.add("assert:value-not-renderable");
                return;
            }
        };
        // `assertr`: the operands the other way round (the second operand is evaluated by its own call)
        let text = if pos == "assert" {
            format!("{}void t() {{ assert_eval<{}>({}, {}); }}\n", PRELUDE, ty, src, expected)
        } else {
            format!("{}void t() {{ assert_eval<{}>({}, {}); }}\n", PRELUDE, ty, expected, src)
        };
        let obs = match guard(|| front_end_src(&text)) {
            Ok(Ok(_)) => "accept".to_string(),
            Ok(Err(e)) => format!("reject:{}", err_kind(&format!("reject:{}:{}", e.stage(), e.text()))),
            Err(p) => format!("panic:{}", norm_panic(&p)),
        };
        let verdict = if obs == "accept" {
            "ok".to_string()
        } else if obs.starts_with("reject:expected type") {
            // the rendered type name differs from the expression's type (const-qualified, literal): not a value question
            "SKIP:type of the expression is not the rendered type".to_string()
        } else if obs.starts_with("panic:") {
            format!("FAIL:panic {}", &obs[6..])
        } else {
            format!("FAIL:assert_eval<{}>({}, {}) is rejected although {} is the value HLSL defines: {}", ty, src, expected, show_k(&val), obs)
        };
        hist.add(&format!("assert:{}", if obs == "accept" { "accept" } else { "other" }));
        out.case(&format!("{}\t{}", req, expected), &obs, &verdict);
        return;
    }
    let site = match pos::site(pos) {
        Some(s) => s,
        None => {
            out.case(&req, "unobservable", "SKIP:unknown position");
            return;
        }
    };
    let (obs, module) = pos::observe(site, src);
    // what the model of the position is given: the IR of the expression the position evaluates
    let aux: Option<String> = match pos::model_input(site) {
        pos::ModelInput::Hole => Some(show_x(&x)),
        pos::ModelInput::EnumMember => static_cls(w, src, &x).map(|c| format!("{} {}", c, show_x(&x))),
        pos::ModelInput::Initialiser => module.as_ref().and_then(|m| pos::initialiser_tree(m, &site.look)).map(|t| show_x(&t)),
        pos::ModelInput::None => None,
    };
    let req = match &aux {
        Some(a) => format!("{}\t{}", req, a),
        None => req,
    };
    let want_of = |e: &str| -> Option<Want> { w.typed(e).ok().map(|(m, e)| reference(&x_of_expr(&m, &e))) };
    let mut verdict = pos::judge_site(site, src, &want, &want_of, &obs);
    hist.add(&format!("{}:{}", pos, obs.split(':').next().unwrap_or("")));
    if verdict == "ok" {
        // where the compiler prints the value, the printed number must be the same value
        match pos::judge_emission(site, src, &want, &obs) {
            Some(v) if v == "emit-ok" => hist.add(&format!("{}:emitted", pos)),
            Some(v) => verdict = v,
            None => {}
        }
    }
    let shown = if obs.starts_with("panic:") { format!("panic:{}", panic_msg(&obs[6..])) } else { obs.clone() };
    out.case(&req, &shown, &verdict);
}

fn run_enum(w: &World, members: &str, out: &mut Out, hist: &mut Hist) {
    let ms: Vec<String> = members.split(" ; ").map(|s| s.trim().to_string()).collect();
    let obs = pos::observe_enum(&ms);
    let want_of = |e: &str| -> Option<Want> { w.typed(e).ok().map(|(m, e)| reference(&x_of_expr(&m, &e))) };
    let mut standalone = Vec::new();
    let verdict = pos::judge_enum(&ms, &want_of, &obs, &mut standalone);
    // input of the Lean model of the definition: per enumerator `-` or `<static type class> <earlier enumerators it
    // refers to> <IR>` (earlier enumerators appear in the IR as the literals the type checker inlines)
    let mut aux = Vec::new();
    if standalone.len() == ms.len() {
        for (m, sa) in ms.iter().zip(&standalone) {
            if sa == "-" {
                aux.push("-".to_string());
                continue;
            }
            let refs: Vec<String> = (0..ms.len()).filter(|k| m.contains(&format!("${}", k))).map(|k| k.to_string()).collect();
            match w.typed(sa) {
                Ok((md, e)) => {
                    let x = x_of_expr(&md, &e);
                    match static_cls(w, sa, &x) {
                        Some(cls) => aux.push(format!("{} {} {}", cls, if refs.is_empty() { "-".to_string() } else { refs.join(",") }, show_x(&x))),
                        None => break,
                    }
                }
                Err(_) => break,
            }
        }
    }
    let req = if aux.len() == ms.len() {
        format!("C13.enum\t{}\t{}", ms.join(" ; "), aux.join(" | "))
    } else {
        format!("C13.enum\t{}", ms.join(" ; "))
    };
    hist.add(&format!("enum:{}", obs.split(|c| c == ':' || c == ' ').take(2).collect::<Vec<_>>().join(":")));
    hist.add(&format!("enum-members:{}", ms.len()));
    hist.add(&format!("enum-implicit:{}", ms.iter().filter(|m| *m == "-").count()));
    hist.add(&format!("enum-references:{}", ms.iter().filter(|m| m.contains('$')).count()));
    let shown = if obs.starts_with("panic:") { format!("panic:{}", panic_msg(&obs[6..])) } else { obs.clone() };
    out.case(&req, &shown, &verdict);
    if aux.len() == ms.len() {
        // the hypotheses of the enum theorems are claimed of every definition whose initialisers the front end typed
        out.case(&format!("C13.enumhyp\t{}\t{}", ms.join(" ; "), aux.join(" | ")), "wf=1 ok=1", "ok");
    }
}

/// members of a random enum definition
fn gen_enum(rng: &mut Rng) -> Vec<String> {
    let n = rng.range(1, 6) as usize;
    let small: &[&str] = &["0", "1", "2", "5", "-1", "-7", "(int)3", "(int)-2", "4u", "0u", "true", "false", "E0C", "E1B", "31", "100",
                           "-2147483648", "-2147483649", "2147483647", "2147483648", "4294967295", "4294967296", "4294967295u",
                           "(int)2147483647", "(int)-2147483648", "E0M", "E1M"];
    let mut ms = Vec::new();
    for i in 0..n {
        if rng.chance(2, 5) {
            ms.push("-".to_string());
            continue;
        }
        let base = if rng.chance(3, 5) {
            rng.pick(small).to_string()
        } else {
            let ty = *rng.pick(&["lit", "int", "uint", "bool", "E0", "E1", "lit", "float"]);
            src_tree(ty, rng.range(0, 2) as u32, rng)
        };
        let e = if i > 0 && rng.chance(2, 5) {
            let k = rng.below(i as u64);
            match rng.below(7) {
                0 => format!("${}", k),
                1 => format!("${} + 1", k),
                2 => format!("-${}", k),
                3 => format!("${} | ({})", k, base),
                4 => format!("(int)${} * 2", k),
                5 => format!("({}) - ${}", base, k),
                _ => format!("${} << 1", k),
            }
        } else if rng.chance(1, 40) {
            // a reference to itself or a later enumerator
            format!("${}", rng.range(i as i64, n as i64 - 1))
        } else {
            base
        };
        ms.push(e);
    }
    ms
}

// ------------------------------------------------------------------------------------------
// generators
// ------------------------------------------------------------------------------------------
const I32_POOL: &[i32] = &[
    0, 1, -1, 2, 31, 32, 33, i32::MIN, i32::MAX, -i32::MAX, 65536, 46341, -46341, 5, -7,
];
const U32_POOL: &[u32] = &[
    0, 1, 2, 31, 32, 33, 0x7fff_ffff, 0x8000_0000, u32::MAX, 65536, 65535, 5,
];
fn lit_pool() -> Vec<i128> {
    let p = |n: u32| 1i128 << n;
    vec![
        0, 1, -1, 2, 5, -7, 31, 32, 33, 63, 64, 127, 128, 129,
        p(31) - 1, p(31), -p(31), p(32) - 1, p(32), p(63) - 1, p(63), -p(63), p(64) - 1, p(64),
        p(126), i128::MAX, i128::MIN, -i128::MAX, 3037000500, 13043817825332782212,
    ]
}
const F32_POOL: &[u32] = &[
    0x0000_0000, 0x8000_0000, 0x3f80_0000, 0xbf80_0000, 0x3f00_0000, 0x3fc0_0000, 0xbfc0_0000,
    0x4f32_d05e, 0xcf32_d05e, 0x4f00_0000, 0x4eff_ffff, 0x4f80_0000, 0x4f7f_ffff, 0xcf00_0000,
    0xcf00_0001, 0x5015_02f9, 0x2edb_e6ff, 0x7f7f_ffff, 0x0000_0001, 0x7f80_0000, 0xff80_0000,
    0x7fc0_0000, 0x4b80_0000, 0x3f7f_ffff, 0x0080_0000, 0xffc0_0001,
];
const F64_POOL: &[u64] = &[
    0x0000_0000_0000_0000, 0x8000_0000_0000_0000, 0x3ff0_0000_0000_0000, 0xbff0_0000_0000_0000,
    0x3fe0_0000_0000_0000, 0x41df_ffff_ffe0_0000, 0x41e0_0000_0000_0000, 0xc1e0_0000_0010_0000,
    0xc1e0_0000_0020_0000, 0x41ef_ffff_fff0_0000, 0x41f0_0000_0000_0000, 0x7e37_e43c_8800_759c,
    0xfe37_e43c_8800_759c, 0x0000_0000_0000_0001, 0x7ff0_0000_0000_0000, 0xfff0_0000_0000_0000,
    0x7ff8_0000_0000_0000, 0x41e6_5a0b_c000_0000, 0x4170_0000_1000_0000, 0x3ff0_0000_0000_0001,
    0x47ef_ffff_f000_0000, 0x47ef_ffff_efff_ffff, 0x47ef_ffff_f000_0001, 0x3680_0000_0000_0000,
    0x36a0_0000_0000_0000, 0x3690_0000_0000_0000, 0x3690_0000_0000_0001, 0x36a8_0000_0000_0000,
    0x3810_0000_0000_0000, 0x380f_ffff_ffff_ffff, 0x7ff0_0000_0000_0001, 0xbfe0_0000_0000_0000,
];

fn kinds_pool() -> Vec<K> {
    let mut v = vec![K::Bool(false), K::Bool(true), K::Str];
    v.extend(I32_POOL.iter().map(|x| K::I32(*x)));
    v.extend(U32_POOL.iter().map(|x| K::U32(*x)));
    v.extend(lit_pool().into_iter().map(K::Lit));
    v.extend([0i64, 1, -1, i64::MIN, i64::MAX].iter().map(|x| K::I64(*x)));
    v.extend([0u64, 1, 1 << 63, u64::MAX].iter().map(|x| K::U64(*x)));
    v.extend(F32_POOL.iter().map(|x| K::F32(*x)));
    v.extend(F32_POOL.iter().map(|x| K::F16(*x)));
    v.extend(F64_POOL.iter().map(|x| K::F64(*x)));
    v.extend(F64_POOL.iter().map(|x| K::FLit(*x)));
    for x in [0, 1, 5, -1, i32::MAX, i32::MIN] {
        v.push(K::Enum(0, Box::new(K::I32(x))));
    }
    for x in [1u32, 32, u32::MAX, 0] {
        v.push(K::Enum(1, Box::new(K::U32(x))));
    }
    v
}

const UNARY_OPS: &[&str] = &[
    "PrefixIncrement", "PrefixDecrement", "PostfixIncrement", "PostfixDecrement", "Plus", "Minus",
    "LogicalNot", "BitwiseNot",
];
const BINARY_OPS: &[&str] = &[
    "Add", "Subtract", "Multiply", "Divide", "Modulus", "LeftShift", "RightShift", "BitwiseAnd",
    "BitwiseOr", "BitwiseXor", "BooleanAnd", "BooleanOr", "LessThan", "LessEqual", "GreaterThan",
    "GreaterEqual", "Equality", "Inequality",
];
const INT_BIN: &[&str] = &[
    "Add", "Subtract", "Multiply", "Divide", "Modulus", "LeftShift", "RightShift", "BitwiseAnd",
    "BitwiseOr", "BitwiseXor",
];
const CMP_BIN: &[&str] = &[
    "LessThan", "LessEqual", "GreaterThan", "GreaterEqual", "Equality", "Inequality",
];
const CAST_TARGETS: &[T] = &[
    T::Bool, T::Int, T::UInt, T::Half, T::Float, T::Double, T::Enum(0, false), T::Enum(1, true),
    T::Lit, T::FLit, T::Other,
];

#[derive(Clone, Copy, PartialEq, Debug)]
enum Cls {
    Bool,
    Lit,
    Int,
    UInt,
    F32,
    F16,
    F64,
    FLit,
    E0,
    E1,
}
const CLASSES: &[Cls] = &[
    Cls::Bool, Cls::Lit, Cls::Int, Cls::UInt, Cls::F32, Cls::F16, Cls::F64, Cls::FLit, Cls::E0, Cls::E1,
];

fn leaf_of(c: Cls, rng: &mut Rng) -> X {
    let k = match c {
        Cls::Bool => K::Bool(rng.chance(1, 2)),
        Cls::Lit => K::Lit(*rng.pick(&lit_pool())),
        Cls::Int => K::I32(*rng.pick(I32_POOL)),
        Cls::UInt => K::U32(*rng.pick(U32_POOL)),
        Cls::F32 => K::F32(*rng.pick(F32_POOL)),
        Cls::F16 => K::F16(*rng.pick(F32_POOL)),
        Cls::F64 => K::F64(*rng.pick(F64_POOL)),
        Cls::FLit => K::FLit(*rng.pick(F64_POOL)),
        Cls::E0 => {
            let v = K::I32(*rng.pick(&[0, 1, 5, -1, i32::MAX, i32::MIN, 31, 32]));
            return if rng.chance(1, 2) { X::EnumVal(0, v) } else { X::Lit(K::Enum(0, Box::new(v))) };
        }
        Cls::E1 => {
            let v = K::U32(*rng.pick(&[0, 1, 32, u32::MAX, 31, 0x8000_0000]));
            return if rng.chance(1, 2) { X::EnumVal(1, v) } else { X::Lit(K::Enum(1, Box::new(v))) };
        }
    };
    match rng.below(12) {
        0 => X::Global(Some(k)),
        1 => X::Var(Some(k)),
        _ => X::Lit(k),
    }
}

fn cast_target(c: Cls) -> Option<T> {
    Some(match c {
        Cls::Bool => T::Bool,
        Cls::Int => T::Int,
        Cls::UInt => T::UInt,
        Cls::F32 => T::Float,
        Cls::F16 => T::Half,
        Cls::F64 => T::Double,
        Cls::E0 => T::Enum(0, false),
        Cls::E1 => T::Enum(1, true),
        Cls::Lit | Cls::FLit => return None,
    })
}

/// a kind-consistent random tree of class `c` (what a type checker could emit) of depth <= `d`
fn tree_of(c: Cls, d: u32, rng: &mut Rng) -> X {
    if d == 0 || rng.chance(1, 8) {
        return leaf_of(c, rng);
    }
    let sub = |c: Cls, rng: &mut Rng| Box::new(tree_of(c, d - 1, rng));
    // a cast from any class
    if let Some(t) = cast_target(c) {
        if rng.chance(1, 3) {
            let from = *rng.pick(CLASSES);
            return X::Cast(t, sub(from, rng));
        }
    }
    match c {
        Cls::Bool => match rng.below(4) {
            0 => X::Op("LogicalNot".into(), vec![*sub(Cls::Bool, rng)]),
            1 => X::Op(
                rng.pick(&["BooleanAnd", "BooleanOr"]).to_string(),
                vec![*sub(Cls::Bool, rng), *sub(Cls::Bool, rng)],
            ),
            _ => {
                let oc = *rng.pick(CLASSES);
                X::Op(rng.pick(CMP_BIN).to_string(), vec![*sub(oc, rng), *sub(oc, rng)])
            }
        },
        Cls::Lit | Cls::Int | Cls::UInt | Cls::E0 | Cls::E1 => match rng.below(6) {
            0 => {
                let ops: &[&str] = if c == Cls::Lit {
                    &["Plus", "Minus", "BitwiseNot"]
                } else {
                    &["Plus", "Minus", "BitwiseNot", "PrefixIncrement", "PostfixDecrement",
                      "PrefixDecrement", "PostfixIncrement"]
                };
                X::Op(rng.pick(ops).to_string(), vec![*sub(c, rng)])
            }
            _ => X::Op(rng.pick(INT_BIN).to_string(), vec![*sub(c, rng), *sub(c, rng)]),
        },
        Cls::F32 | Cls::F16 | Cls::F64 | Cls::FLit => {
            X::Op(rng.pick(&["Plus", "Minus"]).to_string(), vec![*sub(c, rng)])
        }
    }
}

/// any tree at all (ill-typed operand mixes, wrong arities, unsupported operators)
fn wild_tree(d: u32, rng: &mut Rng) -> X {
    if d == 0 || rng.chance(1, 6) {
        return match rng.below(14) {
            0 => X::Other,
            1 => X::Global(None),
            2 => X::Var(None),
            3 => X::SizeOf(*rng.pick(CAST_TARGETS)),
            _ => X::Lit(rng.pick(&kinds_pool()).clone()),
        };
    }
    match rng.below(10) {
        0 | 1 => X::Cast(*rng.pick(CAST_TARGETS), Box::new(wild_tree(d - 1, rng))),
        2 | 3 => X::Op(rng.pick(UNARY_OPS).to_string(), vec![wild_tree(d - 1, rng)]),
        4 => {
            let n = rng.below(4) as usize;
            let op = rng.pick(OPS).0.to_string();
            X::Op(op, (0..n).map(|_| wild_tree(d - 1, rng)).collect())
        }
        _ => X::Op(
            rng.pick(BINARY_OPS).to_string(),
            vec![wild_tree(d - 1, rng), wild_tree(d - 1, rng)],
        ),
    }
}

// ---- source level ----
const SRC_ATOMS: &[(&str, &[&str])] = &[
    ("bool", &["true", "false"]),
    ("lit", &["0", "1", "2", "3", "4", "255", "256", "5", "31", "32", "33", "127", "128", "2147483647", "2147483648",
              "4294967295", "4294967296", "9223372036854775807", "9223372036854775808",
              "18446744073709551615", "0x7fffffff", "0xFFFFFFFC", "017", "-1", "-2147483648", "-2147483649",
              "-4294967295", "-4294967296", "-9223372036854775808", "-18446744073709551615", "18446744073709551616"]),
    ("int", &["(int)0", "(int)1", "(int)-1", "(int)31", "(int)32", "(int)2147483647",
              "(int)-2147483648", "(int)46341", "gI", "(int)0xffffffff", "(int)5", "(int)2", "(int)4", "(int)255",
              "(int)256", "NS::nI", "gN", "min(1, 2)", "(true ? 1 : 2)", "int(3)", "int2(1, 2).x", "cbM", "gS.x", "gA[1]",
              "(1, 2)"]),
    ("uint", &["0u", "1u", "2u", "31u", "32u", "33u", "2147483647u", "2147483648u", "4294967295u",
               "65536u", "(uint)-1", "3u", "4u", "5u", "255u", "256u", "sizeof(int)", "sizeof(half)", "sizeof(double)",
               "sizeof(E1)", "sizeof(bool)", "sizeof(float4)", "NS::nU"]),
    ("float", &["0.0f", "1.0f", "0.5f", "1.5f", "3e9f", "2147483648.0f", "2147483520.0f",
                "4294967296.0f", "1e10f", "1e-10f", "3.4028235e38f", "16777217.0f", "1e39f"]),
    ("half", &["0.0h", "1.0h", "65504.0h", "100000.0h", "0.1h"]),
    ("double", &["0.0L", "1.0L", "3e9L", "1e300L", "4294967295.5L", "2147483647.5L", "0.5L",
                 "1e-320L", "16777217.0L", "3.4028235677973366e38L"]),
    ("flit", &["0.0", "1.5", "3e9", "1e300", "0.1", "2147483648.5", "4294967295.9"]),
    ("E0", &["E0A", "E0B", "E0C", "E0D", "E0M", "(E0)7", "E0::E0C", "(E0)2", "NS::EN1"]),
    ("E1", &["E1A", "E1B", "E1M", "(E1)0", "E1::E1A", "(E1)3u"]),
];
const SRC_TYPES: &[&str] = &["bool", "lit", "int", "uint", "float", "half", "double", "flit", "E0", "E1"];
const SRC_BIN: &[&str] = &["+", "-", "*", "/", "%", "<<", ">>", "&", "|", "^"];
const SRC_CMP: &[&str] = &["<", "<=", ">", ">=", "==", "!="];

fn src_atom(ty: &str, rng: &mut Rng) -> String {
    let atoms = SRC_ATOMS.iter().find(|a| a.0 == ty).unwrap().1;
    rng.pick(atoms).to_string()
}

fn src_cast_name(ty: &str) -> Option<&str> {
    match ty {
        "lit" | "flit" => None,
        t => Some(t),
    }
}

/// a mostly well-typed source expression whose value has (roughly) type `ty`
fn src_tree(ty: &str, d: u32, rng: &mut Rng) -> String {
    if d == 0 || rng.chance(1, 8) {
        return src_atom(ty, rng);
    }
    if let Some(t) = src_cast_name(ty) {
        if rng.chance(1, 3) {
            let from = *rng.pick(SRC_TYPES);
            return format!("({})({})", t, src_tree(from, d - 1, rng));
        }
    }
    // sometimes an operand of another type, to exercise the implicit conversions
    let other = |ty: &str, rng: &mut Rng| -> String {
        if rng.chance(1, 6) { rng.pick(SRC_TYPES).to_string() } else { ty.to_string() }
    };
    match ty {
        "bool" => match rng.below(4) {
            0 => format!("!({})", src_tree(&other("bool", rng), d - 1, rng)),
            1 => format!(
                "({}) {} ({})",
                src_tree(&other("bool", rng), d - 1, rng),
                rng.pick(&["&&", "||"]),
                src_tree(&other("bool", rng), d - 1, rng)
            ),
            _ => {
                let oc = *rng.pick(SRC_TYPES);
                format!(
                    "({}) {} ({})",
                    src_tree(oc, d - 1, rng),
                    rng.pick(SRC_CMP),
                    src_tree(&other(oc, rng), d - 1, rng)
                )
            }
        },
        "float" | "half" | "double" | "flit" => {
            format!("{}({})", rng.pick(&["-", "+"]), src_tree(ty, d - 1, rng))
        }
        _ => match rng.below(6) {
            0 => format!("{}({})", rng.pick(&["-", "+", "~"]), src_tree(ty, d - 1, rng)),
            _ => format!(
                "({}) {} ({})",
                src_tree(ty, d - 1, rng),
                rng.pick(SRC_BIN),
                src_tree(&other(ty, rng), d - 1, rng)
            ),
        },
    }
}

pub fn run(args: &Args, out: &mut Out) {
    let mut hist = Hist::default();
    let w = match World::new() {
        Ok(w) => w,
        Err(e) => {
            // the fixed declarations are themselves a boundary-value input: two enums whose enumerators span exactly the
            // int and the uint range, constants in a namespace. They are valid; a rejection is a failure of the property.
            out.case(
                &format!("C13.prelude\t{}", one_line(PRELUDE)),
                &e,
                &format!("FAIL:the boundary-value declarations every request is interpreted against are not accepted: {}", e),
            );
            out.stat("{\"mode\":\"prelude rejected\"}");
            return;
        }
    };
    if let Some(lines) = args.request_lines() {
        for line in lines {
            let f: Vec<&str> = line.split('\t').collect();
            match f.as_slice() {
                ["C13.src", src] => run_source(&w, src, true, out, &mut hist),
                ["C13.dump", src] => {
                    // probing aid (not part of any check): HLSL text the compiler emits for a whole program
                    let text = emit_hlsl(src);
                    out.case(&line, &one_line(&text), "SKIP:probe");
                }
                ["C13.dumpmsl", src] => {
                    let text = emit_target(src, rssl::Target::Msl);
                    out.case(&line, &one_line(&text), "SKIP:probe");
                }
                ["C13.pos", pos, src, ..] => run_position(&w, pos, src, out, &mut hist),
                ["C13.mix", sx, ..] => mix::run_mix(&w, sx, out, &mut hist),
                ["C13.inst", shape, atoms, ..] => inst::run_inst(&w, shape, atoms, out, &mut hist),
                ["C13.enum", members, ..] => run_enum(&w, members, out, &mut hist),
                ["C13.enumhyp", members, ..] => run_enum(&w, members, out, &mut hist),
                ["C13.hyp", _tree, rest @ ..] => {
                    if let Some(src) = rest.first().and_then(|s| s.strip_prefix("src:")) {
                        run_source(&w, src, true, out, &mut hist)
                    }
                }
                ["C13.eval", tree, rest @ ..] => match parse_x(tree) {
                    Some(x) => {
                        let src = rest.first().and_then(|s| s.strip_prefix("src:"));
                        run_tree(&w, &x, src, out, &mut hist)
                    }
                    None => out.case(&line, "bad-request", "SKIP:unparsable request"),
                },
                _ => {}
            }
        }
        out.stat(&format!("{{\"mode\":\"replay\",\"hist\":{}}}", hist.json()));
        return;
    }
    let mut rng = Rng::new(args.seed);
    let thorough = args.thorough();
    let scale = args.n.unwrap_or(if thorough { 60 } else { 1 });
    let mut direct = Hist::default();
    let mut wild = Hist::default();
    let mut typed = Hist::default();

    // (1) direct IR, depth 1, exhaustive over the 32-bit and literal boundary pools for every
    //     integer operator (same-kind operands), every unary operator and every cast target
    let lits: Vec<K> = lit_pool().into_iter().map(K::Lit).collect();
    let i32s: Vec<K> = I32_POOL.iter().map(|x| K::I32(*x)).collect();
    let u32s: Vec<K> = U32_POOL.iter().map(|x| K::U32(*x)).collect();
    for pool in [&i32s, &u32s, &lits] {
        // quick: a seeded third of the pairs; thorough: all
        for op in INT_BIN.iter().chain(CMP_BIN.iter()) {
            for a in pool.iter() {
                for b in pool.iter() {
                    if !thorough && rng.below(3) != 0 {
                        continue;
                    }
                    let x = X::Op(op.to_string(), vec![X::Lit(a.clone()), X::Lit(b.clone())]);
                    run_tree(&w, &x, None, out, &mut direct);
                }
            }
        }
    }
    let all = kinds_pool();
    for op in UNARY_OPS {
        for a in &all {
            run_tree(&w, &X::Op(op.to_string(), vec![X::Lit(a.clone())]), None, out, &mut direct);
        }
    }
    for t in CAST_TARGETS {
        for a in &all {
            run_tree(&w, &X::Cast(*t, Box::new(X::Lit(a.clone()))), None, out, &mut direct);
        }
    }
    // float comparisons: all pairs of the float pools (same kind)
    for op in CMP_BIN {
        for a in F32_POOL {
            for b in F32_POOL {
                if !thorough && rng.below(4) != 0 {
                    continue;
                }
                let x = X::Op(op.to_string(), vec![X::Lit(K::F32(*a)), X::Lit(K::F32(*b))]);
                run_tree(&w, &x, None, out, &mut direct);
            }
        }
        for a in F64_POOL {
            for b in F64_POOL {
                if !thorough && rng.below(6) != 0 {
                    continue;
                }
                let x = X::Op(op.to_string(), vec![X::Lit(K::F64(*a)), X::Lit(K::F64(*b))]);
                run_tree(&w, &x, None, out, &mut direct);
            }
        }
    }
    // (2) kind-consistent random trees to depth 5
    for _ in 0..1500 * scale {
        let c = *rng.pick(CLASSES);
        let d = rng.range(2, 5) as u32;
        let x = tree_of(c, d, &mut rng);
        run_tree(&w, &x, None, out, &mut direct);
    }
    // (3) arbitrary trees (ill-typed mixes, arities, unsupported operators) to depth 4
    for _ in 0..700 * scale {
        let d = rng.range(1, 4) as u32;
        let x = wild_tree(d, &mut rng);
        run_tree(&w, &x, None, out, &mut wild);
    }
    // (4) source expressions through the real type checker, depth <= 5
    for _ in 0..1500 * scale {
        let ty = *rng.pick(SRC_TYPES);
        let d = rng.range(1, 5) as u32;
        let src = src_tree(ty, d, &mut rng);
        run_source(&w, &src, false, out, &mut typed);
    }
    // (5) every position that demands a constant: (a) every boundary atom of every type in every position,
    //     (b) the same kind of source trees as stream (4)
    let mut posh = Hist::default();
    let all_sites = |src: &str, out: &mut Out, posh: &mut Hist| {
        for site in pos::SITES {
            run_position(&w, site.name, src, out, posh);
        }
        run_position(&w, "assert", src, out, posh);
        run_position(&w, "assertr", src, out, posh);
    };
    for (_, atoms) in SRC_ATOMS {
        for a in atoms.iter() {
            // quick: a seeded half of the atoms (all sites each); thorough: all
            if !thorough && rng.below(2) != 0 {
                continue;
            }
            all_sites(a, out, &mut posh);
        }
    }
    for _ in 0..70 * scale {
        let ty = *rng.pick(&["lit", "int", "uint", "bool", "E0", "E1", "lit", "int", "uint", "float", "double", "flit", "half"]);
        let d = rng.range(1, 4) as u32;
        let src = src_tree(ty, d, &mut rng);
        all_sites(&src, out, &mut posh);
    }
    // (6) whole enum definitions
    for _ in 0..400 * scale {
        let ms = gen_enum(&mut rng);
        run_enum(&w, &ms.join(" ; "), out, &mut posh);
    }
    // (7) operators on operands of mixed kinds, judged at the source level (usual arithmetic conversions)
    let mut mixh = Hist::default();
    mix::generate(&w, &mut rng, thorough, if thorough { 10 } else { 1 }, out, &mut mixh);
    out.stat(&format!("{{\"mixed_kinds\":{}}}", mixh.json()));
    // (8) several instantiations of one template in one compilation
    let mut insth = Hist::default();
    inst::generate(&w, &mut rng, thorough, out, &mut insth);
    out.stat(&format!("{{\"instantiations\":{}}}", insth.json()));
    out.stat(&format!("{{\"positions\":{}}}", posh.json()));
    out.stat(&format!(
        "{{\"direct_ir\":{},\"arbitrary_ir\":{},\"through_type_checker\":{}}}",
        direct.json(),
        wild.json(),
        typed.json()
    ));
}

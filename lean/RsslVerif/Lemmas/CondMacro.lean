import RsslVerif.Lemmas.CondFile
import RsslVerif.Lemmas.CondExpr
/-!
# Lemmas for C11, part 5: `defined` and macro replacement in `#if` lines, on the composed model

`Model.CondFile.topLoop` is `apply_macros(.., apply_defined = true, ..)` with C12's `applyLoop` for the
recursive calls.  `Res env R R'` describes, iteration by iteration, the lines this file covers:
runs of *quiet* tokens (no macro name, no `defined`, no `Concat`), `defined X` (at least one blank),
`defined ( X )` (any blanks), and object-like macros whose body has no identifier.  `topLoop_res` shows the
loop returns `R'`; `subst_res` shows the simple substitution model of `Model.CondExpr` computes the same
tokens, so every theorem about `condValue` holds for the composed model (`condD_eq_condValue`).
-/
namespace RsslVerif.Lemmas.CondMacro
open RsslVerif.Gen.CondTables RsslVerif.Model.CondExpr RsslVerif.Model.Macro RsslVerif.Model.CondFile
open RsslVerif.Lemmas.MacroSubst RsslVerif.Lemmas.CondFile

/-! ### one iteration of `topLoop`, guards discharged -/

theorem topLoop_none (env : List Entry) (toks : List PTok) (sp : SearchPos)
    (hf : findSingleD toks sp env = .ok .none) : topLoop env toks sp = .ok toks := by
  rw [topLoop]
  split
  · simp [hf]
  · rfl

theorem topLoop_defined_step (env : List Entry) (toks : List PTok) (sp : SearchPos) (p : Nat) (x : String)
    (rest : List PTok) (hlt : sp.next < toks.length)
    (hf : findSingleD toks sp env = .ok (.defined p))
    (hrd : readDefined (toks.drop (p + 1)) = .ok (x, rest))
    (hg : sp.next ≤ p ∧ p < toks.length - rest.length ∧ toks.length - rest.length ≤ toks.length) :
    topLoop env toks sp =
      topLoop env (splice toks p (toks.length - rest.length) [definedTok (isDefinedIn env x)])
        ⟨p + 1, p + 1, none⟩ := by
  rw [topLoop]
  simp only [hlt, dif_pos, hf, hrd, hg, and_self]

theorem topLoop_user_step (env : List Entry) (toks : List PTok) (sp : SearchPos) (mi p : Nat) (e : Entry)
    (rest : List PTok) (args args' : List (List PTok)) (output output' : List PTok)
    (hlt : sp.next < toks.length)
    (hf : findSingleD toks sp env = .ok (.user mi p)) (hmi : env[mi]? = some e)
    (hra : readArgs e.m (toks.drop (p + 1)) = .ok (rest, args))
    (hm : mapE (fun a => applyLoop env a SearchPos.start) args = .ok args')
    (hsub : substitute e.m.body args' = .ok output) (hd : e.disabled = false)
    (hbody : applyLoop (disable env mi) output SearchPos.start = .ok output')
    (hp : p < toks.length - rest.length)
    (hg : sp.next < toks.length - rest.length ∧ toks.length - rest.length ≤ toks.length) :
    topLoop env toks sp =
      topLoop env (splice toks p (toks.length - rest.length) output')
        ⟨p + output'.length, p, if e.m.isFunction then some mi else none⟩ := by
  rw [topLoop]
  simp only [hlt, dif_pos, hf, hmi, hra, hm, hsub, hd, hbody, hp, hg, and_self, if_true]

/-! ### quiet tokens -/

/-- a token `find_single_macro` (with `apply_defined`) never stops at -/
def QuietTok (env : List Entry) (t : PTok) : Prop := InertTok env t ∧ t.tok ≠ .id "defined"

def Quiet (env : List Entry) (ts : List PTok) : Prop := ∀ t ∈ ts, QuietTok env t

theorem quiet_append {env : List Entry} {a b : List PTok} (ha : Quiet env a) (hb : Quiet env b) :
    Quiet env (a ++ b) := by
  intro t ht
  rcases List.mem_append.mp ht with h | h
  · exact ha t h
  · exact hb t h

theorem quiet_of_noIds (env : List Entry) (ts : List PTok) (h : noIds ts = true) : Quiet env ts := by
  intro t ht
  refine ⟨inert_of_noIds env ts h t ht, ?_⟩
  have := List.all_eq_true.mp h t ht
  intro hk
  simp [hk] at this

theorem quiet_drop {env : List Entry} {ts : List PTok} (n : Nat) (h : Quiet env ts) : Quiet env (ts.drop n) :=
  fun t ht => h t (List.mem_of_mem_drop ht)

theorem scanFromD_skip_quiet (toks : List PTok) (sp : SearchPos) (env : List Entry) (a rest : List PTok) (i : Nat)
    (h : Quiet env a) : scanFromD toks sp env (a ++ rest) i = scanFromD toks sp env rest (i + a.length) := by
  induction a generalizing i with
  | nil => simp
  | cons t ts ih =>
    obtain ⟨ht, hnd⟩ := h t (by simp)
    have ih' := ih (i + 1) (fun x hx => h x (by simp [hx]))
    simp only [List.cons_append, List.length_cons]
    have : i + (ts.length + 1) = i + 1 + ts.length := by omega
    rw [this, ← ih']
    unfold InertTok at ht
    cases htk : t.tok with
    | id name =>
      simp only [htk] at ht
      have hn : name ≠ "defined" := by intro hh; subst hh; exact hnd htk
      simp [scanFromD, htk, matchMacro_none _ _ _ _ _ _ ht, hn]
    | concat => simp only [htk] at ht
    | _ => simp [scanFromD, htk]

theorem scanFromD_quiet (toks : List PTok) (sp : SearchPos) (env : List Entry) (a : List PTok) (i : Nat)
    (h : Quiet env a) : scanFromD toks sp env a i = .ok .none := by
  have := scanFromD_skip_quiet toks sp env a [] i h
  simp only [List.append_nil] at this
  rw [this]; rfl

/-- the scan from `early = k` over a quiet prefix `P` and a quiet run `a` reaches the token after them -/
theorem findSingleD_reach (env : List Entry) (P a tail : List PTok) (k : Nat) (l : Option Nat)
    (hP : Quiet env P) (ha : Quiet env a) (hk : k ≤ P.length) :
    findSingleD (P ++ (a ++ tail)) ⟨P.length, k, l⟩ env =
      scanFromD (P ++ (a ++ tail)) ⟨P.length, k, l⟩ env tail (P.length + a.length) := by
  unfold findSingleD
  simp only [hk, if_true]
  have hd : (P ++ (a ++ tail)).drop k = (P.drop k ++ a) ++ tail := by
    rw [List.drop_append_of_le_length hk]; simp
  rw [hd, scanFromD_skip_quiet _ _ _ _ _ _ (quiet_append (quiet_drop k hP) ha)]
  congr 1
  simp only [List.length_append, List.length_drop]; omega

/-! ### the operand of `defined` -/

def Blanks (bs : List PTok) : Prop := ∀ t ∈ bs, t.tok = .ws

theorem readDefined_id (w : PTok) (bs : List PTok) (x : String) (lx : Bool) (r : List PTok)
    (hw : w.tok = .ws) (hb : Blanks bs) :
    readDefined (w :: bs ++ ⟨.id x, lx⟩ :: r) = .ok (x, r) := by
  have ht : trimStart (w :: bs ++ ⟨.id x, lx⟩ :: r) = ⟨.id x, lx⟩ :: r := by
    have := trimStart_blanks (w :: bs) r (by intro t ht; rcases List.mem_cons.mp ht with rfl | h; exact hw; exact hb t h)
      ⟨.id x, lx⟩ rfl
    simpa using this
  unfold readDefined
  simp only [ht]
  have : (w :: bs ++ ⟨.id x, lx⟩ :: r).length ≠ (⟨.id x, lx⟩ :: r : List PTok).length := by
    simp only [List.length_cons, List.length_append]; omega
  simp only [ne_eq, this, not_false_eq_true, if_true]

theorem argDepth_plain (a : List PTok) (d : Nat)
    (h : ∀ t ∈ a, t.tok ≠ .lparen ∧ t.tok ≠ .rparen ∧ t.tok ≠ .comma) : argDepth d a = some d := by
  induction a with
  | nil => rfl
  | cons t ts ih =>
    obtain ⟨h1, h2, h3⟩ := h t (by simp)
    have := ih (fun x hx => h x (by simp [hx]))
    unfold argDepth
    cases htk : t.tok <;> simp_all

theorem trimEnd_blanks (x : PTok) (bs : List PTok) (hx : x.tok.isBlank = false) (hb : Blanks bs) :
    trimEnd (x :: bs) = [x] := by
  unfold trimEnd
  have h1 : (x :: bs).reverse = bs.reverse ++ x :: [] := by simp
  have h2 := trimStart_blanks bs.reverse [] (fun t ht => hb t (List.mem_reverse.mp ht)) x hx
  unfold trimStart at h2
  rw [h1, h2]; rfl

theorem readDefined_paren (bs1 bs2 bs3 : List PTok) (x : String) (l1 l2 l3 : Bool) (r : List PTok)
    (h1 : Blanks bs1) (h2 : Blanks bs2) (h3 : Blanks bs3) :
    readDefined (bs1 ++ ⟨.lparen, l1⟩ :: bs2 ++ ⟨.id x, l2⟩ :: bs3 ++ ⟨.rparen, l3⟩ :: r) = .ok (x, r) := by
  have ht : trimStart (bs1 ++ ⟨.lparen, l1⟩ :: (bs2 ++ ⟨.id x, l2⟩ :: (bs3 ++ ⟨.rparen, l3⟩ :: r))) =
      ⟨.lparen, l1⟩ :: (bs2 ++ ⟨.id x, l2⟩ :: (bs3 ++ ⟨.rparen, l3⟩ :: r)) :=
    trimStart_blanks bs1 _ h1 ⟨.lparen, l1⟩ rfl
  have hplain : ∀ t ∈ bs2 ++ ⟨.id x, l2⟩ :: bs3, t.tok ≠ .lparen ∧ t.tok ≠ .rparen ∧ t.tok ≠ .comma := by
    intro t ht
    rcases List.mem_append.mp ht with h | h
    · simp [h2 t h]
    · rcases List.mem_cons.mp h with rfl | h
      · simp
      · simp [h3 t h]
  have hscan : scanArgs (bs2 ++ ⟨.id x, l2⟩ :: (bs3 ++ ⟨.rparen, l3⟩ :: r)) [] [] 0 =
      .ok (r, [trim (bs2 ++ ⟨.id x, l2⟩ :: bs3)]) := by
    have e : bs2 ++ ⟨.id x, l2⟩ :: (bs3 ++ ⟨.rparen, l3⟩ :: r) =
        (bs2 ++ ⟨.id x, l2⟩ :: bs3) ++ ⟨.rparen, l3⟩ :: r := by simp
    rw [e, scanArgs_through _ _ [] [] 0 0 (argDepth_plain _ 0 hplain)]
    simp [scanArgs]
  have htrim : trim (bs2 ++ ⟨.id x, l2⟩ :: bs3) = [⟨.id x, l2⟩] := by
    unfold trim
    rw [trimStart_blanks bs2 bs3 h2 ⟨.id x, l2⟩ rfl]
    exact trimEnd_blanks _ _ rfl h3
  have hsplit : splitArgs "defined" (bs1 ++ ⟨.lparen, l1⟩ :: (bs2 ++ ⟨.id x, l2⟩ :: (bs3 ++ ⟨.rparen, l3⟩ :: r))) =
      .ok (r, [[⟨.id x, l2⟩]]) := by
    unfold splitArgs
    rw [trimStartAll_blanks bs1 _ h1 ⟨.lparen, l1⟩ rfl]
    simp only [hscan, htrim]
  have e0 : bs1 ++ ⟨.lparen, l1⟩ :: bs2 ++ ⟨.id x, l2⟩ :: bs3 ++ ⟨.rparen, l3⟩ :: r =
      bs1 ++ ⟨.lparen, l1⟩ :: (bs2 ++ ⟨.id x, l2⟩ :: (bs3 ++ ⟨.rparen, l3⟩ :: r)) := by simp
  rw [e0]
  unfold readDefined
  simp only [ht, hsplit]

/-! ### the lines covered, iteration by iteration -/

/-- body of an object-like macro the theorem covers: no identifier, no `Concat`, no `MacroArg` -/
def plainBody (ts : List PTok) : Bool :=
  ts.all (fun t => match t.tok with | .id _ => false | .concat => false | .arg _ => false | _ => true)

theorem noIds_of_plain (ts : List PTok) (h : plainBody ts = true) : noIds ts = true := by
  simp only [plainBody, noIds, List.all_eq_true] at h ⊢
  intro t ht
  have := h t ht
  cases hk : t.tok <;> simp_all

theorem noArg_of_plain (ts : List PTok) (h : plainBody ts = true) : ∀ t ∈ ts, ∀ i, t.tok ≠ .arg i := by
  simp only [plainBody, List.all_eq_true] at h
  intro t ht i hk
  have := h t ht
  simp [hk] at this

/-- `Res env R R'`: the `#if` line `R` (after `trim_whitespace`) is a sequence of quiet runs, `defined`
    operators and object-like macros with identifier-free bodies; `R'` is what replacement must produce -/
inductive Res (env : List Entry) : List PTok → List PTok → Prop
  | done (a : List PTok) (ha : Quiet env a) : Res env a a
  | definedId (a bs r r' : List PTok) (x : String) (ld lx : Bool) (w : PTok)
      (ha : Quiet env a) (hw : w.tok = .ws) (hb : Blanks bs) (hr : Res env r r') :
      Res env (a ++ ⟨.id "defined", ld⟩ :: (w :: bs ++ ⟨.id x, lx⟩ :: r))
        (a ++ definedTok (isDefinedIn env x) :: r')
  | definedParen (a bs1 bs2 bs3 r r' : List PTok) (x : String) (ld l1 l2 l3 : Bool)
      (ha : Quiet env a) (h1 : Blanks bs1) (h2 : Blanks bs2) (h3 : Blanks bs3) (hr : Res env r r') :
      Res env (a ++ ⟨.id "defined", ld⟩ :: (bs1 ++ ⟨.lparen, l1⟩ :: bs2 ++ ⟨.id x, l2⟩ :: bs3 ++ ⟨.rparen, l3⟩ :: r))
        (a ++ definedTok (isDefinedIn env x) :: r')
  | objMacro (a r r' : List PTok) (pre post : List Entry) (m : Macro) (l : Bool)
      (ha : Quiet env a) (henv : env = pre ++ ⟨m, false⟩ :: post) (hpre : ∀ e ∈ pre, e.m.name ≠ m.name)
      (hobj : m.isFunction = false) (hbody : plainBody m.body = true) (hn : m.name ≠ "defined")
      (hr : Res env r r') :
      Res env (a ++ ⟨.id m.name, l⟩ :: r) (a ++ (m.body ++ r'))

theorem quiet_definedTok (env : List Entry) (b : Bool) : QuietTok env (definedTok b) := by
  refine ⟨?_, ?_⟩
  · unfold InertTok definedTok; simp
  · unfold definedTok; simp

theorem splice_at (before mid after out : List PTok) :
    splice (before ++ (mid ++ after)) before.length ((before ++ (mid ++ after)).length - after.length) out =
      before ++ (out ++ after) := by
  have := splice_middle before mid after out
  simpa [List.append_assoc] using this

/-- **the loop computes `R'`**, from any quiet prefix `P` already processed -/
theorem topLoop_res (env : List Entry) (R R' : List PTok) (h : Res env R R') :
    ∀ (P : List PTok) (k : Nat) (l : Option Nat), Quiet env P → k ≤ P.length →
      topLoop env (P ++ R) ⟨P.length, k, l⟩ = .ok (P ++ R') := by
  induction h with
  | done a ha =>
    intro P k l hP hk
    apply topLoop_none
    have := findSingleD_reach env P a [] k l hP ha hk
    simp only [List.append_nil] at this
    rw [this]; rfl
  | definedId a bs r r' x ld lx w ha hw hb _ ih =>
    intro P k l hP hk
    let toks := P ++ (a ++ ⟨.id "defined", ld⟩ :: (w :: bs ++ ⟨.id x, lx⟩ :: r))
    have hlen : toks.length = P.length + a.length + 1 + (1 + bs.length + 1 + r.length) := by
      simp only [toks, List.length_append, List.length_cons]; omega
    have hf : findSingleD toks ⟨P.length, k, l⟩ env = .ok (.defined (P.length + a.length)) := by
      show findSingleD (P ++ (a ++ _)) _ _ = _
      rw [findSingleD_reach env P a _ k l hP ha hk]
      simp [scanFromD]
    have hdrop : toks.drop (P.length + a.length + 1) = w :: bs ++ ⟨.id x, lx⟩ :: r := by
      have e : toks = (P ++ a ++ [⟨.id "defined", ld⟩]) ++ (w :: bs ++ ⟨.id x, lx⟩ :: r) := by
        simp [toks, List.append_assoc]
      rw [e]
      have hl : (P ++ a ++ [(⟨.id "defined", ld⟩ : PTok)]).length = P.length + a.length + 1 := by
        simp only [List.length_append, List.length_cons, List.length_nil]
      rw [← hl, List.drop_left]
    have hrd : readDefined (toks.drop (P.length + a.length + 1)) = .ok (x, r) := by
      rw [hdrop]; exact readDefined_id w bs x lx r hw hb
    have hstep := topLoop_defined_step env toks ⟨P.length, k, l⟩ (P.length + a.length) x r
      (by simp only [hlen]; omega) hf hrd (by simp only [hlen]; omega)
    have hsp : splice toks (P.length + a.length) (toks.length - r.length) [definedTok (isDefinedIn env x)] =
        (P ++ a ++ [definedTok (isDefinedIn env x)]) ++ r := by
      have e : toks = (P ++ a) ++ ((⟨.id "defined", ld⟩ :: (w :: bs ++ [⟨.id x, lx⟩])) ++ r) := by
        simp [toks, List.append_assoc]
      have := splice_at (P ++ a) (⟨.id "defined", ld⟩ :: (w :: bs ++ [⟨.id x, lx⟩])) r
        [definedTok (isDefinedIn env x)]
      rw [← e] at this
      simp only [List.length_append] at this
      rw [this]; simp [List.append_assoc]
    show topLoop env toks ⟨P.length, k, l⟩ = _
    rw [hstep, hsp]
    have hq : Quiet env (P ++ a ++ [definedTok (isDefinedIn env x)]) :=
      quiet_append (quiet_append hP ha) (fun t ht => by
        simp only [List.mem_singleton] at ht; subst ht; exact quiet_definedTok env _)
    have := ih (P ++ a ++ [definedTok (isDefinedIn env x)]) (P.length + a.length + 1) none hq
      (by simp only [List.length_append, List.length_cons, List.length_nil]; omega)
    have hl : (P ++ a ++ [definedTok (isDefinedIn env x)]).length = P.length + a.length + 1 := by
        simp only [List.length_append, List.length_cons, List.length_nil]
    rw [hl] at this
    rw [this]; simp [List.append_assoc]
  | definedParen a bs1 bs2 bs3 r r' x ld l1 l2 l3 ha h1 h2 h3 _ ih =>
    intro P k l hP hk
    let opnd := bs1 ++ ⟨.lparen, l1⟩ :: bs2 ++ ⟨.id x, l2⟩ :: bs3 ++ [⟨.rparen, l3⟩]
    have hop : bs1 ++ ⟨.lparen, l1⟩ :: bs2 ++ ⟨.id x, l2⟩ :: bs3 ++ ⟨.rparen, l3⟩ :: r = opnd ++ r := by
      simp [opnd, List.append_assoc]
    let toks := P ++ (a ++ ⟨.id "defined", ld⟩ :: (opnd ++ r))
    have hlen : toks.length = P.length + a.length + 1 + (opnd.length + r.length) := by
      simp only [toks, List.length_append, List.length_cons]; omega
    have hopl : 2 ≤ opnd.length := by simp [opnd]; omega
    have hf : findSingleD toks ⟨P.length, k, l⟩ env = .ok (.defined (P.length + a.length)) := by
      show findSingleD (P ++ (a ++ _)) _ _ = _
      rw [findSingleD_reach env P a _ k l hP ha hk]
      simp [scanFromD]
    have hdrop : toks.drop (P.length + a.length + 1) = opnd ++ r := by
      have e : toks = (P ++ a ++ [⟨.id "defined", ld⟩]) ++ (opnd ++ r) := by
        simp [toks, List.append_assoc]
      rw [e]
      have hl : (P ++ a ++ [(⟨.id "defined", ld⟩ : PTok)]).length = P.length + a.length + 1 := by
        simp only [List.length_append, List.length_cons, List.length_nil]
      rw [← hl, List.drop_left]
    have hrd : readDefined (toks.drop (P.length + a.length + 1)) = .ok (x, r) := by
      rw [hdrop, ← hop]; exact readDefined_paren bs1 bs2 bs3 x l1 l2 l3 r h1 h2 h3
    have hstep := topLoop_defined_step env toks ⟨P.length, k, l⟩ (P.length + a.length) x r
      (by simp only [hlen]; omega) hf hrd (by simp only [hlen]; omega)
    have hsp : splice toks (P.length + a.length) (toks.length - r.length) [definedTok (isDefinedIn env x)] =
        (P ++ a ++ [definedTok (isDefinedIn env x)]) ++ r := by
      have e : toks = (P ++ a) ++ ((⟨.id "defined", ld⟩ :: opnd) ++ r) := by
        simp [toks, List.append_assoc]
      have := splice_at (P ++ a) (⟨.id "defined", ld⟩ :: opnd) r [definedTok (isDefinedIn env x)]
      rw [← e] at this
      simp only [List.length_append] at this
      rw [this]; simp [List.append_assoc]
    rw [hop]
    show topLoop env toks ⟨P.length, k, l⟩ = _
    rw [hstep, hsp]
    have hq : Quiet env (P ++ a ++ [definedTok (isDefinedIn env x)]) :=
      quiet_append (quiet_append hP ha) (fun t ht => by
        simp only [List.mem_singleton] at ht; subst ht; exact quiet_definedTok env _)
    have := ih (P ++ a ++ [definedTok (isDefinedIn env x)]) (P.length + a.length + 1) none hq
      (by simp only [List.length_append, List.length_cons, List.length_nil]; omega)
    have hl : (P ++ a ++ [definedTok (isDefinedIn env x)]).length = P.length + a.length + 1 := by
        simp only [List.length_append, List.length_cons, List.length_nil]
    rw [hl] at this
    rw [this]; simp [List.append_assoc]
  | objMacro a r r' pre post m lm ha henv hpre hobj hbody hn _ ih =>
    intro P k l hP hk
    let toks := P ++ (a ++ ⟨.id m.name, lm⟩ :: r)
    have hlen : toks.length = P.length + a.length + 1 + r.length := by
      simp only [toks, List.length_append, List.length_cons]; omega
    have hmm : matchMacro toks (P.length + a.length) m.name ⟨P.length, k, l⟩ 0 env = some pre.length := by
      rw [henv]
      have := matchMacro_object toks (P.length + a.length) ⟨P.length, k, l⟩ 0 pre post m hpre hobj
        (by simp)
      simpa using this
    have hf : findSingleD toks ⟨P.length, k, l⟩ env = .ok (.user pre.length (P.length + a.length)) := by
      show findSingleD (P ++ (a ++ _)) _ _ = _
      rw [findSingleD_reach env P a _ k l hP ha hk]
      simp only [scanFromD]
      simp only [hn, and_false, if_false]
      show (match matchMacro toks (P.length + a.length) m.name ⟨P.length, k, l⟩ 0 env with
        | some mi => Except.ok (FoundD.user mi (P.length + a.length))
        | none => _) = _
      rw [hmm]
    have hmi : env[pre.length]? = some ⟨m, false⟩ := by rw [henv]; simp
    have hdrop : toks.drop (P.length + a.length + 1) = r := by
      have e : toks = (P ++ a ++ [⟨.id m.name, lm⟩]) ++ r := by simp [toks, List.append_assoc]
      rw [e]
      have hl : (P ++ a ++ [(⟨.id m.name, lm⟩ : PTok)]).length = P.length + a.length + 1 := by
        simp only [List.length_append, List.length_cons, List.length_nil]
      rw [← hl, List.drop_left]
    have hra : readArgs m (toks.drop (P.length + a.length + 1)) = .ok (r, []) := by
      rw [hdrop]; simp [readArgs, hobj]
    have hno := noIds_of_plain m.body hbody
    have hbd : applyLoop (disable env pre.length) m.body SearchPos.start = .ok m.body :=
      applyLoop_inert _ _ _ (Nat.le_refl _) (by simpa [SearchPos.start] using inert_of_noIds _ m.body hno)
    have hstep := topLoop_user_step env toks ⟨P.length, k, l⟩ pre.length (P.length + a.length) ⟨m, false⟩ r
      [] [] m.body m.body (by simp only [hlen]; omega) hf hmi hra rfl
      (substitute_noargs m.body [] (noArg_of_plain m.body hbody)) rfl hbd
      (by simp only [hlen]; omega) (by simp only [hlen]; omega)
    have hsp : splice toks (P.length + a.length) (toks.length - r.length) m.body = (P ++ a ++ m.body) ++ r := by
      have e : toks = (P ++ a) ++ ([⟨.id m.name, lm⟩] ++ r) := by simp [toks, List.append_assoc]
      have := splice_at (P ++ a) [⟨.id m.name, lm⟩] r m.body
      rw [← e] at this
      simp only [List.length_append] at this
      rw [this]; simp [List.append_assoc]
    show topLoop env toks ⟨P.length, k, l⟩ = _
    rw [hstep, hsp]
    simp only [hobj, Bool.false_eq_true, if_false]
    have hq : Quiet env (P ++ a ++ m.body) := quiet_append (quiet_append hP ha) (quiet_of_noIds env _ hno)
    have := ih (P ++ a ++ m.body) (P.length + a.length) none hq
      (by simp only [List.length_append]; omega)
    have hl : (P ++ a ++ m.body).length = P.length + a.length + m.body.length := by
      simp only [List.length_append]
    rw [hl] at this
    rw [this]; simp [List.append_assoc]

/-- `apply_macros(line, macros, apply_defined = true)` returns `R'` -/
theorem applyMacrosD_res (ms : List Macro) (R R' : List PTok) (h : Res (ms.map (⟨·, false⟩)) R R') :
    applyMacrosD ms R = .ok R' := by
  have := topLoop_res _ R R' h [] 0 none (fun _ h => by cases h) (Nat.le_refl _)
  simpa [applyMacrosD, SearchPos.start] using this

/-! ### the simple substitution model of `Model.CondExpr` computes the same tokens -/

open RsslVerif.Lemmas.CondExpr RsslVerif.Spec.CPre

/-- the macro table as `Model.CondExpr` sees it: names with the parser's view of the bodies -/
def cenv (env : List Entry) : Macros := env.map (fun e => (e.m.name, condToks e.m.body))

theorem condToks_append (a b : List PTok) : condToks (a ++ b) = condToks a ++ condToks b := by
  simp [condToks, List.filterMap_append]

theorem condToks_cons (t : PTok) (r : List PTok) :
    condToks (t :: r) = (match toCTok t.tok with | some c => [c] | none => []) ++ condToks r := by
  simp only [condToks, List.filterMap_cons]
  cases toCTok t.tok <;> rfl

theorem condToks_blanks (bs : List PTok) (h : Blanks bs) : condToks bs = [] := by
  induction bs with
  | nil => rfl
  | cons t ts ih =>
    rw [condToks_cons, ih (fun x hx => h x (by simp [hx])), h t (by simp)]
    rfl

theorem toCTok_id (tk : Tok) (x : String) (h : toCTok tk = some (.Id x)) : tk = .id x := by
  cases tk with
  | id s => simp [toCTok] at h; rw [h]
  | int s =>
    simp only [toCTok] at h
    split at h
    · split at h
      · split at h <;> simp at h
      · simp at h
    · simp at h
  | punct s =>
    simp only [toCTok, Option.some.injEq] at h
    split at h
    · cases h
    split at h
    · cases h
    split at h
    · cases h
    split at h
    · cases h
    split at h
    · cases h
    split at h
    · cases h
    split at h
    · cases h
    split at h
    · cases h
    split at h
    · cases h
    split at h
    · cases h
    split at h
    · cases h
    split at h
    · cases h
    cases h
  | _ => simp [toCTok] at h

theorem lookup_cenv_none (env : List Entry) (x : String) (h : ∀ e ∈ env, e.m.name ≠ x) :
    Macros.lookup (cenv env) x = none := by
  induction env with
  | nil => rfl
  | cons e es ih =>
    have he : e.m.name ≠ x := h e (by simp)
    simp only [cenv, List.map_cons, Macros.lookup]
    have : (e.m.name == x) = false := by simpa using he
    simp only [this]
    exact ih (fun y hy => h y (by simp [hy]))

theorem lookup_cenv_first (pre post : List Entry) (m : Macro) (hpre : ∀ e ∈ pre, e.m.name ≠ m.name) :
    Macros.lookup (cenv (pre ++ ⟨m, false⟩ :: post)) m.name = some (condToks m.body) := by
  induction pre with
  | nil => simp [cenv, Macros.lookup]
  | cons e es ih =>
    have he : e.m.name ≠ m.name := hpre e (by simp)
    simp only [cenv, List.map_cons, List.cons_append, Macros.lookup]
    have : (e.m.name == m.name) = false := by simpa using he
    simp only [this]
    exact ih (fun y hy => hpre y (by simp [hy]))

theorem isDefined_cenv (env : List Entry) (x : String) :
    Macros.isDefined (cenv env) x = isDefinedIn env x := by
  simp [Macros.isDefined, cenv, isDefinedIn, List.any_map, Function.comp_def]

theorem subst_quiet (env : List Entry) (b : Bool) (a : List PTok) (X : List CTok) (ha : Quiet env a) :
    subst (cenv env) b (condToks a ++ X) = (subst (cenv env) b X).map (fun r => condToks a ++ r) := by
  induction a with
  | nil => simp [condToks, Except.map]; cases subst (cenv env) b X <;> rfl
  | cons t ts ih =>
    obtain ⟨hin, hnd⟩ := ha t (by simp)
    have iht := ih (fun x hx => ha x (by simp [hx]))
    rw [condToks_cons]
    cases hc : toCTok t.tok with
    | none => simpa using iht
    | some c =>
      simp only [List.singleton_append, List.cons_append, List.nil_append]
      by_cases hid : ∃ x, c = .Id x
      · obtain ⟨x, rfl⟩ := hid
        have htk := toCTok_id _ _ hc
        have hx : x ≠ "defined" := by intro h; subst h; exact hnd htk
        unfold InertTok at hin
        simp only [htk] at hin
        rw [subst_id _ _ _ _ hx, lookup_cenv_none env x hin, iht]
        cases subst (cenv env) b X <;> simp [Except.map]
      · have hne : ∀ x, c ≠ .Id x := fun x hx => hid ⟨x, hx⟩
        rw [subst_other _ _ _ _ hne, iht]
        cases subst (cenv env) b X <;> simp [Except.map]

theorem condToks_definedTok (b : Bool) : condToks [definedTok b] = [.LiteralInt (b2u b)] := by
  cases b <;> decide

/-- **the simple substitution model computes the CTok image of `R'`** -/
theorem subst_res (env : List Entry) (R R' : List PTok) (h : Res env R R') :
    subst (cenv env) true (condToks R) = .ok (condToks R') := by
  induction h with
  | done a ha =>
    have := subst_quiet env true a [] ha
    simpa [subst, Except.map] using this
  | definedId a bs r r' x ld lx w ha hw hb _ ih =>
    have e1 : condToks (a ++ ⟨.id "defined", ld⟩ :: (w :: bs ++ ⟨.id x, lx⟩ :: r)) =
        condToks a ++ (.Id "defined" :: .Id x :: condToks r) := by
      rw [condToks_append, condToks_cons]
      have : condToks (w :: bs ++ ⟨.id x, lx⟩ :: r) = .Id x :: condToks r := by
        have e : w :: bs ++ ⟨.id x, lx⟩ :: r = (w :: bs) ++ ⟨.id x, lx⟩ :: r := by simp
        rw [e, condToks_append, condToks_blanks (w :: bs) (by
          intro t ht; rcases List.mem_cons.mp ht with rfl | h; exact hw; exact hb t h), condToks_cons]
        simp [toCTok]
      rw [this]; simp [toCTok]
    rw [e1, subst_quiet env true a _ ha, subst_defined_id, ih, isDefined_cenv]
    rw [condToks_append]
    have : condToks (definedTok (isDefinedIn env x) :: r') = .LiteralInt (b2u (isDefinedIn env x)) :: condToks r' := by
      have := condToks_append [definedTok (isDefinedIn env x)] r'
      simp only [List.singleton_append] at this
      rw [this, condToks_definedTok]; rfl
    rw [this]; rfl
  | definedParen a bs1 bs2 bs3 r r' x ld l1 l2 l3 ha h1 h2 h3 _ ih =>
    have e1 : condToks (a ++ ⟨.id "defined", ld⟩ ::
          (bs1 ++ ⟨.lparen, l1⟩ :: bs2 ++ ⟨.id x, l2⟩ :: bs3 ++ ⟨.rparen, l3⟩ :: r)) =
        condToks a ++ (.Id "defined" :: .LeftParen :: .Id x :: .RightParen :: condToks r) := by
      have e : bs1 ++ ⟨.lparen, l1⟩ :: bs2 ++ ⟨.id x, l2⟩ :: bs3 ++ ⟨.rparen, l3⟩ :: r =
          bs1 ++ (⟨.lparen, l1⟩ :: (bs2 ++ (⟨.id x, l2⟩ :: (bs3 ++ (⟨.rparen, l3⟩ :: r))))) := by simp
      rw [condToks_append, condToks_cons, e, condToks_append, condToks_blanks bs1 h1, condToks_cons,
        condToks_append, condToks_blanks bs2 h2, condToks_cons, condToks_append, condToks_blanks bs3 h3,
        condToks_cons]
      simp [toCTok]
    rw [e1, subst_quiet env true a _ ha, subst_defined_paren, ih, isDefined_cenv]
    rw [condToks_append]
    have : condToks (definedTok (isDefinedIn env x) :: r') = .LiteralInt (b2u (isDefinedIn env x)) :: condToks r' := by
      have := condToks_append [definedTok (isDefinedIn env x)] r'
      simp only [List.singleton_append] at this
      rw [this, condToks_definedTok]; rfl
    rw [this]; rfl
  | objMacro a r r' pre post m lm ha henv hpre hobj hbody hn _ ih =>
    have e1 : condToks (a ++ ⟨.id m.name, lm⟩ :: r) = condToks a ++ (.Id m.name :: condToks r) := by
      rw [condToks_append, condToks_cons]; simp [toCTok]
    rw [e1, subst_quiet env true a _ ha, subst_id _ _ _ _ hn]
    have hl : Macros.lookup (cenv env) m.name = some (condToks m.body) := by
      rw [henv]; exact lookup_cenv_first pre post m hpre
    rw [hl, ih]
    simp [Except.map, condToks_append]

/-- the composed model evaluates a covered line like the simple model of `Model.CondExpr` -/
theorem condD_eq_condValue (ms : List Macro) (R R' : List PTok)
    (h : Res (ms.map (⟨·, false⟩)) (trim R) R') :
    condD ms R =
      match condValue (cenv (ms.map (⟨·, false⟩))) (condToks (trim R)) with
      | .ok b => .ok b
      | .error _ => .error .failedToParseIfCondition := by
  unfold condD condValue
  rw [applyMacrosD_res ms _ _ h, subst_res _ _ _ h]
  simp only []
  cases hp : parseCond (condToks R') <;> simp [hp]

/-- Non-vacuity: the line `A == 5 && defined F && defined ( X ) && ! defined U` with `A` ↦ `5`, a function-like
    `F(x)` ↦ `x + G`, and `X` ↦ `Y` (an identifier body, never used as an operand) is covered. -/
def exMacros : List Macro :=
  [⟨"A", false, 0, [⟨.int "5", true⟩]⟩,
   ⟨"F", true, 1, [⟨.arg 0, true⟩, ⟨.punct "+", true⟩, ⟨.id "G", true⟩]⟩,
   ⟨"X", false, 0, [⟨.id "Y", true⟩]⟩]

def W : PTok := ⟨.ws, true⟩
def I (s : String) : PTok := ⟨.id s, true⟩
def Pn (s : String) : PTok := ⟨.punct s, true⟩

def exLine : List PTok :=
  [I "A", W, Pn "==", W, ⟨.int "5", true⟩, W, Pn "&&", W, I "defined", W, I "F", W, Pn "&&", W,
   I "defined", W, ⟨.lparen, true⟩, W, I "X", W, ⟨.rparen, true⟩, W, Pn "&&", W, Pn "!", W, I "defined", W, W, I "U"]

def exOut : List PTok :=
  [⟨.int "5", true⟩, W, Pn "==", W, ⟨.int "5", true⟩, W, Pn "&&", W, definedTok true, W, Pn "&&", W,
   definedTok true, W, Pn "&&", W, Pn "!", W, definedTok false]

theorem exRes : Res (exMacros.map (⟨·, false⟩)) exLine exOut := by
  have q : ∀ a : List PTok, noIds a = true → Quiet (exMacros.map (⟨·, false⟩)) a :=
    fun a h => quiet_of_noIds _ a h
  have h4 : Res (exMacros.map (⟨·, false⟩)) [] [] := Res.done [] (q [] rfl)
  have h3 := Res.definedId (env := exMacros.map (⟨·, false⟩)) [W, Pn "&&", W, Pn "!", W] [W] [] [] "U" true true W
    (q _ (by decide)) rfl (by intro t ht; simp at ht; subst ht; rfl) h4
  have h2 := Res.definedParen (env := exMacros.map (⟨·, false⟩)) [W, Pn "&&", W] [W] [W] [W] _ _ "X" true true true true
    (q _ (by decide)) (by intro t ht; simp at ht; subst ht; rfl) (by intro t ht; simp at ht; subst ht; rfl)
    (by intro t ht; simp at ht; subst ht; rfl) h3
  have h1 := Res.definedId (env := exMacros.map (⟨·, false⟩)) [W, Pn "==", W, ⟨.int "5", true⟩, W, Pn "&&", W] [] _ _
    "F" true true W (q _ (by decide)) rfl (by intro t ht; cases ht) h2
  have h0 := Res.objMacro (env := exMacros.map (⟨·, false⟩)) [] _ _ []
    [⟨exMacros[1], false⟩, ⟨exMacros[2], false⟩] exMacros[0] true (q [] rfl) rfl (by intro e he; cases he) rfl
    (by decide) (by decide) h1
  exact h0

end RsslVerif.Lemmas.CondMacro

//! Property sets of static samplers and graphics pipelines: the source text of variant `k` together with the values the
//! compiler has to report for it.  Every choice derives from `k` alone, so a request stays self-contained.
//! The value tables below are written from the language's point of view (property name / spelling -> meaning) and do
//! not read the compiler's tables.
use crate::util::Rng;
use rssl::ir;

const FILTERS: &[(&str, ir::SamplerFilterMode)] =
    &[("MIN_MAG_MIP_POINT", ir::SamplerFilterMode::Point), ("MIN_MAG_MIP_LINEAR", ir::SamplerFilterMode::Linear)];
const ADDRESS: &[(&str, ir::SamplerAddressMode)] =
    &[("Wrap", ir::SamplerAddressMode::Wrap), ("Clamp", ir::SamplerAddressMode::Clamp), ("Border", ir::SamplerAddressMode::Border)];
const COMPARE: &[(&str, ir::SamplerCompareFunc)] = &[
    ("None", ir::SamplerCompareFunc::None),
    ("Never", ir::SamplerCompareFunc::Never),
    ("Less", ir::SamplerCompareFunc::Less),
    ("Equal", ir::SamplerCompareFunc::Equal),
    ("LessEqual", ir::SamplerCompareFunc::LessEqual),
    ("Greater", ir::SamplerCompareFunc::Greater),
    ("NotEqual", ir::SamplerCompareFunc::NotEqual),
    ("GreaterEqual", ir::SamplerCompareFunc::GreaterEqual),
    ("Always", ir::SamplerCompareFunc::Always),
];
const BORDER: &[(&str, ir::SamplerBorderColor)] = &[
    ("TransparentBlack", ir::SamplerBorderColor::TransparentBlack),
    ("OpaqueBlack", ir::SamplerBorderColor::OpaqueBlack),
    ("OpaqueWhite", ir::SamplerBorderColor::OpaqueWhite),
    ("TransparentBlackInt", ir::SamplerBorderColor::TransparentBlackInt),
    ("OpaqueBlackInt", ir::SamplerBorderColor::OpaqueBlackInt),
    ("OpaqueWhiteInt", ir::SamplerBorderColor::OpaqueWhiteInt),
];

/// the documented defaults of a static sampler
pub fn sampler_default() -> ir::StaticSampler {
    ir::StaticSampler {
        filter: ir::SamplerFilterMode::Point,
        address_u: ir::SamplerAddressMode::Clamp,
        address_v: ir::SamplerAddressMode::Clamp,
        address_w: ir::SamplerAddressMode::Clamp,
        compare_func: ir::SamplerCompareFunc::None,
        max_anisotropy: 1,
        lod_clamp_min: 0.0,
        lod_clamp_max: f32::MAX,
        border_color: ir::SamplerBorderColor::TransparentBlack,
    }
}

/// (text between the braces of `StaticSampler { .. }`, expected value)
pub fn sampler_props(k: u32) -> (String, ir::StaticSampler) {
    let mut want = sampler_default();
    if k == 0 {
        want.filter = ir::SamplerFilterMode::Linear;
        return ("Filter = MIN_MAG_MIP_LINEAR;".to_string(), want);
    }
    let mut rng = Rng::new(0xC05_5A00 + k as u64);
    let mut props: Vec<String> = Vec::new();
    if rng.chance(2, 3) {
        let (n, v) = *rng.pick(FILTERS);
        props.push(format!("Filter = {};", n));
        want.filter = v;
    }
    for (name, which) in [("AddressU", 0), ("AddressV", 1), ("AddressW", 2)] {
        if rng.chance(1, 2) {
            let (n, v) = *rng.pick(ADDRESS);
            props.push(format!("{} = {};", name, n));
            match which {
                0 => want.address_u = v,
                1 => want.address_v = v,
                _ => want.address_w = v,
            }
        }
    }
    if rng.chance(1, 2) {
        let (n, v) = *rng.pick(COMPARE);
        props.push(format!("CompareFunc = {};", n));
        want.compare_func = v;
    }
    if rng.chance(1, 2) {
        let v = 1 + rng.below(16) as u32;
        props.push(format!("MaxAnisotropy = {};", v));
        want.max_anisotropy = v;
    }
    if rng.chance(1, 3) {
        let v = rng.below(4) as u32;
        props.push(format!("MinLOD = {}.5f;", v));
        want.lod_clamp_min = v as f32 + 0.5;
    }
    if rng.chance(1, 3) {
        let v = 4 + rng.below(8) as u32;
        props.push(format!("MaxLOD = {}.0f;", v));
        want.lod_clamp_max = v as f32;
    }
    if rng.chance(1, 2) {
        let (n, v) = *rng.pick(BORDER);
        props.push(format!("BorderColor = {};", n));
        want.border_color = v;
    }
    // properties may come in any order
    for i in (1..props.len()).rev() {
        let j = rng.below(i as u64 + 1) as usize;
        props.swap(i, j);
    }
    (props.join(" "), want)
}

const FACTORS: &[(&str, ir::BlendFactor)] = &[
    ("Zero", ir::BlendFactor::Zero),
    ("One", ir::BlendFactor::One),
    ("SrcColor", ir::BlendFactor::SrcColor),
    ("OneMinusSrcColor", ir::BlendFactor::OneMinusSrcColor),
    ("DstColor", ir::BlendFactor::DstColor),
    ("OneMinusDstColor", ir::BlendFactor::OneMinusDstColor),
    ("SrcAlpha", ir::BlendFactor::SrcAlpha),
    ("OneMinusSrcAlpha", ir::BlendFactor::OneMinusSrcAlpha),
    ("DstAlpha", ir::BlendFactor::DstAlpha),
    ("OneMinusDstAlpha", ir::BlendFactor::OneMinusDstAlpha),
    ("SrcAlphaSaturate", ir::BlendFactor::SrcAlphaSaturate),
    ("ConstantColor", ir::BlendFactor::ConstantColor),
    ("OneMinusConstantColor", ir::BlendFactor::OneMinusConstantColor),
    ("ConstantAlpha", ir::BlendFactor::ConstantAlpha),
    ("OneMinusConstantAlpha", ir::BlendFactor::OneMinusConstantAlpha),
    ("Src1Color", ir::BlendFactor::Src1Color),
    ("OneMinusSrc1Color", ir::BlendFactor::OneMinusSrc1Color),
    ("Src1Alpha", ir::BlendFactor::Src1Alpha),
    ("OneMinusSrc1Alpha", ir::BlendFactor::OneMinusSrc1Alpha),
];
// the language spells the subtract operation `Subtrack`
const OPS: &[(&str, ir::BlendOp)] = &[
    ("Add", ir::BlendOp::Add),
    ("Subtrack", ir::BlendOp::Subtrack),
    ("RevSubtract", ir::BlendOp::RevSubtract),
    ("Min", ir::BlendOp::Min),
    ("Max", ir::BlendOp::Max),
];

fn attachment_default() -> ir::BlendAttachmentState {
    ir::BlendAttachmentState {
        blend_enabled: false,
        src_blend: ir::BlendFactor::One,
        dst_blend: ir::BlendFactor::Zero,
        blend_op: ir::BlendOp::Add,
        src_blend_alpha: ir::BlendFactor::One,
        dst_blend_alpha: ir::BlendFactor::Zero,
        blend_op_alpha: ir::BlendOp::Add,
        write_mask: ir::ComponentMask(0xF),
    }
}

fn blend_block(rng: &mut Rng) -> (String, ir::BlendAttachmentState) {
    let mut st = attachment_default();
    let mut props = Vec::new();
    if rng.chance(2, 3) {
        let v = rng.chance(1, 2);
        props.push(format!("BlendEnabled = {};", v));
        st.blend_enabled = v;
    }
    for (name, which) in [("SrcBlend", 0), ("DstBlend", 1), ("SrcBlendAlpha", 2), ("DstBlendAlpha", 3)] {
        if rng.chance(1, 2) {
            let (n, v) = *rng.pick(FACTORS);
            props.push(format!("{} = \"{}\";", name, n));
            match which {
                0 => st.src_blend = v,
                1 => st.dst_blend = v,
                2 => st.src_blend_alpha = v,
                _ => st.dst_blend_alpha = v,
            }
        }
    }
    for (name, alpha) in [("BlendOp", false), ("BlendOpAlpha", true)] {
        if rng.chance(1, 2) {
            let (n, v) = *rng.pick(OPS);
            props.push(format!("{} = \"{}\";", name, n));
            if alpha {
                st.blend_op_alpha = v;
            } else {
                st.blend_op = v;
            }
        }
    }
    if rng.chance(1, 2) {
        let v = rng.below(16) as u8;
        props.push(format!("WriteMask = {};", v));
        st.write_mask = ir::ComponentMask(v);
    }
    for i in (1..props.len()).rev() {
        let j = rng.below(i as u64 + 1) as usize;
        props.swap(i, j);
    }
    (format!("{{ {} }}", props.join(" ")), st)
}

/// does property set `k` contain a property the front end refuses on a compute pipeline (formats, cull mode,
/// winding order; blend state blocks are accepted and ignored there)
pub fn graphics_props_strict(k: u32) -> bool {
    let t = graphics_props(k).0;
    ["RenderTargetFormat", "DepthTargetFormat", "CullMode", "WindingOrder"].iter().any(|p| t.contains(p))
}

/// (property lines of a graphics `Pipeline` block, expected state); `k` = 0: no property, all defaults
pub fn graphics_props(k: u32) -> (String, ir::GraphicsPipelineState) {
    let mut want = ir::GraphicsPipelineState {
        render_target_formats: Vec::new(),
        depth_target_format: None,
        cull_mode: ir::CullMode::Back,
        winding_order: ir::WindingOrder::CounterClockwise,
        blend_state: ir::BlendState { attachments: [attachment_default(); 8] },
    };
    if k == 0 {
        return (String::new(), want);
    }
    // 9001..9004: exactly one property, one of each group a compute pipeline refuses
    match k {
        9001 => {
            want.render_target_formats = vec![None, None, Some("R32_UINT".to_string())];
            return ("    RenderTargetFormat2 = \"R32_UINT\";\n".to_string(), want);
        }
        9002 => {
            want.depth_target_format = Some("D32_FLOAT".to_string());
            return ("    DepthTargetFormat = \"D32_FLOAT\";\n".to_string(), want);
        }
        9003 => {
            want.cull_mode = ir::CullMode::Front;
            return ("    CullMode = \"Front\";\n".to_string(), want);
        }
        9004 => {
            want.winding_order = ir::WindingOrder::Clockwise;
            return ("    WindingOrder = \"Clockwise\";\n".to_string(), want);
        }
        _ => {}
    }
    let mut rng = Rng::new(0xC05_6500 + k as u64);
    let mut props: Vec<String> = Vec::new();
    const FORMATS: &[&str] = &["R8G8B8A8_UNORM", "R16G16B16A16_FLOAT", "R32_UINT", "B8G8R8A8_SRGB"];
    for i in 0..8 {
        if rng.chance(1, 4) {
            let f = *rng.pick(FORMATS);
            props.push(format!("    RenderTargetFormat{} = \"{}\";\n", i, f));
            if want.render_target_formats.len() < i + 1 {
                want.render_target_formats.resize(i + 1, None);
            }
            want.render_target_formats[i] = Some(f.to_string());
        }
    }
    if rng.chance(1, 2) {
        let f = *rng.pick(&["D32_FLOAT", "D24_UNORM_S8_UINT"]);
        props.push(format!("    DepthTargetFormat = \"{}\";\n", f));
        want.depth_target_format = Some(f.to_string());
    }
    if rng.chance(1, 2) {
        let (n, v) = *rng.pick(&[("None", ir::CullMode::None), ("Front", ir::CullMode::Front), ("Back", ir::CullMode::Back)]);
        props.push(format!("    CullMode = \"{}\";\n", n));
        want.cull_mode = v;
    }
    if rng.chance(1, 2) {
        let (n, v) =
            *rng.pick(&[("CounterClockwise", ir::WindingOrder::CounterClockwise), ("Clockwise", ir::WindingOrder::Clockwise)]);
        props.push(format!("    WindingOrder = \"{}\";\n", n));
        want.winding_order = v;
    }
    // the shared block applies to every attachment that has no block of its own, wherever it is written
    let mut shared = attachment_default();
    if rng.chance(1, 2) {
        let (t, st) = blend_block(&mut rng);
        props.push(format!("    BlendState = {}\n", t));
        shared = st;
    }
    let mut own = [false; 8];
    for i in 0..8 {
        if rng.chance(1, 5) {
            let (t, st) = blend_block(&mut rng);
            props.push(format!("    BlendState{} = {}\n", i, t));
            want.blend_state.attachments[i] = st;
            own[i] = true;
        }
    }
    for i in 0..8 {
        if !own[i] {
            want.blend_state.attachments[i] = shared;
        }
    }
    for i in (1..props.len()).rev() {
        let j = rng.below(i as u64 + 1) as usize;
        props.swap(i, j);
    }
    (props.concat(), want)
}

import RsslVerif.Lemmas.LexStableTok
import RsslVerif.Lemmas.Trivia
import RsslVerif.Model.TriviaLexer
/-!
# The three facts about the concrete lexer that the trivia theorem needs

`rsslLexer` is `Model.Lexer.tokenIntermediate _ false` behind the `Model.Trivia.Lexer` interface.  For a trivia text
`w` (white space, line ends, splices, complete comments):

* (T) `LexesAs rsslLexer w ws` — it lexes into whitespace tokens whatever follows;
* (A′) a token after which insertion is allowed is unchanged when `w` follows it directly;
* (D′) a token is unchanged when `w` is inserted at or beyond the end of the next token, provided that next
  token is unchanged.

(A′) and (D′) are instances of `tokenIntermediate_stable`.
-/
namespace RsslVerif.Lemmas.TriviaLexer
open RsslVerif.Gen.LexTables RsslVerif.Model.Lexer RsslVerif.Lemmas.LexStable
open RsslVerif.Model.Trivia RsslVerif.Model.TriviaLexer RsslVerif.Lemmas.Trivia
open RsslVerif.Model.SourceMap (insertAt)

/-! ## evaluation on fixed prefixes -/

theorem ti_space (y : Bytes) : tokenIntermediate (32 :: y) false = .ok (y, .simple .Whitespace) := by
  simp [tokenIntermediate, tokenStep, isIdentStart, tokenChoice, choose, runSub, whitespaceSimple]

theorem ti_tab (y : Bytes) : tokenIntermediate (9 :: y) false = .ok (y, .simple .Whitespace) := by
  simp [tokenIntermediate, tokenStep, isIdentStart, tokenChoice, choose, runSub, whitespaceSimple]

theorem ti_lf (y : Bytes) : tokenIntermediate (10 :: y) false = .ok (y, .simple .Endline) := by
  simp [tokenIntermediate, tokenStep, isIdentStart, tokenChoice, choose, runSub, whitespaceSimple, whitespaceEndline,
    stripPrefix?, otherTokenChars, ErrAt.len]

theorem ti_crlf (y : Bytes) : tokenIntermediate (13 :: 10 :: y) false = .ok (y, .simple .Endline) := by
  simp [tokenIntermediate, tokenStep, isIdentStart, tokenChoice, choose, runSub, whitespaceSimple, whitespaceEndline,
    stripPrefix?, otherTokenChars, ErrAt.len]

theorem ti_splice (y : Bytes) : tokenIntermediate (92 :: 10 :: y) false = .ok (y, .simple .PhysicalEndline) := by
  simp [tokenIntermediate, tokenStep, isIdentStart, tokenChoice, choose, runSub, whitespaceSimple, whitespaceEndline,
    stripPrefix?, otherTokenChars, ErrAt.len]

theorem ti_spliceCr (y : Bytes) : tokenIntermediate (92 :: 13 :: 10 :: y) false = .ok (y, .simple .PhysicalEndline) := by
  simp [tokenIntermediate, tokenStep, isIdentStart, tokenChoice, choose, runSub, whitespaceSimple, whitespaceEndline,
    stripPrefix?, otherTokenChars, ErrAt.len]

theorem ti_block (r y : Bytes) (h : blockSearch r = some y) :
    tokenIntermediate (47 :: 42 :: r) false = .ok (y, .simple .Comment) := by
  simp [tokenIntermediate, tokenStep, isIdentStart, tokenChoice, choose, runSub, whitespaceSimple, whitespaceEndline,
    stripPrefix?, otherTokenChars, ErrAt.len, lineComment, blockComment, h]

theorem ti_line (r : Bytes) :
    tokenIntermediate (47 :: 47 :: r) false = .ok (lineCommentEnd r, .simple .Comment) := by
  simp [tokenIntermediate, tokenStep, isIdentStart, tokenChoice, choose, runSub, whitespaceSimple, whitespaceEndline,
    stripPrefix?, otherTokenChars, ErrAt.len, lineComment]

theorem ti_langle (y : Bytes) :
    tokenIntermediate (60 :: y) false = .ok (y, .leftAngle (followedBy (tokenIntermediate y false))) := by
  simp [tokenIntermediate, tokenStep, isIdentStart, tokenChoice, choose, runSub, whitespaceSimple, whitespaceEndline,
    stripPrefix?, otherTokenChars, ErrAt.len, lineComment, blockComment, literalString, delimited]

theorem ti_rangle (y : Bytes) :
    tokenIntermediate (62 :: y) false = .ok (y, .rightAngle (followedBy (tokenIntermediate y false))) := by
  simp [tokenIntermediate, tokenStep, isIdentStart, tokenChoice, choose, runSub, whitespaceSimple, whitespaceEndline,
    stripPrefix?, otherTokenChars, ErrAt.len, lineComment, blockComment, literalString, delimited]

/-! ## `tokAt` -/

theorem tokAt_of_ok {x rest : Bytes} {t : Token} (h : tokenIntermediate x false = .ok (rest, t)) :
    tokAt x = some ((t, x.take (x.length - rest.length)), x.length - rest.length) := by
  simp [tokAt, h]

/-- a successful `tokAt` in terms of the consumed bytes `p` and the rest -/
theorem tokAt_split {x : Bytes} {t : LTok} {n : Nat} (h : tokAt x = some (t, n)) :
    ∃ p rest, x = p ++ rest ∧ p.length = n ∧ t.2 = p ∧ tokenIntermediate x false = .ok (rest, t.1) := by
  unfold tokAt at h
  cases hx : tokenIntermediate x false with
  | error e => rw [hx] at h; cases h
  | ok rt =>
    obtain ⟨rest, tk⟩ := rt
    rw [hx] at h
    simp only [Option.some.injEq, Prod.mk.injEq] at h
    obtain ⟨ht, hn⟩ := h
    have hgood := tokenIntermediate_good x false
    rw [hx] at hgood
    obtain ⟨p, hp⟩ := hgood
    have hlen : p.length = n := by
      rw [← hn, ← hp]; simp
    refine ⟨p, rest, hp.symm, hlen, ?_, ?_⟩
    · rw [← ht]
      simp only
      rw [← hp]; simp
    · rw [← ht]

theorem tokAt_of_split {p rest : Bytes} {tk : Token} (h : tokenIntermediate (p ++ rest) false = .ok (rest, tk)) :
    tokAt (p ++ rest) = some ((tk, p), p.length) := by
  rw [tokAt_of_ok h]
  simp

/-! ## (A′) and (D′) -/

/-- the side condition on the text at the start of a token: the float lexer did not give up on an `x` suffix -/
def good (x : Bytes) : Prop := ¬ FloatGaveUpOnX x

/-- the tokens after which `w` may be inserted: the spelling does not begin with `<`, `>` or `//`, and a lone `/`
is not followed by a `w` that starts with `/` -/
def allowedBefore (w : Bytes) (t : LTok) : Prop :=
  (∀ r, t.2 ≠ 60 :: r) ∧ (∀ r, t.2 ≠ 62 :: r) ∧ (∀ r, t.2 ≠ 47 :: 47 :: r) ∧ (t.2 = [47] → ∀ r, w ≠ 47 :: r)

theorem headStop_append {w y : Bytes} (hw : HeadStop w) (hne : w ≠ []) : HeadStop (w ++ y) := by
  cases w with
  | nil => exact absurd rfl hne
  | cons b r => exact hw

theorem u8_eq_of_toNat {a b : UInt8} (h : a.toNat = b.toNat) : a = b := UInt8.toNat_inj.1 h

theorem adjacent (w : Bytes) (hw : HeadStop w) (t : LTok) (ha : allowedBefore w t) :
    AdjacentStableIf rsslLexer w good t := by
  intro x n hg ht hn hle
  show tokAt _ = _
  obtain ⟨p, rest, hx, hlen, hlex, hti⟩ := tokAt_split ht
  subst hx
  have htake : (p ++ rest).take n = p := by rw [← hlen]; simp
  have hdrop : (p ++ rest).drop n = rest := by rw [← hlen]; simp
  rw [htake, hdrop]
  by_cases hwn : w = []
  · subst hwn; simp only [List.append_nil]; exact ht
  · cases p with
    | nil => simp at hlen; omega
    | cons b c =>
      obtain ⟨ha60, ha62, hacc, haslash⟩ := ha
      rw [hlex] at ha60 ha62 hacc haslash
      have hstable := tokenIntermediate_stable b c [] rest (w ++ rest) t.1 (by simpa using hti)
        (headStop_append hw hwn) (by simpa [good] using hg)
        { slash := by
            intro hb hc _ r hr
            subst hc
            have hb' : b = 47 := u8_eq_of_toNat (by simpa using hb)
            subst hb'
            cases w with
            | nil => exact hwn rfl
            | cons wb wr =>
              simp only [List.cons_append, List.cons.injEq] at hr
              exact haslash rfl wr (by rw [hr.1])
          lineComment := by
            intro c0 c1 hc hb hc0
            exfalso
            subst hc
            have hb' : b = 47 := u8_eq_of_toNat (by simpa using hb)
            have hc' : c0 = 47 := u8_eq_of_toNat (by simpa using hc0)
            subst hb' hc'
            exact hacc c1 rfl }
        (by
          intro hb
          exfalso
          rcases hb with hb | hb
          · have hb' : b = 60 := u8_eq_of_toNat (by simpa using hb)
            subst hb'; exact ha60 c rfl
          · have hb' : b = 62 := u8_eq_of_toNat (by simpa using hb)
            subst hb'; exact ha62 c rfl)
      have := tokAt_of_split (p := b :: c) (rest := w ++ rest) (tk := t.1) (by simpa using hstable)
      rw [List.append_assoc]
      rw [this, ← hlen, ← hlex]

/-- the text after a line comment begins with the line ending that stopped it -/
theorem lineCommentEnd_head (r : Bytes) :
    lineCommentEnd r = [] ∨ (∃ y, lineCommentEnd r = 10 :: y) ∨ (∃ y, lineCommentEnd r = 13 :: 10 :: y) := by
  fun_induction lineCommentEnd r <;> simp_all
  · rename_i h10
    left; exact u8_eq_of_toNat (by simpa using h10)
  · rename_i h13 _ _ hd
    right; exact ⟨u8_eq_of_toNat (by simpa using h13), u8_eq_of_toNat (by simpa using hd)⟩

theorem distant (w : Bytes) (hw : HeadStop w) : DistantStableIf rsslLexer w good := by
  intro x t n t2 n2 j hg ht hn hle ht2 hn2 hj hjx hnext
  show tokAt _ = _
  change tokAt _ = _ at ht ht2 hnext
  obtain ⟨p, rest, hx, hlen, hlex, hti⟩ := tokAt_split ht
  subst hx
  have hdrop : (p ++ rest).drop n = rest := by rw [← hlen]; simp
  rw [hdrop] at ht2 hnext
  have hjr : j - n ≤ rest.length := by simp [List.length_append] at hjx; omega
  -- split the rest at the insertion point
  have hq : rest = rest.take (j - n) ++ rest.drop (j - n) := (List.take_append_drop _ _).symm
  have hqlen : (rest.take (j - n)).length = j - n := by simp [List.length_take]; omega
  have hins : insertAt (p ++ rest) j w = p ++ (rest.take (j - n) ++ (w ++ rest.drop (j - n))) := by
    unfold insertAt
    have h1 : (p ++ rest).take j = p ++ rest.take (j - n) := by
      rw [List.take_append, hlen]
      have : p.take j = p := by apply List.take_of_length_le; omega
      rw [this]
    have h2 : (p ++ rest).drop j = rest.drop (j - n) := by
      rw [List.drop_append, hlen]
      have : p.drop j = [] := by apply List.drop_of_length_le; omega
      rw [this]; simp
    rw [h1, h2]; simp [List.append_assoc]
  rw [hins]
  by_cases hwn : w = []
  · subst hwn
    simp only [List.nil_append]
    rw [← hq]; exact ht
  · cases p with
    | nil => simp at hlen; omega
    | cons b c =>
      generalize hqd : rest.take (j - n) = q at *
      generalize hsd : rest.drop (j - n) = s at *
      have hrest : rest = q ++ s := hq
      subst hrest
      -- the next token, before and after the insertion
      have hins2 : insertAt (q ++ s) (j - n) w = q ++ (w ++ s) := by
        unfold insertAt
        rw [hqd, hsd]; simp [List.append_assoc]
      rw [hins2] at hnext
      obtain ⟨p2, r2, hx2, hlen2, _, hti2⟩ := tokAt_split ht2
      obtain ⟨p2', r2', hx2', hlen2', _, hti2'⟩ := tokAt_split hnext
      have hstable := tokenIntermediate_stable b c q s (w ++ s) t.1 (by simpa using hti)
        (headStop_append hw hwn) (by simpa [good] using hg)
        { slash := by
            intro _ _ hq0
            exfalso
            subst hq0
            simp at hqlen; omega
          lineComment := by
            intro c0 c1 hc hb hc0
            subst hc
            have hb' : b = 47 := u8_eq_of_toNat (by simpa using hb)
            have hc' : c0 = 47 := u8_eq_of_toNat (by simpa using hc0)
            subst hb' hc'
            simp only [List.cons_append] at hti
            rw [ti_line] at hti
            simp only [Except.ok.injEq, Prod.mk.injEq] at hti
            rcases lineCommentEnd_head (c1 ++ (q ++ s)) with h0 | ⟨y, h1⟩ | ⟨y, h2⟩
            · exfalso
              rw [hti.1] at h0
              rw [h0] at ht2
              simp [tokAt, tokenIntermediate, endOfStream] at ht2
            · left
              rw [hti.1] at h1
              cases q with
              | nil => simp at hqlen; omega
              | cons q0 q1 =>
                simp only [List.cons_append, List.cons.injEq] at h1
                exact ⟨q1, by rw [h1.1]⟩
            · right
              rw [hti.1] at h2
              -- the next token is the two-byte line ending
              have hn2' : n2 = 2 := by
                rw [h2] at ht2
                rw [tokAt_of_ok (ti_crlf y)] at ht2
                simp at ht2; omega
              cases q with
              | nil => simp at hqlen; omega
              | cons q0 q1 =>
                cases q1 with
                | nil => simp at hqlen; omega
                | cons q1a q1b =>
                  simp only [List.cons_append, List.cons.injEq] at h2
                  exact ⟨q1b, by rw [h2.1, h2.2.1]⟩ }
        (by
          intro hb
          -- `<` and `>` are one byte long
          have hc : c = [] := by
            rcases hb with hb | hb
            · have hb' : b = 60 := u8_eq_of_toNat (by simpa using hb)
              subst hb'
              simp only [List.cons_append] at hti
              rw [ti_langle] at hti
              simp only [Except.ok.injEq, Prod.mk.injEq] at hti
              exact nil_of_same_len hti.1
            · have hb' : b = 62 := u8_eq_of_toNat (by simpa using hb)
              subst hb'
              simp only [List.cons_append] at hti
              rw [ti_rangle] at hti
              simp only [Except.ok.injEq, Prod.mk.injEq] at hti
              exact nil_of_same_len hti.1
          subst hc
          simp only [List.nil_append]
          -- both answers carry the same token
          rw [hti2, hti2']
          simp [followedBy])
      have := tokAt_of_split (p := b :: c) (rest := q ++ (w ++ s)) (tk := t.1) (by simpa using hstable)
      rw [this, ← hlen, ← hlex]

/-! ## (T): trivia texts -/

theorem blockSearch_append (u y r : Bytes) (h : blockSearch u = some r) : blockSearch (u ++ y) = some (r ++ y) := by
  induction u with
  | nil => simp [blockSearch] at h
  | cons a t ih =>
    cases t with
    | nil => simp [blockSearch] at h
    | cons b r2 =>
      simp only [List.cons_append]
      rw [blockSearch_cons2] at h ⊢
      by_cases hab : a.toNat = 42 ∧ b.toNat = 47
      · rw [if_pos hab] at h ⊢; simp at h; rw [h]
      · rw [if_neg hab] at h ⊢
        exact ih h

/-- Complete trivia texts together with the tokens (token, spelling, length) they lex into: spaces, tabs, line
ends, line splices, block comments that end at their first `*/`, line comments together with the line end that
stops them. -/
inductive TriviaText : Bytes → List (LTok × Nat) → Prop
  | nil : TriviaText [] []
  | space {w ws} : TriviaText w ws → TriviaText (32 :: w) (((.simple .Whitespace, [32]), 1) :: ws)
  | tab {w ws} : TriviaText w ws → TriviaText (9 :: w) (((.simple .Whitespace, [9]), 1) :: ws)
  | lf {w ws} : TriviaText w ws → TriviaText (10 :: w) (((.simple .Endline, [10]), 1) :: ws)
  | crlf {w ws} : TriviaText w ws → TriviaText (13 :: 10 :: w) (((.simple .Endline, [13, 10]), 2) :: ws)
  | splice {w ws} : TriviaText w ws → TriviaText (92 :: 10 :: w) (((.simple .PhysicalEndline, [92, 10]), 2) :: ws)
  | spliceCr {w ws} : TriviaText w ws →
      TriviaText (92 :: 13 :: 10 :: w) (((.simple .PhysicalEndline, [92, 13, 10]), 3) :: ws)
  | block {w ws} (body : Bytes) (h : blockSearch (body ++ [42, 47]) = some []) : TriviaText w ws →
      TriviaText (47 :: 42 :: (body ++ (42 :: 47 :: w)))
        (((.simple .Comment, 47 :: 42 :: (body ++ [42, 47])), body.length + 4) :: ws)
  | lineLf {w ws} (body : Bytes) (h : lineCommentEnd (body ++ [10]) = [10]) : TriviaText w ws →
      TriviaText (47 :: 47 :: (body ++ (10 :: w)))
        (((.simple .Comment, 47 :: 47 :: body), body.length + 2) :: ((.simple .Endline, [10]), 1) :: ws)
  | lineCrlf {w ws} (body : Bytes) (h : lineCommentEnd (body ++ [13, 10]) = [13, 10]) : TriviaText w ws →
      TriviaText (47 :: 47 :: (body ++ (13 :: 10 :: w)))
        (((.simple .Comment, 47 :: 47 :: body), body.length + 2) :: ((.simple .Endline, [13, 10]), 2) :: ws)

theorem triviaText_headStop {w : Bytes} {ws : List (LTok × Nat)} (h : TriviaText w ws) : HeadStop w := by
  cases h <;> simp [HeadStop, isStop]

theorem triviaText_ws {w : Bytes} {ws : List (LTok × Nat)} (h : TriviaText w ws) :
    ∀ t ∈ ws, rsslLexer.isWs t.1 = true := by
  induction h with
  | nil => intro t ht; cases ht
  | lineLf body hb _ ih | lineCrlf body hb _ ih =>
    intro t ht
    simp only [List.mem_cons] at ht
    rcases ht with rfl | rfl | ht
    · rfl
    · rfl
    · exact ih t ht
  | _ =>
    rename_i ih
    intro t ht
    simp only [List.mem_cons] at ht
    rcases ht with rfl | ht
    · rfl
    · exact ih t ht

/-- one token at the front: the step of the loop -/
theorem lexBytes_front (p y : Bytes) (tk : Token) (off : Nat) (hp : p ≠ [])
    (h : tokenIntermediate (p ++ y) false = .ok (y, tk)) :
    lexBytes rsslLexer (p ++ y) off =
      consOk ⟨(tk, p), off, off + p.length⟩ (lexBytes rsslLexer y (off + p.length)) := by
  have ht : rsslLexer.tok (p ++ y) = some ((tk, p), p.length) := tokAt_of_split h
  have hpos : 0 < p.length := List.length_pos_iff.2 hp
  have := lexBytes_step rsslLexer (p ++ y) off (tk, p) p.length (by simp [hp]) ht hpos (by simp)
  rw [this]
  simp

theorem mapOk_consOk (a : Spanned LTok) (f : List (Spanned LTok) → List (Spanned LTok))
    (r : Except Model.Trivia.LexErr (List (Spanned LTok))) :
    consOk a (mapOk f r) = mapOk (fun l => a :: f l) r := by
  cases r <;> rfl

/-- one more token in front of a text that lexes as `ws` whatever follows -/
theorem lexesAs_cons (p : Bytes) (tk : Token) (w : Bytes) (ws : List (LTok × Nat)) (hp : p ≠ [])
    (hti : ∀ y, tokenIntermediate (p ++ (w ++ y)) false = .ok (w ++ y, tk)) (ih : LexesAs rsslLexer w ws) :
    LexesAs rsslLexer (p ++ w) (((tk, p), p.length) :: ws) := by
  intro y off
  rw [List.append_assoc, lexBytes_front p (w ++ y) tk off hp (hti y), ih y (off + p.length), mapOk_consOk]
  simp only [spansFrom, List.cons_append, List.length_append]
  have e : off + p.length + w.length = off + (p.length + w.length) := by omega
  rw [e]

theorem triviaText_lexesAs {w : Bytes} {ws : List (LTok × Nat)} (h : TriviaText w ws) : LexesAs rsslLexer w ws := by
  induction h with
  | nil =>
    intro y off
    simp only [List.nil_append, List.length_nil, Nat.add_zero, spansFrom]
    cases lexBytes rsslLexer y off <;> rfl
  | @space w ws _ ih => exact lexesAs_cons [32] _ w ws (by simp) (fun y => ti_space _) ih
  | @tab w ws _ ih => exact lexesAs_cons [9] _ w ws (by simp) (fun y => ti_tab _) ih
  | @lf w ws _ ih => exact lexesAs_cons [10] _ w ws (by simp) (fun y => ti_lf _) ih
  | @crlf w ws _ ih => exact lexesAs_cons [13, 10] _ w ws (by simp) (fun y => ti_crlf _) ih
  | @splice w ws _ ih => exact lexesAs_cons [92, 10] _ w ws (by simp) (fun y => ti_splice _) ih
  | @spliceCr w ws _ ih => exact lexesAs_cons [92, 13, 10] _ w ws (by simp) (fun y => ti_spliceCr _) ih
  | @block w ws body hb _ ih =>
    have := lexesAs_cons (47 :: 42 :: (body ++ [42, 47])) (.simple .Comment) w ws (by simp)
      (fun y => by
        have h1 := blockSearch_append (body ++ [42, 47]) (w ++ y) [] hb
        simp only [List.nil_append] at h1
        have := ti_block (body ++ [42, 47] ++ (w ++ y)) (w ++ y) h1
        simpa [List.append_assoc] using this) ih
    have e : (47 :: 42 :: (body ++ [42, 47]) : Bytes).length = body.length + 4 := by simp
    rw [e] at this
    simpa [List.append_assoc] using this
  | @lineLf w ws body hb _ ih =>
    have h10 := lexesAs_cons [10] (.simple .Endline) w ws (by simp) (fun y => ti_lf _) ih
    have := lexesAs_cons (47 :: 47 :: body) (.simple .Comment) ([10] ++ w) _ (by simp)
      (fun y => by
        have h1 := lce_append (body ++ [10]) (w ++ y) (by rw [hb]; simp)
        rw [hb] at h1
        have := ti_line (body ++ [10] ++ (w ++ y))
        rw [h1] at this
        simpa [List.append_assoc] using this) h10
    have e : (47 :: 47 :: body : Bytes).length = body.length + 2 := by simp
    rw [e] at this
    simpa [List.append_assoc] using this
  | @lineCrlf w ws body hb _ ih =>
    have h10 := lexesAs_cons [13, 10] (.simple .Endline) w ws (by simp) (fun y => ti_crlf _) ih
    have := lexesAs_cons (47 :: 47 :: body) (.simple .Comment) ([13, 10] ++ w) _ (by simp)
      (fun y => by
        have h1 := lce_append (body ++ [13, 10]) (w ++ y) (by rw [hb]; simp)
        rw [hb] at h1
        have := ti_line (body ++ [13, 10] ++ (w ++ y))
        rw [h1] at this
        simpa [List.append_assoc] using this) h10
    have e : (47 :: 47 :: body : Bytes).length = body.length + 2 := by simp
    rw [e] at this
    simpa [List.append_assoc] using this

end RsslVerif.Lemmas.TriviaLexer

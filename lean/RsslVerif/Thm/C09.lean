import RsslVerif.Spec.Roundtrip
import RsslVerif.Lemmas.FmtParseTables
import RsslVerif.Lemmas.RoundtripThm
/-!
# C09 — printing a syntax tree and parsing it back are inverse (expression level)

Every statement below is about `Gen.FmtTables` / `Gen.ParseTables`, re-extracted from
`formatter.rs`, `parser/expressions.rs`, `lexer.rs`, `tokens.rs` on every run.
-/
namespace RsslVerif.Thm.C09
open RsslVerif.Gen.FmtTables RsslVerif.Gen.ParseTables RsslVerif.Model.Format RsslVerif.Model.Parse
open RsslVerif.Lemmas.FmtParseTables RsslVerif.Lemmas.Roundtrip RsslVerif.Spec.Roundtrip

/-- Spelling ↔ tokens: lexing the characters `format_bin_op` prints (followed by the space the formatter
always prints) with the lexer's own symbol tables gives exactly the token list the model uses. -/
theorem binToks_lexes : ∀ op : BinOp, lexSyms 8 (binSpellChars op ++ [' ']) = some (binToks op) := by
  intro op; cases op <;> decide

/-- Same for `format_unary_op`, whatever non-operator character follows. -/
theorem unTok_lexes : ∀ op : UnOp, lexSyms 8 (unSpellChars op) = some [unTok op] := by
  intro op; cases op <;> decide

/-- **tables_agree** (levels). For every binary operator: the parser loop of the level that corresponds to
its formatter precedence reads the printed tokens as that operator, and no tighter-binding loop takes them.
(`rest` = the operand that follows; `TermOk` = the terminators under which the parser accepts the operator at all.) -/
theorem tables_agree (op : BinOp) (term : Terminator) (rest : List Tok)
    (hr : OperandStart rest) (ht : TermOk op term) :
    parseOpAt (levelOfPrec (binPrec op)) term (binToks op ++ rest) = some (op, rest) ∧
    ∀ k, k < levelOfPrec (binPrec op) → parseOpAt k term (binToks op ++ rest) = none :=
  ⟨parseOpAt_own op term rest hr ht, fun k hk => parseOpAt_lower op term rest k hr hk⟩

/-- **tables_agree** (associativity). The formatter calls a precedence left-to-right exactly when the parser
level is one of the left-associative loops, and right-to-left exactly when it is the assignment level. -/
theorem assoc_agrees : ∀ op : BinOp,
    (assoc (binPrec op) = .LeftToRight ↔ leftAssocLevels.contains (levelOfPrec (binPrec op)) = true) ∧
    (assoc (binPrec op) = .RightToLeft ↔ levelOfPrec (binPrec op) = assignLevel) := by
  intro op; cases op <;> decide

/-- the conditional has the assignment precedence in the formatter and its own, tighter level in the parser -/
theorem ternary_level : precTernaryConditional = 16 ∧ assoc precTernaryConditional = .RightToLeft ∧
    ternaryLevel < assignLevel := by decide

/-- prefix operators: the parser's `unaryop_prefix` reads the printed token as the operator;
postfix operators print the tokens the postfix loop of `expr_p1` tests for. -/
theorem unary_tables_agree : ∀ op : UnOp,
    (isPostfix op = false → prefixOp (unTok op) = some op ∧ unPrec op = 3) ∧
    (isPostfix op = true → unPrec op = 2 ∧
      ((op = .PostfixIncrement ∧ unTok op = .p .PlusPlus) ∨ (op = .PostfixDecrement ∧ unTok op = .p .MinusMinus))) := by
  intro op; cases op <;> decide

/-- **glue_safe** for operator characters, part 1: a prefix operator directly followed by an operand that starts
with another prefix operator. The formatter separates exactly the pairs the lexer would merge into another token. -/
theorem glue_prefix_prefix : ∀ a b : UnOp, isPostfix a = false → isPostfix b = false →
    let glued := lexSyms 8 (unSpellChars a ++ unSpellChars b)
    let spaced := lexSyms 8 (unSpellChars a ++ [' '] ++ unSpellChars b)
    spaced = some [unTok a, unTok b] ∧
    (unSign a ≠ (unSpellChars b).head? → glued = some [unTok a, unTok b]) := by
  intro a b; cases a <;> cases b <;> decide

/-- **glue_safe**, part 2: a postfix operator is followed by a space or one of `) ] , . [ ( ;` or another postfix
operator; none of these merges with `++`/`--`. -/
theorem glue_postfix_next : ∀ a : UnOp, isPostfix a = true → ∀ c ∈ [')', ']', ',', '.', '[', '(', ';', '?'],
    lexSyms 8 (unSpellChars a ++ [c]) = (lexSyms 8 [c]).map (unTok a :: ·) := by
  intro a; cases a <;> decide

/-- the sign rule of the formatter is needed: without the space the text reads as another operator -/
theorem glue_needs_space : lexSyms 8 (unSpellChars .Minus ++ unSpellChars .Minus) = some [.p .MinusMinus] ∧
    lexSyms 8 (unSpellChars .Plus ++ unSpellChars .Plus) = some [.p .PlusPlus] ∧
    lexSyms 8 (unSpellChars .AddressOf ++ unSpellChars .AddressOf) = some [.p .AmpersandAmpersand] := by decide

/-! ## Level consistency: where the formatter omits parentheses, the parser reads that position at a covering level -/

/-- **paren_rule_matches_grammar.** For every child position of unary, binary and conditional nodes: if
`format_subexpression` prints the child without parentheses, the child's production level is at most the level
at which the parser reads that position (the levels of the conditional's operands are the ones extracted from
`ternary_right`: the middle operand is read at the assignment level since f3b64c8). -/
theorem paren_rule_matches_grammar :
    (∀ op (x : Expr), isPostfix op = false → needParen x.prec (unPrec op) prefixOperandSide = false → x.lvl ≤ prefixLevel) ∧
    (∀ op (x : Expr), isPostfix op = true → needParen x.prec (unPrec op) postfixOperandSide = false → x.lvl ≤ postfixLevel) ∧
    (∀ op (x : Expr), needParen x.prec (binPrec op) binLeftSide = false →
      (binLevel op ≠ assignLevel → x.lvl ≤ binLevel op) ∧ (binLevel op = assignLevel → x.lvl ≤ ternaryLevel - 1)) ∧
    (∀ op (x : Expr), needParen x.prec (binPrec op) binRightSide = false →
      (binLevel op ≠ assignLevel → x.lvl ≤ binLevel op - 1) ∧ (binLevel op = assignLevel → x.lvl ≤ assignLevel)) ∧
    (∀ x : Expr, needParen x.prec precTernaryConditional ternCondSide = false → x.lvl ≤ ternaryLevel - 1) ∧
    (∀ x : Expr, needParen x.prec precTernaryConditional ternTrueSide = false → x.lvl ≤ ternMiddleLevel) ∧
    (∀ x : Expr, needParen x.prec precTernaryConditional ternFalseSide = false → falseIsAssignment x = false →
      x.lvl ≤ ternLastLevel) :=
  ⟨pos_prefix, pos_postfix, fun op x h => ⟨fun h14 => ((pos_binL op x h).1 h14).1, (pos_binL op x h).2⟩,
   pos_binR, pos_ternC, pos_ternA, fun x h hf => by
     have := pos_ternB x h
     show x.lvl ≤ 13
     rcases Nat.lt_or_ge x.lvl 14 with h1 | h1
     · omega
     · have := this.2 (by omega); rw [hf] at this; cases this⟩

/-! ## The round trip -/

/-- what may follow a complete expression: nothing, or `)`, `]`, `:`, `;` -/
def Stops (rest : List Tok) : Prop :=
  rest = [] ∨ ∃ t r, rest = t :: r ∧ Closes .Standard t

/-- **roundtrip_expr_partial.** For every tree over literals, identifiers, all 10 unary and all 30 binary operators,
the conditional, member access, array subscript and calls (without template arguments), nested to any depth: the tokens of the printed text, followed by anything that ends an
expression, are read by the parser model at the top level (`expr_p15`, terminator `Standard`) as exactly the tree.

Partial, because `WF` excludes literals that do not print as one token reading back as themselves (negative values,
`-0.0`, NaN, … — `LitOk`, see `literal_roundtrip_partial` / `negative_literals_break`) — for those the full statement is
false on the real code (known findings). Casts, `sizeof`, template
arguments and braced initialisers are not in the model at all (so neither is `expr_p1_call`'s attempt to read
`<…>(` as template arguments, which breaks `a < b > (c)` on the real code — a known finding). -/
theorem roundtrip_expr_partial (e : Expr) (hwf : WF e) (rest : List Tok) (hrest : Stops rest) :
    ReadsBack e rest := by
  have hno : NoLow 15 .Standard rest := by
    rcases hrest with rfl | ⟨t, r, rfl, ht⟩
    · exact noLow_nil _ _
    · exact noLow_closes _ _ _ _ ht
  have hin : Inert 15 .Standard rest := by
    rcases hrest with rfl | ⟨t, r, rfl, ht⟩
    · exact inert_nil _ _
    · exact inert_closes _ _ _ _ ht
  obtain ⟨N, h⟩ := rt e hwf 15 .Standard rest (e, rest) (by decide) (lvl_le e) (Nat.le_refl _) (fun _ => rfl) hno
    (fin_self e e.lvl 15 .Standard rest (lvl_le e) (fun _ => hin))
  exact ⟨N, h N (Nat.le_refl _)⟩

/-- the same at any sub-expression position: printed under `(outer, side)` and read at a level that covers it -/
theorem roundtrip_subexpr_partial (e : Expr) (hwf : WF e) (outer : Nat) (side : Side) (k : Nat) (term : Terminator)
    (rest : List Tok) (hterm : term ≠ .TypeList) (hk : k ≤ 15)
    (hpos : needParen e.prec outer side = false → e.lvl ≤ k ∧ (e.lvl = 15 → term = .Standard))
    (hno : NoLow k term rest) (hin : k ≠ 0 → Inert k term rest) :
    ∃ fuel, parseLvl fuel k term (toks (fmtSub e outer side) ++ rest) = some (e, rest) := by
  obtain ⟨N, h⟩ := rts_self (rt e hwf) outer side k term rest hterm hk hpos hno hin
  exact ⟨N, h N (Nat.le_refl _)⟩

/-- **roundtrip_comma_positions_partial.** Initialiser expressions (d76894a), array sizes (a83e0d0) and call arguments are
printed at `(17, CommaList)` and read with the `Sequence` terminator (`parse_expression_no_seq`): in front of `,`, `;`,
`]` or `)` the printed tokens read back as the tree — a comma expression there is printed in parentheses. -/
theorem roundtrip_comma_positions_partial (e : Expr) (hwf : WF e) (t : Tok) (rest : List Tok)
    (ht : Closes .Sequence t) :
    (initPrec = 17 ∧ initSide = .CommaList ∧ arraySizePrec = 17 ∧ arraySizeSide = .CommaList ∧
     callArgPrec = 17 ∧ callArgSide = .CommaList ∧ initTerminator = .Sequence ∧ arraySizeTerminator = .Sequence ∧
     callArgTerminator = .Sequence) ∧
    ∃ fuel, parseLvl fuel 15 .Sequence (toks (fmtSub e 17 .CommaList) ++ t :: rest) = some (e, t :: rest) := by
  refine ⟨by decide, ?_⟩
  apply roundtrip_subexpr_partial e hwf 17 .CommaList 15 .Sequence (t :: rest) (by decide) (Nat.le_refl _)
  · intro hp
    have := pos_arg e hp
    exact ⟨by omega, fun h => by omega⟩
  · exact noLow_closes 15 _ _ _ ht
  · exact fun _ => inert_closes 15 _ _ _ ht

/-! ## Literals -/

/-- **literal_roundtrip_partial** (token level). Every non-negative integer literal of every kind (within the range
the suffix admits) and both booleans
print as one token carrying the same kind and value; so does every non-negative float in the modelled (dyadic) subset.
What is *not* proved here: that the printed digits are the value (Rust `Display`, trusted) and that the lexer reads
digits back exactly (C10 `int_value_exact` / `lex_float_nearest`); `decimal_roundtrip` below is the digit-level core. -/
theorem literal_roundtrip_partial :
    (∀ v, LitOk ⟨.IntUntyped, false, v⟩ = true ∧ (v < 2 ^ 32 → LitOk ⟨.IntUnsigned32, false, v⟩ = true) ∧
          LitOk ⟨.IntUnsigned64, false, v⟩ = true ∧ (v < 2 ^ 63 → LitOk ⟨.IntSigned64, false, v⟩ = true)) ∧
    LitOk ⟨.Bool, false, 0⟩ = true ∧ LitOk ⟨.Bool, false, 1⟩ = true ∧
    (∀ bits q, eighths? 11 52 bits = some q → LitOk ⟨.FloatUntyped, false, bits⟩ = true ∧ LitOk ⟨.Float64, false, bits⟩ = true) ∧
    (∀ bits q, eighths? 8 23 bits = some q → LitOk ⟨.Float32, false, bits⟩ = true ∧ LitOk ⟨.Float16, false, bits⟩ = true) := by
  refine ⟨fun v => ⟨?_, ?_, ?_, ?_⟩, ?_, ?_, fun bits q h => ⟨?_, ?_⟩, fun bits q h => ⟨?_, ?_⟩⟩ <;>
    (try intro hv) <;> simp [LitOk, litPieces, floatPieces, litTooLarge, *] <;> omega

/-- **Negation for negative literals, all of them.** A negative 64-bit integer literal and a float literal with the
sign bit set — negative zero included since 1157dad — print as `-` followed by the non-negative literal: two tokens,
which the parser reads as `UnaryOperation(Minus, …)`. (Real code: known findings.) -/
theorem negative_literals_break :
    (∀ v, v ≠ 0 → (litPieces ⟨.IntSigned64, true, v⟩).map toks = some [.p .Minus, .lit ⟨.IntSigned64, false, v⟩]) ∧
    (∀ bits q, eighths? 8 23 bits = some q →
      (litPieces ⟨.Float32, true, bits⟩).map toks = some [.p .Minus, .lit ⟨.Float32, false, bits⟩] ∧
      (litPieces ⟨.Float16, true, bits⟩).map toks = some [.p .Minus, .lit ⟨.Float16, false, bits⟩]) ∧
    (∀ bits q, eighths? 11 52 bits = some q →
      (litPieces ⟨.FloatUntyped, true, bits⟩).map toks = some [.p .Minus, .lit ⟨.FloatUntyped, false, bits⟩] ∧
      (litPieces ⟨.Float64, true, bits⟩).map toks = some [.p .Minus, .lit ⟨.Float64, false, bits⟩]) ∧
    (litPieces ⟨.Float32, true, 0⟩).map toks = some [.p .Minus, .lit ⟨.Float32, false, 0⟩] ∧
    LitOk ⟨.IntSigned64, true, 5⟩ = false ∧ LitOk ⟨.Float32, true, 0⟩ = false := by
  refine ⟨fun v hv => ?_, fun bits q h => ⟨?_, ?_⟩, fun bits q h => ⟨?_, ?_⟩, ?_, ?_, ?_⟩
  · simp [litPieces, hv, minusPiece]
  · simp [litPieces, floatPieces, h, minusPiece]
  · simp [litPieces, floatPieces, h, minusPiece]
  · simp [litPieces, floatPieces, h, minusPiece]
  · simp [litPieces, floatPieces, h, minusPiece]
  · decide
  · decide
  · decide

/-- digits of `n`, least significant first -/
def decDigits : Nat → Nat → List Nat
  | 0, _ => []
  | f + 1, n => if n < 10 then [n] else n % 10 :: decDigits f (n / 10)

def ofDigits : List Nat → Nat
  | [] => 0
  | d :: r => d + 10 * ofDigits r

/-- **decimal_roundtrip.** Reading back the decimal digits of a number gives the number (any fuel above the value). -/
theorem decimal_roundtrip : ∀ f n, n < f → ofDigits (decDigits f n) = n := by
  intro f
  induction f with
  | zero => intro n h; omega
  | succ f ih =>
    intro n h
    unfold decDigits
    split
    · simp [ofDigits]
    · simp only [ofDigits]
      rw [ih (n / 10) (by omega)]
      omega

/-- non-vacuity: a depth-6 tree (with literal leaves of four kinds: `LitOk` is decided by the kernel) mixing eight levels, both associativities, prefix/postfix signs, conditionals, member, subscript and call -/
def sample : Expr :=
  .bin .Assignment (.id "r")
    (.tern (.bin .LessThan (.bin .Add (.id "a") (.bin .Multiply (.id "b") (.un .Minus (.un .Minus (.id "c"))))) (.id "d"))
      (.bin .Subtract (.id "x") (.bin .Subtract (.sub (.mem (.id "y") "m") (.bin .Sequence (.id "i") (.id "j")))
        (.un .PostfixDecrement (.id "z"))))
      (.bin .Sequence (.bin .BitwiseOrAssignment (.id "p") (.id "q"))
        (.un .LogicalNot (.call (.mem (.id "w") "f") (.cons (.tern (.id "u") (.id "v") (.id "w")) (.cons (.bin .Multiply (.lit ⟨.Float32, false, 0x3fc00000⟩) (.lit ⟨.IntUnsigned64, false, 18446744073709551615⟩))
          (.cons (.bin .Add (.lit ⟨.IntUntyped, false, 3⟩) (.lit ⟨.Float64, false, 0x4000000000000000⟩)) .nil)))))))

theorem sample_wf : WF sample := by
  simp [sample, WF, WFA]
  decide
example : ReadsBack sample [] := roundtrip_expr_partial sample sample_wf [] (Or.inl rfl)

/-- the conditional shape that did not read back before f3b64c8 (`expr_p13` read the middle operand with `expr_p13`) -/
def ternaryMiddleAssignment : Expr :=
  .tern (.id "c") (.bin .Assignment (.id "b") (.id "x")) (.id "a")

/-- `c ? b = x : a` now round-trips: by the theorem, and by evaluating the parser model on the printed tokens -/
example : ReadsBack ternaryMiddleAssignment [] :=
  roundtrip_expr_partial ternaryMiddleAssignment (by simp [ternaryMiddleAssignment, WF]) [] (Or.inl rfl)
example : parseAll .Standard (toks (fmtExpr ternaryMiddleAssignment)) = some (ternaryMiddleAssignment, []) := rfl

end RsslVerif.Thm.C09

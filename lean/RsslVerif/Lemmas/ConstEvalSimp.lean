import Lean.Meta.Tactic.Simp.RegisterCommand
/-! simp set used by the C13 lemma files: unfolds the operator/cast tables of the model and of the
    specification and rewrites model arithmetic into `BitVec` form -/
register_simp_attr c13

"""Maintenance script (not loaded by the translator): writes lean/RsslVerif/Lemmas/ArithClasses.lean from the review
table notes/C08-arith-review.tsv (file, fn, kind, site text, class, reason — one line per implicit panic site of
Gen.ArithSites).  When /repo gains or changes a site, `Thm.C08.arith_sites_classified` breaks: run
`python3 tools/gens/_c08_arith.py` to see the current inventory, add / edit the TSV line after reading the code, then
    python3 tools/gens/_c08_arith_review.py
"""
import os
import sys

ROOT = os.path.dirname(os.path.dirname(os.path.dirname(os.path.abspath(__file__))))
sys.path.insert(0, os.path.join(ROOT, "tools"))
from rustsrc import lean_str  # noqa: E402

CLASSES = ["guarded", "invariant", "widening", "resource-bound", "float-cast", "proved-on-model", "reachable-known-finding"]


def main():
    rows = []
    for line in open(os.path.join(ROOT, "notes", "C08-arith-review.tsv"), encoding="utf-8"):
        line = line.rstrip("\n")
        if not line or line.startswith("#"):
            continue
        f = line.split("\t")
        if len(f) != 6 or f[4] not in CLASSES:
            raise SystemExit("bad line: " + line)
        rows.append(tuple(f))
    rows.sort(key=lambda r: r[:4])
    out = ["""/-!
# Reviewed classification of every implicit panic site of the preprocessor / lexer core (C08)

One entry per site of `Gen.ArithSites.sites` (same order): `((file, fn, kind, operands), class, reason)`.  Classes:
* `guarded`          — an explicit test in the same function dominates the operation (the reason names it);
* `invariant`        — safe by an invariant established elsewhere (the reason names it and who keeps it);
* `widening`         — an `as` cast to a type that holds every value of the source type;
* `float-cast`       — `f64 as f32` rounds or saturates, it does not panic;
* `resource-bound`   — overflows only with ~2^32 bytes of registered text or ~2^64 elements, outside the time budget;
* `proved-on-model`  — the safety argument is a Lean theorem about the executable model (named in the reason);
* `reachable-known-finding` — an input reaches the overflow; listed in known_findings.jsonl.
A reading of the code (maintained with tools/gens/_c08_arith_review.py from notes/C08-arith-review.tsv), recorded so
that a *new* unchecked operation, or an old one whose operands change, is noticed (`Thm.C08.arith_sites_classified`).
-/
namespace RsslVerif.Lemmas.ArithClasses

def classNames : List String := [""" + ", ".join(lean_str(c) for c in CLASSES) + """]

def reviewed : List ((String × String × String × String) × String × String) := [
"""]
    out.append(",\n".join(
        f"  (({lean_str(a)}, {lean_str(b)}, {lean_str(c)}, {lean_str(d)}), {lean_str(e)},\n     {lean_str(g)})" for a, b, c, d, e, g in rows))
    out.append("\n]\n\nend RsslVerif.Lemmas.ArithClasses\n")
    path = os.path.join(ROOT, "lean", "RsslVerif", "Lemmas", "ArithClasses.lean")
    with open(path, "w", encoding="utf-8") as f:
        f.write("".join(out))
    print("wrote", path, len(rows), "sites;", {c: sum(1 for r in rows if r[4] == c) for c in CLASSES})


if __name__ == "__main__":
    main()

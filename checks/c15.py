"""C15 — renaming is harmless and emitted names are hygienic."""
import re

T = "RsslVerif.Thm.C15."


def nontrivial(req, obs):
    # the assignment contains at least one generated name (name_k) or the program has >= 4 named symbols
    return bool(re.search(r"_\d+( |$)", obs)) or obs.count("=") >= 4


def root_cause(mech):
    """the open defect site a mechanical key belongs to (None = not attributable to a listed site).
    Sites repaired in /repo (namespace declarations 306692a, locals vs used globals 6bac604, enum values 926e817,
    generated names taking user names 0dfd8dd) are no longer attributed: their mechanical keys are violations again."""
    f = mech.split(":")
    if f[0] == "reserved-unrenamed" and f[-1] == "M":
        return "struct-member-not-in-namemap"
    if f[0] == "verbatim" and f[1] == "generated-clash" and f[2] == "local":
        return "local-renamed-next-to-generated-name"
    if f[0] == "dup" and len(f) == 3:
        t, kinds = f[1], set(f[2])
        if t == "m" and kinds == {"G"}:
            return "msl-threaded-globals-share-leaf-name"
        return None
    if f[0] == "capture" and len(f) == 4:
        t, exp, got = f[1], f[2], f[3]
        kinds = set(got.replace("q", ""))
        # a member can only be reached by a qualified path (`X::y` where a closer struct X has a member y)
        if ("M" in kinds and "q" not in got) or "L" in kinds or exp == "L":
            return None
        if t == "m" and kinds == {"G"} and exp == "G" and "q" not in got:
            return "msl-threaded-globals-share-leaf-name"
        # only namespace-level entities (incl. unscoped enumerators) are involved: the relative qualified path that
        # is printed resolves differently at the use site
        return "relative-path-resolves-elsewhere"
    return None


def res_key(mech):
    """resource / pipeline stream (`C15.res`): (site, summarised mechanical key).  Letters: entity kinds N S M E V G F L,
    C cbuffer, D cbuffer member, t the `<cbuffer>Type` struct Metal generates, # a declaration the exporter generates itself.
    A site is attributed only on positive evidence in the key (kinds involved, wrapper context, target); the summarised
    keys of a site form a small closed set (RES_KNOWN_KEYS) so that another seed cannot produce an unlisted variant."""
    f = mech.split(":")
    head = f[0]
    t = f[1] if len(f) > 1 else ""
    hlsl = t in ("dx", "vk", "vkba")
    if head == "reserved-unrenamed" and len(f) == 3:
        if f[2] == "M":
            return "struct-member-not-in-namemap", mech
        if f[2] in "CD" and hlsl:
            return "hlsl-cbuffer-not-in-namemap", mech
        return None, mech
    if head == "verbatim" and len(f) == 5:
        if f[2] == "method-clash" and f[3] == "global":
            return "methods-named-in-namespace-scope", "verbatim:%s:method-clash" % t
        if f[2] == "cbuffer-type-clash" and t == "msl":
            return "msl-cbuffer-struct-takes-user-name", "verbatim:msl:cbuffer-type-clash"
        if f[2] == "generated-clash" and f[3] == "local":
            return "local-renamed-next-to-generated-name", "verbatim:%s:generated-clash:local:L" % t
        return None, mech
    if head == "dup" and len(f) == 3:
        ks = set(f[2])
        if "#" in ks:
            return "generated-names-not-reserved", "dup:%s:generated" % t
        if ks & set("CD") and hlsl:
            return "hlsl-cbuffer-not-in-namemap", "dup:%s:cbuffer" % t
        if ks == {"F", "M"}:
            # a method renamed by the map (in the root scope) takes the name of a member of its struct
            return "struct-member-not-in-namemap", "dup:%s:member-method" % t
        if t == "msl" and ks == {"g"}:
            return "msl-threaded-globals-share-leaf-name", "dup:msl:GG"
        if t == "vkba" and ks == {"g"}:
            return "vkba-inline-descriptor-members-share-leaf-name", "dup:vkba:GG"
        return None, mech
    if head == "dangling" and len(f) == 3:
        if f[2] == "D" and hlsl:
            return "hlsl-cbuffer-member-printed-by-leaf-name", mech
        if f[2].endswith("~rel") and "@wrapper" not in f[2] and not set(f[2][:-4]) & set("MLg#CD"):
            return "relative-path-resolves-elsewhere", "capture:%s:relative:by-nothing" % t
        return None, mech
    if head == "capture-builtin" and len(f) == 3:
        if set(f[2]) & set("CD") and hlsl:
            return "hlsl-cbuffer-not-in-namemap", "capture:%s:cbuffer" % t
        if set(f[2]) == {"M"}:
            # inside the struct (method signatures and bodies) a member named like a built-in type hides it
            return "struct-member-not-in-namemap", "capture:%s:member" % t
        return None, mech
    if head == "capture" and len(f) == 4:
        meant, got = f[2], f[3]
        relative = got.endswith("~rel")
        got = got.replace("~rel", "")
        wrapper = got.endswith("@wrapper")
        got = got.replace("@wrapper", "")
        qualified = got.startswith("q")
        got = got.lstrip("q")
        ks = set(meant) | set(got)
        w = "@wrapper" if wrapper else ""
        if "#" in ks:
            return "generated-names-not-reserved", "capture:%s:generated%s" % (t, w)
        if ks & set("CD") and hlsl:
            return "hlsl-cbuffer-not-in-namemap", "capture:%s:cbuffer" % t
        if meant == "M" and set(got) == {"F", "M"}:
            return "struct-member-not-in-namemap", "capture:%s:member-method" % t
        if meant in ("S", "E", "t") and got == "L" and not wrapper:
            return "local-captures-type-name", "capture:%s:type:by-local" % t
        if t == "msl" and wrapper and meant == "F" and got == "L":
            return "msl-entry-wrapper-parameter-captures-entry", "capture:msl:F:by-local@wrapper"
        if "L" in ks or ("M" in ks and not (qualified and relative)):
            return None, mech
        if t == "msl" and not qualified and got and set(got) <= {"g", "G"} and "g" in got:
            # the parameter / wrapper local of a threaded global is found instead of (or next to) what was meant
            return "msl-threaded-globals-share-leaf-name", "capture:msl:by-threaded-global%s" % w
        if t == "vkba" and set(got) == {"g"} and set(meant) == {"g"}:
            return "vkba-inline-descriptor-members-share-leaf-name", "capture:vkba:inline-member"
        if wrapper or not relative or "g" in ks:
            return None, mech
        return "relative-path-resolves-elsewhere", "capture:%s:relative:by-namespace-level-entity" % t
    return None, mech


VECTOR_TYPE = re.compile(r"^(float|int|uint|bool|half|double|min16float|min16int|min16uint|short|ushort|long|ulong|char|uchar)"
                         r"[1-4](x[1-4])?$")


NUMBERED_GENERATED = re.compile(r"^(set|InlineDescriptor|g_inlineDescriptor)\d+$")


def finding_key(req, obs, detail):
    """Key of an oracle failure = <defect site>/<mechanical key>.  The mechanical key is printed by the harness
    (`FAIL:<mechanical key> | <text>`) and names the target, the check that failed and the kinds of the entities
    involved: `capture:<t>:<kind of the entity meant>:by-<local|enum-value-or-member|namespace-level-entity|nothing>`, `dup:<t>:<kind pair>`,
    `reserved-unrenamed:<t>:<kind>`, `verbatim:generated-clash:<global|local>:<kind>`, `tie|inconsistent:<t>:<kind>`.
    A failure is known only if this exact pair is listed; the site prefix is there for the reader."""
    d = detail[5:] if detail.startswith("FAIL:") else detail
    m = re.match(r"panic ([^:]+):\d+: (.*)$", d)
    if m:
        return "panic %s: %s" % (m.group(1), re.sub(r"\d+", "N", m.group(2)))
    mech = d.split(" | ")[0]
    if req.startswith("C15.res"):
        # a user entity spelled like a built-in vector / matrix type (`uint3`, `float4`, `float4x4`: accepted by the front end,
        # in neither RESERVED_NAMES) is emitted verbatim and hides the type in every later declaration that names it
        m = re.search(r"built-in '([A-Za-z0-9_]+)' resolves to", d)
        if mech.startswith("capture-builtin:") and m and VECTOR_TYPE.match(m.group(1)):
            return "res:vector-type-names-not-reserved/capture-builtin:%s:vector-type" % mech.split(":")[1]
        site, key = res_key(mech)
        if site == "generated-names-not-reserved":
            # the open defect is about the NUMBERED identifiers the exporters build with format! (`set<i>`, `InlineDescriptor<n>`,
            # `g_inlineDescriptor<n>`); the fixed generated names (implicit parameters, stage locals, wrapper names) are
            # reserved (introduced_names_reserved_as_modelled): a clash with one of those is never known
            m = re.search(r"declared as '(\w+)'", d) or re.search(r"\| '([\w:]+)' printed for", d)
            name = m.group(1) if m else ""
            if not any(NUMBERED_GENERATED.match(c) for c in name.split("::")):
                return "%s:fixed-name:%s" % (key, name)
        return key if site is None else "res:" + site + "/" + key
    root = root_cause(mech)
    if root is None:
        return mech
    f = mech.split(":")
    if f[0] == "capture" and len(f) == 4:
        # the set of kinds found is summarised by what captured the name (exact sets have a long random tail)
        got = f[3]
        kinds = set(got.replace("q", ""))
        by = ("enum-value-or-member" if kinds & set("MV") else "local" if "L" in kinds else
              "nothing" if not kinds else "namespace-level-entity")
        mech = "capture:%s:%s:by-%s" % (f[1], f[2], by)
    return root + "/" + mech


def shrink_res(f):
    """resource / pipeline stream: drop one `use` / `lv` statement, one empty block, or one definition that nothing refers to by
    ordinal (dropping a definition would renumber the ordinals behind it, so only trailing-safe drops are tried: statements)"""
    toks = f[2].split(" ")
    for i, t in enumerate(toks):
        if t in ("use", "lv") and i + 1 < len(toks):
            # a local that is used later is kept (L ordinals would shift)
            if t == "lv":
                continue
            yield "\t".join(f[:2] + [" ".join(toks[:i] + toks[i + 2:])])
        if t == "{" and i + 1 < len(toks) and toks[i + 1] == "}" and i > 0 and toks[i - 1] in ("{", "}") :
            yield "\t".join(f[:2] + [" ".join(toks[:i] + toks[i + 2:])])


def shrink(req):
    f = req.split("\t")
    if len(f) != 3:
        return
    if f[0] == "C15.res":
        yield from shrink_res(f)
        return
    toks = f[2].split(" ")
    # drop one balanced item / statement at a time
    i = 0
    while i < len(toks):
        t = toks[i]
        j = None
        if t in ("ns", "st", "en"):
            depth, j = 0, i
            while j < len(toks):
                if toks[j] in ("ns", "st", "en"):
                    depth += 1
                elif toks[j] == "end":
                    depth -= 1
                    if depth == 0:
                        break
                j += 1
        elif t == "gl" or t == "lv" or t == "use":
            j = i + 1
        elif t == "fn":
            depth, j = 0, i
            while j < len(toks):
                if toks[j] == "{":
                    depth += 1
                elif toks[j] == "}":
                    depth -= 1
                    if depth == 0:
                        break
                j += 1
        if j is not None and j < len(toks):
            yield "\t".join(f[:2] + [" ".join(toks[:i] + toks[j + 1:])])
        i += 1


WITNESSES = [
    ('pMember', 'msl', 'st zqs kernel end'),
    ('pCbuffer', 'dx', 'cb abs - int end ef c zqe zqp { use D0.0 } pl zqP F0 -'),
    ('pCbufferNs', 'dx', 'ns zqn cb zqc - zqm end end ef c zqe zqp { use D0.0 } pl zqP F0 -'),
    ('pGenerated', 'vkba', 'rs ba - g_inlineDescriptor0 ef c zqe zqp { use G0 } pl zqP F0 -'),
    ('pLocalType', 'dx', 'st S zqm end ef c zqe S { use S0 } pl zqP F0 -'),
    ('pLocalType', 'msl', 'st S zqm end ef c zqe S { use S0 } pl zqP F0 -'),
    ('pWrapper', 'msl', 'ef c S S { } pl zqP F0 -'),
    ('pThreaded', 'msl', 'ns N gl s x end ns M gl s x end fn f - { use G0 use G1 } ef c zqe zqp { use F0 } pl zqP F1 -'),
    ('pInline', 'vkba', 'ns zqn rs ba - x end rs ba - x ef c zqe zqp { use G0 use G1 } pl zqP F0 -'),
    ('pRelative', 'dx', 'gl c N ns S fn N - { use G0 } end ef c zqe zqp { use F0 } pl zqP F1 -'),
    ('pMethods', 'dx', 'st S m | f end st T k | f end ef c zqe zqp { } pl zqP F2 -'),
    ('pMemberMethod', 'dx', 'st S log2_0 | log2 end ef c zqe zqp { } pl zqP F1 -'),
    ('pGood', 'dx', 'st S a end gl s g rs cbs s0 texture rs ba - sampler fn h i p { lv x use G0 use G1 } ef c main tid { use F0 use G2 } pl P F1 -'),
    ('pGood', 'vkba', 'st S a end gl s g rs cbs s0 texture rs ba - sampler fn h i p { lv x use G0 use G1 } ef c main tid { use F0 use G2 } pl P F1 -'),
    ('pGood', 'msl', 'st S a end gl s g rs cbs s0 texture rs ba - sampler fn h i p { lv x use G0 use G1 } ef c main tid { use F0 use G2 } pl P F1 -'),
    ('pWave', 'msl', 'fn zqf i threads_per_simdgroup { use W0 use W1 use L0 } ef c zqe zqp { use F0 } pl zqP F1 -'),
    ('pWave', 'dx', 'fn zqf i threads_per_simdgroup { use W0 use W1 use L0 } ef c zqe zqp { use F0 } pl zqP F1 -'),
]


def custom(ctx):
    """the standard run, then: every witness program of Lemmas/NamesEmitWitness.lean (a Lean term) is the program its corpus
    request denotes (the model parses the request, compares the two terms and answers for the term), and that answer is
    what the real compiler produced for the request (compared by the standard run, since the request is in the corpus)"""
    ctx.standard_run()
    reqs = ["C15.witness\t%s\t%s\t%s" % w for w in WITNESSES] + ["C15.res\t%s\t%s" % (w[1], w[2]) for w in WITNESSES]
    out = ctx.run_model(reqs)
    n = len(WITNESSES)
    for i, w in enumerate(WITNESSES):
        if out[i] != out[n + i] or out[i].startswith("witness-differs") or out[i] in ("bad-request", "model-unavailable"):
            ctx.broken.append("witness %s (%s) is not the program of its corpus request: %s" % (w[0], w[1], out[i][:120]))
    ctx.extra["witness_programs"] = n


SPEC = {
    "id": "C15",
    "gens": ["Reserved", "UsageOperands", "UsageTables"],  # UsageTables: tools/gens/c02.py (exprArms, symbolInserts)
    "lean_modules": ["RsslVerif.Thm.C15", "RsslVerif.Thm.C15Usage"],  # imports Lemmas.Names, Lemmas.NamesOrder, Lemmas.NamesTables (decide facts, cached)
    "theorems": [T + n for n in [
        "source_fingerprints", "reserved_complete", "build_scope_order_independent", "never_reserved",
        "injective_per_scope", "verbatim", "renaming_equivariant_partial", "locals_apart_from_used",
        "scope_loop_terminates",
        # the usage analysis that feeds build sees a symbol wherever its use sits (Thm/C15Usage.lean; gap C15-7)
        "usage_visits_all_operands", "used_symbols_include_index_positions", "locals_apart_from_mentioned",
        # the emitted program (Model/NamesEmit: how both exporters consume the map)
        "emitted_never_reserved", "emitted_injective_file_scope", "flat_used_name_unique",
        # identifiers the exporters introduce themselves (implicit wave parameters, stage locals, wrapper names)
        "introduced_names_reserved_as_modelled", "implicit_params_as_modelled", "implicit_params_apart_from_managed",
        "implicit_params_apart_from_managed_msl", "waveParams_decls", "implicit_param_clash_without_reservation_witness",
        "uses_resolve_to_same_entity", "renaming_equivariant", "renaming_not_suffix_stable_witness",
        # clauses that are false on the current code: witnesses on the model, replayed on the real compiler
        "member_reserved_witness", "cbuffer_reserved_witness", "cbuffer_member_dangling_witness",
        "generated_name_clash_witness", "local_captures_type_witness", "wrapper_param_captures_entry_witness",
        "msl_threaded_leaf_clash_witness", "inline_member_leaf_clash_witness", "relative_path_capture_witness",
        "methods_not_verbatim_witness", "member_method_clash_witness"]],
    "harness": "c15",
    "nontrivial": nontrivial,
    "finding_key": finding_key,
    "shrink": shrink,
    "custom": custom,
    "level_text": "Proof about two executable models, for every module, reserved list and target configuration. (1) NameMap::build "
                  "(per-scope sorted groups, names that can be kept are claimed first, first free name_k for the rest, enum values as "
                  "symbols of the enclosing scope, local-variable pass that avoids the names of used functions/globals): names are never "
                  "reserved, never shared inside a namespace-level scope, unique unreserved names are kept verbatim, locals never take the "
                  "name of a used function/global - and 'used' covers a mention at every expression position: every operand field of "
                  "every ir::Expression variant (re-extracted from the enum) is descended into by its arm of gather_usage_for_expression "
                  "(re-extracted per or-pattern alternative), so a mention at the end of any path of operand steps, e.g. inside a subscript "
                  "index, is recorded (usage_visits_all_operands, used_symbols_include_index_positions, locals_apart_from_mentioned) -, "
                  "the result does not depend on hash iteration order, and the function commutes exactly "
                  "with every renaming that is injective, keeps reserved-ness, commutes with the name_k format and preserves String::cmp "
                  "(renaming_equivariant; a renaming that breaks the name_k format refutes the literal clause: witness). (2) NamesEmit: how "
                  "the HLSL (dx, vk, vk + buffer addresses) and Metal exporters consume the map - every declaration and use of an "
                  "identifier of the emitted program incl. InlineDescriptorN / g_inlineDescriptorN, threaded Metal parameters, "
                  "ArgumentBufferN, setN, the ComputeShaderEntry wrapper and the implicit wave parameters (thread_index_in_simdgroup / "
                  "threads_per_simdgroup, declared in every function of the WaveGetLaneIndex / WaveGetLaneCount call closure, passed on at "
                  "every call, created by the wrapper), plus the reflected binding and entry-point names: every "
                  "declaration of a map-managed entity carries the map's leaf name and is therefore never reserved "
                  "(emitted_never_reserved), file-scope declarations of one namespace are pairwise different "
                  "(emitted_injective_file_scope), no map-managed declaration is spelled like an implicit wave parameter because those names "
                  "are reserved (implicit_params_apart_from_managed; necessary: implicit_param_clash_without_reservation_witness), every "
                  "fixed identifier the generators introduce themselves - re-extracted from declaring positions of generator.rs / "
                  "pipeline.rs / ast_generate.rs and from the constants of names.rs - is in RESERVED_NAMES "
                  "(introduced_names_reserved_as_modelled; the numbered format! identifiers setN / InlineDescriptorN / g_inlineDescriptorN "
                  "are not: witness), the model's implicit parameter names / triggering intrinsics / order are the generator's "
                  "(implicit_params_as_modelled), and in programs without namespaces every map-managed candidate C++ lookup finds for the "
                  "name printed for a used function/global is that entity (uses_resolve_to_same_entity). The clauses that are false on the "
                  "current code (struct members, cbuffer blocks/members, generated names, locals vs type names, Metal wrapper parameters, "
                  "leaf-named threaded parameters / inline-descriptor members, relative paths, methods) are proved false by 11 witnesses "
                  "on the model, each replayed on the real compiler. The reserved tables are re-extracted every run and proved to "
                  "contain an independent keyword list. Vertex/pixel pipelines, local-to-local shadowing and member typing are covered by "
                  "the correspondence run and its oracle only.",
    "rule": "two request streams. C15.names (h|m, descriptor): the harness prints RSSL, type-checks it with the real front end, calls "
            "the real NameMap::build and compares the assignment with the model; it compiles the program and its skeleton (all "
            "entities renamed to unique fresh identifiers) with the real compile() and checks, on the emitted text, token-for-token "
            "equality up to identifiers, reserved names, duplicates per scope, C++ name lookup of every printed path, verbatim names. "
            "C15.res (dx|vk|vkba|msl, descriptor with namespaces, structs with methods, enums, static/const/groupshared globals, 18 "
            "resource kinds with arrays / bindless / bind groups, cbuffer blocks, functions, entry points, a Pipeline): real compile() "
            "with pipeline + the syntax tree from the verification hooks (format(tree) must equal the emitted text); the tree of the "
            "program and of its skeleton are walked in lockstep: every declared identifier (incl. generated ones) non-reserved, no two "
            "entities under one name in one scope, every used identifier and every member access resolves (C++ lookup over the tree's "
            "declarations, light typing for members) to the declaration site it resolves to in the skeleton, reflected binding names "
            "and entry points name the declaration sites they name in the skeleton, names agree with the direct NameMap::build call, "
            "verbatim names; the model must print the same declaration/use listing, reflection and entry names.  Sweeps: every name of "
            "RESERVED_NAMES (both targets), of the independent lists and of the exporters' own generated names in 27 resource "
            "positions x 4 targets and 13 plain positions x 2 targets, plus 11 wave positions (entry / helper parameter, local, "
            "block local, caller that only passes the values on, threaded global, resource, function, entry, namespace) for every "
            "identifier the exporters introduce (list = fixed list + identifiers re-extracted from the generator sources + "
            "RESERVED_NAMES + Spec lists, so a name dropped from RESERVED_NAMES stays swept); random programs over small name "
            "pools, and a second random stream whose bodies use the wave intrinsics and whose pools take introduced names.  Usage "
            "positions (names stream): `use REF@p` prints the use as subscript index / index of an index / subscript object / "
            "intrinsic argument / ternary arm / ternary condition / binary operand / cast operand / constructor argument / swizzle "
            "object, `lvi NAME REF@p` as the initialiser of a local (typed before the local is declared); 10 directed shapes x 11 "
            "positions (symbol used ONLY there next to a same-named local / parameter / block local, ::x, N::x, function called in "
            "the initialiser of its namesake, use in another function) and a random stream (seed ^ 0x705c15a7) with scattered "
            "positions.  non-trivial = a "
            "generated name occurs or >= 4 symbols are named",
    "trusted_base": [
        "Lean 4.33 kernel; axioms propext / Classical.choice / Quot.sound only (audited by #print axioms)",
        "tools/gens/c15.py (Gen.Reserved: RESERVED_NAMES of both exporters with constants resolved, is_illegal_*_name, literal "
        "fingerprints of the statements of NameMap::build the model transcribes, the NameMap::build call arguments; "
        "mslIntroduced / hlslIntroduced / *Patterns: identifiers in the declaring positions Declarator::Identifier(ScopedIdentifier::"
        "trivial(X)), Declarator::from(Located::none(X)), VarDef::one(Located::none(String::from(X))) and every names.rs constant the "
        "generator sources mention; mslImplicitParams / mslImplicitIntrinsics / mslImplicitOrder: per-arm extraction of the three "
        "ImplicitFunctionParameter matches, which must agree; generator/intrinsic_helpers.rs is excluded - it declares only inside "
        "namespace helper)",
        "tools/gens/c15.py (Gen.UsageOperands: fields of enum Expression whose type mentions Expression / ConstructorSlot) and "
        "tools/gens/c02.py (Gen.UsageTables.exprArms / symbolInserts: per match arm and or-pattern alternative of "
        "gather_usage_for_expression, is the bound field passed on to a gather_usage_* call); reading 'a mention is recorded iff every "
        "step of its path is descended into' (Thm/C15Usage.mentionRecorded) is the semantics of that recursive function",
        "hand-written Model/Names.lean mirrors NameMap::build, Model/NamesEmit.lean mirrors the consumption of the map by "
        "hlsl/src/ast_generate.rs and msl/src/generator.rs + generator/pipeline.rs; both tied to the code by the correspondence "
        "run only, except the implicit wave parameters and the introduced-name tables (Gen.Reserved)",
        "Spec/Names.lean: committed independent keyword/built-in lists for HLSL and MSL (our reading of the language references); "
        "Spec/NamesResolve.lean: C++ unqualified lookup for programs without namespaces",
        "harness: descriptor -> RSSL printers, output lexer and scope resolver (names stream), syntax-tree walker with C++ lookup and "
        "light member typing (res stream), the route front end -> select_pipeline -> assign_api_bindings -> verif_generate_ast "
        "(checked per case against compile(): format(tree) = text)",
        "the Lean witness programs are the programs of their corpus requests (checked per run by C15.witness: term = parsed request)",
    ],
    "assumptions": [
        "registry ids follow declaration order (checked per case: the registries' source names are compared with the descriptor)",
        "String::cmp order = Lean String < on the identifiers used (ASCII)",
        "the usage analysis is an input of the model (Input.used / NamesEmit.usedSyms: every global / function named by a use in "
        "some function body, cbuffer members counting as their global on Metal), which is what GlobalUsageAnalysis yields for the "
        "generated programs (literal initialisers, no default arguments); usage through global initialisers and default arguments "
        "is not generated; the expression walk is covered by usage_visits_all_operands (table) and the position stream, the "
        "statement walk (stmtArms / initArms / forInitArms) and the call-closure fixpoint are C02's obligations "
        "(all_positions_descended) and are exercised here only through expression statements and local initialisers",
        "emitted_* theorems assume the symbol has a name in the map (otherwise the real code panics 'No name for symbol') and, for "
        "injectivity, that every symbol has one registry entry (true of the parser's output; decided in the non-vacuity example)",
        "the skeleton (all user identifiers fresh) is an accepted program whenever the program is; programs with two entities of one "
        "source scope under one identifier (other than overloads) or that refer by name to a type called like an RSSL built-in are "
        "skipped (the skeleton is then no renaming of identifiers)",
    ],
}

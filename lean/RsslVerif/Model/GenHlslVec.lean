import RsslVerif.Model.IrVec
import RsslVerif.Model.GenHlsl
/-!
# `Model.GenHlslVec` — `generate_expression`'s shape-changing arms (hlsl/src/ast_generate.rs)

* `Cast(type_id, expr)`: the operand itself is generated (never looked through); the cast is dropped only when the
  target is the *scalar* `IntLiteral` / `FloatLiteral` type; otherwise `Cast(generate_type_id(type), inner)`.
  A *vector of a literal type* reaches `generate_scalar_type` and panics (kept as the panic it is; the type checker
  no longer builds such a target since fixes 40c6233 / c05bffa).
* `Swizzle(object, slots)`: `Member(generate(object), letters)` with one letter per slot (`swizzleChar`, re-extracted).
* `Constructor(type, slots)`: `Call(Identifier(type name), [], [generate(slot.expr) …])`, slots in order, arity unused.
* `generate_type_impl`, `Vector(st, x)` arm: the scalar's name with the dimension appended.
* `IntrinsicOp` / `TernaryConditional`: as in `Model.GenHlsl`.
-/
namespace RsslVerif.Model.GenHlslVec
open RsslVerif.Gen.HlslGenTables RsslVerif.Gen.HlslVecTables RsslVerif.Model RsslVerif.Model.IrVec
open RsslVerif.Model.GenHlsl (GenErr Ctx typeName genExpr)
open RsslVerif.Model.Ir (Ty)

/-- `format!("{x}")` for the dimensions a vector type can have -/
def dimSuffix : Nat → Option String
  | 1 => some "1"
  | 2 => some "2"
  | 3 => some "3"
  | 4 => some "4"
  | _ => none

/-- `generate_type_impl` for `Scalar` / `Vector` -/
def vtypeName : VTy → Except GenErr String
  | .sc t => typeName t
  | .vec t n =>
    match typeName t with
    | .error e => .error e
    | .ok s =>
      match dimSuffix n with
      | some d => .ok (s ++ d)
      | none => .error (.unsupported "vector dimension")

/-- the `member` string of the Swizzle arm -/
def swizzleName (sl : List SwizzleSlot) : String := String.ofList (sl.map swizzleChar)

mutual
/-- `generate_expression` on the vector layer -/
def genV (cx : Ctx) : VExpr → Except GenErr VAExpr
  | .sc e =>
    match genExpr cx e with
    | .error err => .error err
    | .ok a => .ok (.sc a)
  | .vvar id => .ok (.ident (cx.locName id))
  | .vglobal id => .ok (.ident (cx.globName id))
  | .cast ty e =>
    match genV cx e with
    | .error err => .error err
    | .ok inner =>
      if ty = .sc .lit ∨ ty = .sc .flit then .ok inner
      else
        match vtypeName ty with
        | .error err => .error err
        | .ok n => .ok (.cast n inner)
  | .swz e sl =>
    match genV cx e with
    | .error err => .error err
    | .ok o => .ok (.member o (swizzleName sl))
  | .ctor ty slots =>
    match vtypeName ty with
    | .error err => .error err
    | .ok n =>
      match genSlots cx slots with
      | .error err => .error err
      | .ok as => .ok (.call n as)
  | .tern c t f =>
    match genV cx c with
    | .error e => .error e
    | .ok c' =>
      match genV cx t with
      | .error e => .error e
      | .ok t' =>
        match genV cx f with
        | .error e => .error e
        | .ok f' => .ok (.tern c' t' f')
  | .op o args =>
    match opForm o with
    | .unexpected => .error (.panic "generate_intrinsic_op: not expected")
    | .unary u =>
      match args with
      | .cons a .nil =>
        match genV cx a with
        | .error e => .error e
        | .ok a' => .ok (.un u a')
      | _ => .error (.panic "generate_intrinsic_op: assertion failed: exprs.len() == 1")
    | .binary b =>
      match args with
      | .cons x (.cons y .nil) =>
        match genV cx x with
        | .error e => .error e
        | .ok x' =>
          match genV cx y with
          | .error e => .error e
          | .ok y' => .ok (.bin b x' y')
      | _ => .error (.panic "generate_intrinsic_op: assertion failed: exprs.len() == 2")
/-- the loop over the constructor's slots -/
def genSlots (cx : Ctx) : VSlots → Except GenErr VAExprs
  | .nil => .ok .nil
  | .cons _ e r =>
    match genV cx e with
    | .error err => .error err
    | .ok a =>
      match genSlots cx r with
      | .error err => .error err
      | .ok as => .ok (.cons a as)
end

end RsslVerif.Model.GenHlslVec

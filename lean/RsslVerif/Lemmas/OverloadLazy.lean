import RsslVerif.Lemmas.Overload
import RsslVerif.Lemmas.Conv
/-! `resolveLazy` (the literal transcription of `find_function_type` with `get_rank` evaluated inside the loops)
computes the same outcome as `resolve` (all ranks first). Core Lean only. -/
namespace RsslVerif.Lemmas.OverloadLazy
open RsslVerif.Gen.RankTable RsslVerif.Model.Conv RsslVerif.Model.Overload RsslVerif.Spec.Overload
open RsslVerif.Lemmas.Overload RsslVerif.Lemmas.Conv

/-- total version of `getRank`, only meaningful where `getRank` succeeds -/
def rk (c : Conversion) : Rank :=
  match getRank c with
  | .ok r => r
  | .error _ => default

def Ok (c : Conversion) : Prop := getRank c = .ok (rk c)

theorem ok_or_error (c : Conversion) : Ok c ∨ ∃ e, getRank c = .error e := by
  unfold Ok rk
  cases h : getRank c with
  | ok r => left; rfl
  | error e => right; exact ⟨e, rfl⟩

/-! ## the successful case -/

theorem ranksOf_ok : ∀ (cs : List Conversion), (∀ c ∈ cs, Ok c) → ranksOf cs = .ok (cs.map rk)
  | [], _ => rfl
  | c :: cs, h => by
    simp only [ranksOf, ranksOf_ok cs (fun x hx => h x (List.mem_cons_of_mem _ hx))]
    have := h c List.mem_cons_self
    unfold Ok at this
    rw [this]; rfl

theorem notWorseL_ok : ∀ (cs as : List Conversion), (∀ c ∈ cs, Ok c) → (∀ a ∈ as, Ok a) →
    notWorseL cs as = .ok (notWorse (cs.map rk) (as.map rk))
  | [], _, _, _ => by simp [notWorseL, notWorse]
  | _ :: _, [], _, _ => by simp [notWorseL, notWorse]
  | c :: cs, a :: as, hc, ha => by
    have h1 := hc c List.mem_cons_self
    have h2 := ha a List.mem_cons_self
    unfold Ok at h1 h2
    simp only [notWorseL, h1, h2,
      notWorseL_ok cs as (fun x hx => hc x (List.mem_cons_of_mem _ hx)) (fun x hx => ha x (List.mem_cons_of_mem _ hx)),
      List.map_cons, notWorse]

def rmap (x : Nat × List Conversion) : Nat × List Rank := (x.1, x.2.map rk)

theorem winningL_ok (c : Nat × List Conversion) (hc : ∀ x ∈ c.2, Ok x) :
    ∀ (l : List (Nat × List Conversion)), (∀ a ∈ l, ∀ x ∈ a.2, Ok x) →
      winningL c l = .ok (l.all fun a => a.1 == c.1 || notWorse (c.2.map rk) (a.2.map rk))
  | [], _ => rfl
  | a :: as, h => by
    have ih := winningL_ok c hc as (fun b hb => h b (List.mem_cons_of_mem _ hb))
    simp only [winningL, List.all_cons]
    by_cases hid : (a.1 == c.1) = true
    · simp [hid, ih]
    · have hid' : (a.1 == c.1) = false := by simpa using hid
      rw [notWorseL_ok c.2 a.2 hc (h a List.mem_cons_self)]
      simp only [hid', Bool.false_or, Bool.false_eq_true, if_false]
      cases hn : notWorse (c.2.map rk) (a.2.map rk) with
      | false => simp
      | true => simp [ih]

theorem winnersL_ok (all : List (Nat × List Conversion)) (hall : ∀ a ∈ all, ∀ x ∈ a.2, Ok x) :
    ∀ (l : List (Nat × List Conversion)), (∀ a ∈ l, ∀ x ∈ a.2, Ok x) →
      winnersL all l = .ok (l.filter fun c => all.all fun a => a.1 == c.1 || notWorse (c.2.map rk) (a.2.map rk))
  | [], _ => rfl
  | c :: cs, h => by
    simp only [winnersL, winningL_ok c (h c List.mem_cons_self) all hall,
      winnersL_ok all hall cs (fun b hb => h b (List.mem_cons_of_mem _ hb)), List.filter_cons]

theorem rankWinners_ok : ∀ (l : List (Nat × List Conversion)), (∀ a ∈ l, ∀ x ∈ a.2, Ok x) →
    rankWinners l = .ok (l.map rmap)
  | [], _ => rfl
  | c :: cs, h => by
    simp only [rankWinners, ranksOf_ok c.2 (h c List.mem_cons_self),
      rankWinners_ok cs (fun b hb => h b (List.mem_cons_of_mem _ hb)), List.map_cons, rmap]

/-- with every `get_rank` succeeding, the lazy loops compute `winners` of the ranked list -/
theorem lazy_winners_ok (casts : List (Nat × List Conversion)) (h : ∀ a ∈ casts, ∀ x ∈ a.2, Ok x) :
    ∃ w, winnersL casts casts = .ok w ∧ rankWinners w = .ok (winners (casts.map rmap)) := by
  refine ⟨_, winnersL_ok casts h casts h, ?_⟩
  rw [rankWinners_ok _ (fun a ha => h a (List.mem_filter.mp ha).1)]
  congr 1
  unfold winners
  rw [List.filter_map]
  congr 1
  apply List.filter_congr
  intro c _
  simp only [Function.comp, rmap, List.all_map]
  rfl

/-! ## the panicking case -/

theorem ranksOf_error : ∀ (cs : List Conversion) (c : Conversion), c ∈ cs → (∃ e, getRank c = .error e) →
    ∃ e, ranksOf cs = .error e
  | [], _, h, _ => by simp at h
  | x :: xs, c, h, he => by
    simp only [ranksOf]
    cases hx : ranksOf xs with
    | error e => exact ⟨e, rfl⟩
    | ok rs =>
      simp only []
      rcases List.mem_cons.mp h with h | h
      · subst h
        obtain ⟨e, he⟩ := he
        rw [he]; exact ⟨e, rfl⟩
      · obtain ⟨e, he'⟩ := ranksOf_error xs c h he
        rw [hx] at he'; simp at he'

theorem ranksOf_error_inv : ∀ (cs : List Conversion), (∃ e, ranksOf cs = .error e) →
    ∃ c ∈ cs, ∃ e, getRank c = .error e
  | [], h => by simp [ranksOf] at h
  | x :: xs, h => by
    rcases ok_or_error x with hx | hx
    · by_cases hall : ∀ c ∈ xs, Ok c
      · have := ranksOf_ok (x :: xs) (by
          intro c hc
          rcases List.mem_cons.mp hc with hc | hc
          · rw [hc]; exact hx
          · exact hall c hc)
        obtain ⟨e, he⟩ := h
        rw [this] at he; simp at he
      · have : ∃ c ∈ xs, ¬ Ok c := by
          apply Classical.byContradiction
          intro hn
          apply hall
          intro c hc
          apply Classical.byContradiction
          intro hnc
          exact hn ⟨c, hc, hnc⟩
        obtain ⟨c, hc, hnc⟩ := this
        rcases ok_or_error c with h1 | h1
        · exact absurd h1 hnc
        · exact ⟨c, List.mem_cons_of_mem _ hc, h1⟩
    · exact ⟨x, List.mem_cons_self, hx⟩

theorem notWorseL_error : ∀ (cs as : List Conversion) (c : Conversion), c ∈ cs → (∃ e, getRank c = .error e) →
    cs.length ≤ as.length → ∃ e, notWorseL cs as = .error e
  | [], _, _, h, _, _ => by simp at h
  | _ :: _, [], _, _, _, hl => by simp at hl
  | x :: xs, a :: as, c, h, he, hl => by
    simp only [notWorseL]
    cases hx : getRank x with
    | error e => exact ⟨e, rfl⟩
    | ok xr =>
      simp only []
      cases ha : getRank a with
      | error e => exact ⟨e, rfl⟩
      | ok ar =>
        simp only []
        rcases List.mem_cons.mp h with h | h
        · subst h
          obtain ⟨e, he⟩ := he
          rw [hx] at he; simp at he
        · obtain ⟨e, he'⟩ := notWorseL_error xs as c h he (by simpa using hl)
          rw [he']; exact ⟨e, rfl⟩

theorem winningL_error (x : Nat × List Conversion) (c : Conversion) (hc : c ∈ x.2)
    (he : ∃ e, getRank c = .error e) :
    ∀ (l : List (Nat × List Conversion)), (∃ a ∈ l, a.1 ≠ x.1) → (∀ a ∈ l, x.2.length ≤ a.2.length) →
      ∃ e, winningL x l = .error e
  | [], h, _ => by simp at h
  | a :: as, h, hl => by
    simp only [winningL]
    by_cases hid : (a.1 == x.1) = true
    · simp only [hid, if_true]
      apply winningL_error x c hc he as
      · obtain ⟨b, hb, hne⟩ := h
        rcases List.mem_cons.mp hb with hb | hb
        · subst hb; exact absurd (by simpa using hid) hne
        · exact ⟨b, hb, hne⟩
      · exact fun b hb => hl b (List.mem_cons_of_mem _ hb)
    · simp only [hid, Bool.false_eq_true, if_false]
      obtain ⟨e, he'⟩ := notWorseL_error x.2 a.2 c hc he (hl a List.mem_cons_self)
      rw [he']; exact ⟨e, rfl⟩

theorem winnersL_error (all : List (Nat × List Conversion)) (x : Nat × List Conversion)
    (hx : ∃ e, winningL x all = .error e) :
    ∀ (l : List (Nat × List Conversion)), x ∈ l → ∃ e, winnersL all l = .error e
  | [], h => by simp at h
  | c :: cs, h => by
    simp only [winnersL]
    cases hc : winningL c all with
    | error e => exact ⟨e, rfl⟩
    | ok w =>
      simp only []
      rcases List.mem_cons.mp h with h | h
      · subst h
        obtain ⟨e, he⟩ := hx
        rw [hc] at he; simp at he
      · obtain ⟨e, he⟩ := winnersL_error all x hx cs h
        rw [he]; exact ⟨e, rfl⟩

theorem rankWinners_error : ∀ (l : List (Nat × List Conversion)) (x : Nat × List Conversion), x ∈ l →
    (∃ e, ranksOf x.2 = .error e) → ∃ e, rankWinners l = .error e
  | [], _, h, _ => by simp at h
  | c :: cs, x, h, he => by
    simp only [rankWinners]
    cases hc : ranksOf c.2 with
    | error e => exact ⟨e, rfl⟩
    | ok rs =>
      simp only []
      rcases List.mem_cons.mp h with h | h
      · subst h
        obtain ⟨e, he⟩ := he
        rw [hc] at he; simp at he
      · obtain ⟨e, he'⟩ := rankWinners_error cs x h he
        rw [he']; exact ⟨e, rfl⟩

/-- some cast of some viable candidate has a panicking `get_rank` ⇒ the lazy evaluation reaches a panic -/
theorem lazy_panics (casts : List (Nat × List Conversion)) (hnd : (casts.map (·.1)).Nodup) {n : Nat}
    (hlen : ∀ a ∈ casts, a.2.length = n) {x : Nat × List Conversion} (hx : x ∈ casts) {c : Conversion}
    (hc : c ∈ x.2) (he : ∃ e, getRank c = .error e) :
    (∃ e, winnersL casts casts = .error e) ∨
    (∃ w, winnersL casts casts = .ok w ∧ ∃ e, rankWinners w = .error e) := by
  by_cases hother : ∃ a ∈ casts, a.1 ≠ x.1
  · left
    apply winnersL_error casts x _ casts hx
    apply winningL_error x c hc he casts hother
    intro a ha
    rw [hlen a ha, hlen x hx]; exact Nat.le_refl _
  · -- x is the only viable candidate
    right
    have hall : ∀ a ∈ casts, a.1 = x.1 := by
      intro a ha
      apply Classical.byContradiction
      intro hne
      exact hother ⟨a, ha, hne⟩
    have hsingle : casts = [x] := by
      match casts, hnd, hx, hall with
      | [], _, hx, _ => simp at hx
      | [a], _, hx, _ => simp at hx; rw [hx]
      | a :: b :: t, hnd, _, hall =>
        have h1 := hall a List.mem_cons_self
        have h2 := hall b (List.mem_cons_of_mem _ List.mem_cons_self)
        simp only [List.map_cons, List.nodup_cons, List.mem_cons, not_or] at hnd
        exact absurd (h1.trans h2.symm) hnd.1.1
    subst hsingle
    refine ⟨[x], ?_, ?_⟩
    · simp [winnersL, winningL]
    · exact rankWinners_error [x] x List.mem_cons_self (ranksOf_error x.2 c hc he)

/-! ## `viableCasts` versus `rankCand` -/

theorem zipFind_no_panic : ∀ (ps : List Param) (as : List ETy), ∃ r, zipFind ps as = .ok r
  | [], _ => ⟨some [], by simp [zipFind]⟩
  | _ :: _, [] => ⟨some [], by simp [zipFind]⟩
  | p :: ps, a :: as => by
    simp only [zipFind]
    obtain ⟨r, hr⟩ := find_no_panic a p.ety
    rw [hr]
    cases r with
    | none => exact ⟨_, rfl⟩
    | some c =>
      simp only []
      obtain ⟨r', hr'⟩ := zipFind_no_panic ps as
      rw [hr']
      cases r' <;> exact ⟨_, rfl⟩

theorem zipFind_length : ∀ (ps : List Param) (as : List ETy) (cs : List Conversion),
    zipFind ps as = .ok (some cs) → cs.length = min ps.length as.length
  | [], _, cs, h => by
    simp only [zipFind, Except.ok.injEq, Option.some.injEq] at h
    rw [← h]; simp
  | _ :: _, [], cs, h => by
    simp only [zipFind, Except.ok.injEq, Option.some.injEq] at h
    rw [← h]; simp
  | p :: ps, a :: as, cs, h => by
    simp only [zipFind] at h
    split at h
    · simp at h
    · simp at h
    · split at h
      · simp at h
      · simp at h
      · rename_i cs' hcs'
        simp only [Except.ok.injEq, Option.some.injEq] at h
        rw [← h]
        simp only [List.length_cons, zipFind_length ps as cs' hcs']
        omega

/-- `zipRanks` is `zipFind` followed by `ranksOf` -/
theorem zipRanks_eq : ∀ (ps : List Param) (as : List ETy),
    zipRanks ps as =
      (match zipFind ps as with
       | .error e => .error e
       | .ok none => .ok none
       | .ok (some cs) =>
         match ranksOf cs with
         | .error e => .error e
         | .ok rs => .ok (some rs))
  | [], _ => by simp [zipRanks, zipFind, ranksOf]
  | _ :: _, [] => by simp [zipRanks, zipFind, ranksOf]
  | p :: ps, a :: as => by
    simp only [zipRanks, zipFind]
    cases hf : find a p.ety with
    | error e => rfl
    | ok r =>
      cases r with
      | none => rfl
      | some c =>
        simp only []
        rw [zipRanks_eq ps as]
        cases hz : zipFind ps as with
        | error e => rfl
        | ok r' =>
          cases r' with
          | none => rfl
          | some cs =>
            simp only [ranksOf]
            cases hr : ranksOf cs with
            | error e => rfl
            | ok rs =>
              simp only []
              cases getRank c <;> rfl

structure Link (args : List ETy) (cands : List Cand) (casts : List (Nat × List Conversion)) : Prop where
  viable : viableCasts args cands = .ok casts
  panic_iff : (cands.map (rankCand args)).any CandResult.isPanic = true ↔ ∃ x ∈ casts, ∃ e, ranksOf x.2 = .error e
  ranked : (∀ x ∈ casts, ∀ c ∈ x.2, Ok c) → rankedList cands args = casts.map rmap
  len : ∀ x ∈ casts, x.2.length = args.length
  ids : ∀ x ∈ casts, x.1 ∈ cands.map (·.id)
  nodup : (cands.map (·.id)).Nodup → (casts.map (·.1)).Nodup

theorem link (args : List ETy) : ∀ (cands : List Cand), ∃ casts, Link args cands casts
  | [] => ⟨[], ⟨rfl, by simp, fun _ => rfl, by simp, by simp, fun _ => by simp⟩⟩
  | c :: cs => by
    obtain ⟨rest, L⟩ := link args cs
    by_cases hg : args.length ≤ c.params.length ∧ c.nonDefault ≤ args.length
    · obtain ⟨r, hr⟩ := zipFind_no_panic c.params args
      cases r with
      | none =>
        -- not viable
        have hrc : rankCand args c = .notViable := by
          unfold rankCand; rw [if_pos hg, zipRanks_eq, hr]
        refine ⟨rest, ⟨?_, ?_, ?_, L.len, ?_, ?_⟩⟩
        · simp only [viableCasts, if_pos hg, hr, L.viable]
        · simp only [List.map_cons, List.any_cons, hrc, CandResult.isPanic, Bool.false_or]
          exact L.panic_iff
        · intro h
          rw [rankedList_cons, hrc]
          simpa [CandResult.ranked?] using L.ranked h
        · intro x hx; exact List.mem_cons_of_mem _ (L.ids x hx)
        · intro h
          simp only [List.map_cons, List.nodup_cons] at h
          exact L.nodup h.2
      | some cv =>
        have hlen : cv.length = args.length := by
          rw [zipFind_length _ _ _ hr]; omega
        refine ⟨(c.id, cv) :: rest, ⟨?_, ?_, ?_, ?_, ?_, ?_⟩⟩
        · simp only [viableCasts, if_pos hg, hr, L.viable]
        · have hrc : rankCand args c =
              (match ranksOf cv with | .error e => .panic e | .ok rs => .ranked c.id rs) := by
            unfold rankCand; rw [if_pos hg, zipRanks_eq, hr]
            cases hr' : ranksOf cv <;> simp [hr']
          simp only [List.map_cons, List.any_cons, Bool.or_eq_true, L.panic_iff, List.mem_cons]
          constructor
          · rintro (h | ⟨x, hx, he⟩)
            · rw [hrc] at h
              cases hr' : ranksOf cv with
              | error e => exact ⟨(c.id, cv), Or.inl rfl, e, hr'⟩
              | ok rs => rw [hr'] at h; simp [CandResult.isPanic] at h
            · exact ⟨x, Or.inr hx, he⟩
          · rintro ⟨x, hx | hx, e, he⟩
            · left
              rw [hrc]
              subst hx
              simp only [] at he
              rw [he]; rfl
            · right; exact ⟨x, hx, e, he⟩
        · intro h
          have hcv : ∀ x ∈ cv, Ok x := h (c.id, cv) List.mem_cons_self
          have hrc : rankCand args c = .ranked c.id (cv.map rk) := by
            unfold rankCand; rw [if_pos hg, zipRanks_eq, hr]
            simp only [ranksOf_ok cv hcv]
          rw [rankedList_cons, hrc]
          simp only [CandResult.ranked?, List.singleton_append, List.map_cons, rmap]
          rw [L.ranked (fun x hx => h x (List.mem_cons_of_mem _ hx))]
        · intro x hx
          rcases List.mem_cons.mp hx with hx | hx
          · rw [hx]; exact hlen
          · exact L.len x hx
        · intro x hx
          rcases List.mem_cons.mp hx with hx | hx
          · rw [hx]; exact List.mem_map.mpr ⟨c, List.mem_cons_self, rfl⟩
          · exact List.mem_cons_of_mem _ (L.ids x hx)
        · intro h
          simp only [List.map_cons, List.nodup_cons] at h ⊢
          refine ⟨?_, L.nodup h.2⟩
          intro hm
          obtain ⟨x, hx, hxe⟩ := List.mem_map.mp hm
          apply h.1
          rw [← hxe]
          exact L.ids x hx
    · have hrc : rankCand args c = .notViable := by
        unfold rankCand; rw [if_neg hg]
      refine ⟨rest, ⟨?_, ?_, ?_, L.len, ?_, ?_⟩⟩
      · simp only [viableCasts, if_neg hg, L.viable]
      · simp only [List.map_cons, List.any_cons, hrc, CandResult.isPanic, Bool.false_or]
        exact L.panic_iff
      · intro h
        rw [rankedList_cons, hrc]
        simpa [CandResult.ranked?] using L.ranked h
      · intro x hx; exact List.mem_cons_of_mem _ (L.ids x hx)
      · intro h
        simp only [List.map_cons, List.nodup_cons] at h
        exact L.nodup h.2

/-- the literal transcription and the rank-everything-first model agree -/
theorem resolveLazy_eq (cands : List Cand) (args : List ETy) (hid : (cands.map (·.id)).Nodup) :
    resolveLazy cands args = resolve cands args := by
  obtain ⟨casts, L⟩ := link args cands
  unfold resolveLazy
  rw [L.viable]
  simp only []
  by_cases hall : ∀ x ∈ casts, ∀ c ∈ x.2, Ok c
  · obtain ⟨w, hw, hrw⟩ := lazy_winners_ok casts hall
    rw [hw]; simp only []; rw [hrw]; simp only []
    have hnp : (cands.map (rankCand args)).any CandResult.isPanic = false := by
      rw [Bool.eq_false_iff]
      intro hp
      obtain ⟨x, hx, e, he⟩ := L.panic_iff.mp hp
      rw [ranksOf_ok x.2 (hall x hx)] at he
      simp at he
    have hres : resolve cands args = resolveRanked (rankedList cands args) := by
      simp only [resolve, rankedList, hnp]; simp
    rw [hres, L.ranked hall]
    rfl
  · have : ∃ x ∈ casts, ∃ c ∈ x.2, ¬ Ok c := by
      apply Classical.byContradiction
      intro hn
      apply hall
      intro x hx c hc
      apply Classical.byContradiction
      intro hnc
      exact hn ⟨x, hx, c, hc, hnc⟩
    obtain ⟨x, hx, c, hc, hnc⟩ := this
    have he : ∃ e, getRank c = .error e := by
      rcases ok_or_error c with h | h
      · exact absurd h hnc
      · exact h
    have hpanic : resolve cands args = .panic := by
      have : (cands.map (rankCand args)).any CandResult.isPanic = true :=
        L.panic_iff.mpr ⟨x, hx, ranksOf_error x.2 c hc he⟩
      simp only [resolve, this]; simp
    rw [hpanic]
    rcases lazy_panics casts (L.nodup hid) L.len hx hc he with ⟨e, h⟩ | ⟨w, hw, e, h⟩
    · rw [h]
    · rw [hw]; simp only []; rw [h]

end RsslVerif.Lemmas.OverloadLazy

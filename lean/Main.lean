import RsslVerif.Driver.Util
import RsslVerif.Driver.C06
/-!
`rsslmodel`: reads request lines `<Prop>.<op>\t<arg>\t...` on stdin and prints one observation line
per request.  Core-only imports, so it links as a `lean_exe`.
-/
open RsslVerif.Driver

def dispatch (line : String) : String :=
  match fields line with
  | op :: args =>
    if op == "C06.assign" then C06.handle args
    else "unsupported-op"
  | [] => "bad-request"

partial def loop (h : IO.FS.Stream) (out : IO.FS.Stream) : IO Unit := do
  let line ← h.getLine
  if line.isEmpty then return ()
  let line := if line.endsWith "\n" then (line.dropEnd 1).toString else line
  out.putStrLn (dispatch line)
  loop h out

def main : IO Unit := do
  let out ← IO.getStdout
  loop (← IO.getStdin) out
  out.flush

import RsslVerif.Model.GenMsl
import RsslVerif.Driver.C01
/-!
Line-protocol front end of the semantic half of the C02 model.

`C02.gen <source> <function> <argument vectors> <ctx> <ir>`: parses the IR s-expressions the harness produced from the
real `ir::Module` (the serialisation of C01), recomputes `function_required_globals` / `called_functions`, recomputes the
Metal exporter's definitions for the requested function with `GenMsl.genFuncs` (trampoline target, trampoline), prints
them, and runs `Ir.phi` (typed semantics) on every argument vector with the concrete primitive interpretation the
harness uses.
-/
namespace RsslVerif.Driver.C02Sem
open RsslVerif.Gen.HlslGenTables RsslVerif.Model RsslVerif.Model.GenMsl RsslVerif.Spec.Sem RsslVerif.Driver
open RsslVerif.Model.Ir (Ty Var Const Dir)
open RsslVerif.Driver.C01 (Sx parseAll parseFunc? parseVectors tyOf? parseVal? showStmts showOutcome concretePrim FUEL DEPTH)

structure Info where
  base : C01.Info
  /-- global id ↦ threaded as a parameter (static, not const) -/
  paramMode : List (Nat × Bool)

def parseCtx? (s : String) : Option Info := do
  let parts := s.splitOn ";"
  let field (k : String) : Option String :=
    (parts.find? (·.startsWith (k ++ "="))).map fun p => (p.drop (k.length + 1)).toString
  let items (t : String) : List String := if t.isEmpty then [] else t.splitOn ","
  let vars ← sequenceOpt ((items (← field "vars")).map fun it =>
    match it.splitOn ":" with
    | [i, n, t] => do pure ((← i.toNat?), n, (← tyOf? t))
    | _ => none)
  let globs ← sequenceOpt ((items (← field "globs")).map fun it =>
    match it.splitOn ":" with
    | [i, n, t, m, k, v] => do pure ((← i.toNat?), n, (← tyOf? t), m == "P", (← parseVal? (k ++ ":" ++ v)))
    | [i, n, t, m, "v"] => do pure ((← i.toNat?), n, (← tyOf? t), m == "P", Val.void)
    | _ => none)
  let funcs ← sequenceOpt ((items (← field "funcs")).map fun it =>
    match it.splitOn ":" with
    | [i, n] => do pure ((← i.toNat?), n)
    | _ => none)
  let target ← (← field "target").toNat?
  pure { base := { vars := vars, globs := globs.map (fun g => (g.1, g.2.1, g.2.2.1, g.2.2.2.2)), funcs := funcs, target := target },
         paramMode := globs.map fun g => (g.1, g.2.2.2.1) }

def Info.isParamMode (inf : Info) (g : Nat) : Bool := ((inf.paramMode.find? (·.1 == g)).map (·.2)).getD false

def Info.ctx (inf : Info) (prog : List Ir.Func) : GenMsl.Ctx :=
  let c := inf.base.ctx
  { locName := c.locName, globName := c.globName, funcName := c.funcName, vty := c.vty,
    retTy := fun f => (prog.find? (·.id == f)).map (·.ret),
    req := reqOf prog inf.isParamMode,
    called := calledOf prog }

def showParam : MslAst.Param → String
  | .val t n => "(val " ++ t ++ " " ++ n ++ ")"
  | .ref s t n => "(ref " ++ s ++ " " ++ t ++ " " ++ n ++ ")"
  | .tag t => "(tag " ++ t ++ ")"

def showFunc (f : MslAst.Func) : String :=
  "(fn " ++ f.name ++ " " ++ f.ret ++ " (" ++ " ".intercalate ("params" :: f.params.map showParam) ++ ") (block" ++ showStmts f.body ++ "))"

def panicCategory (site : String) : String :=
  if (site.splitOn "negate with overflow").length > 1 then "negate-overflow"
  else if (site.splitOn "cannot represent").length > 1 then "cannot-represent"
  else if (site.splitOn "assertion").length > 1 then "assert"
  else if (site.splitOn "unwrap").length > 1 then "unwrap"
  else "other"

def handleGen (vectors ctx ir : String) : String :=
  let items := parseAll ir
  if items.any (Sx.hasHead "unsupported") || items.any (Sx.hasHead "intr") || (ctx.splitOn "unsupported").length > 1 then "unsupported" else
  match parseCtx? ctx, sequenceOpt (items.map parseFunc?), parseVectors vectors with
  | some inf, some prog, some vecs =>
    match prog.find? (·.id == inf.base.target) with
    | none => "bad-request: target"
    | some fn =>
      let cx := inf.ctx prog
      -- the exporter generates every function of the module: the first failure is what the caller sees
      let gens := prog.map fun f => (f.id, genFuncs cx f)
      let firstErr : Option GenHlsl.GenErr := gens.findSome? (fun g => match g.2 with | .error e => some e | .ok _ => none)
      match firstErr with
      | some (.panic site) => "panic " ++ panicCategory site
      | some (.unsupported _) => "unsupported"
      | none =>
        match gens.find? (·.1 == fn.id) with
        | some (_, .ok defs) =>
          let σ0 : Store := fun x => match x with
            | .glob n => ((inf.base.globs.find? (·.1 == n)).map (·.2.2.2)).getD .void
            | .loc _ => .void
          let outs := vecs.map fun v => showOutcome inf.base (Ir.phi concretePrim prog FUEL DEPTH fn.id v σ0)
          "ast " ++ " ".intercalate (defs.map showFunc) ++ " ;; run " ++ " | ".intercalate outs
        | _ => "bad-request: gen"
  | _, _, _ => "bad-request"

def handle (op : String) (args : List String) : String :=
  match op, args with
  | "C02.gen", [_src, name, vectors, ctx, ir] => if name == "-" then "skip" else handleGen vectors ctx ir
  | "C02.gen", _ => "skip"
  | _, _ => "unsupported-op"

end RsslVerif.Driver.C02Sem

import RsslVerif.Model.Targets
/-!
# The order of the steps of `compile()` and `build_pipeline()` (src/compile.rs)

`compile()` is a straight line of steps, each of which either ends the compilation with an error or hands its
result to the next one.  Which steps there are and in which order they stand is *extracted* from the source
(`Gen.TargetTables.compileSteps`, `buildPrefixSteps`, `hlslArmSteps`, `mslArmSteps`); what a step does is written here,
with everything a step calls (`parse`, `type_check`, the exporters, the Metal tool chain) left abstract in a `World`.
`compile` below *interprets the extracted lists*: if a step moves in the source (say the Metal tool chain lookup to the
top of `compile()`), the model follows it and the theorems about the order (Thm/C18) stop holding.

Covered: `Mode::All` (every declared pipeline is built, in order; no `pipeline_name`, no `no_pipeline_mode`).
Core Lean only.
-/
namespace RsslVerif.Model.CompileSteps
open RsslVerif.Gen.SlotTables RsslVerif.Gen.TargetTables
open RsslVerif.Model.MacroLite RsslVerif.Model.Targets

/-- `CompileError` -/
inductive CErr where
  | invalidArgs
  | text (s : String)
  | metalCompilerNotFound
  | metalCompilerFailed
  /-- the extracted step list is not one the interpreter can follow (a step out of place): never on the current source -/
  | stuck
  deriving DecidableEq, Repr

/-- everything the steps call; `τ` prepared tokens, `α` syntax tree, `ρ` typed module, `π` pipeline definition,
    `σ` exported source / bytecode -/
structure World (τ α ρ π σ : Type) where
  ev : List Tok → Option Bool
  render : PErr → String
  prepare : List Tok → τ
  parse : τ → Except String α
  typeCheck : α → Except String ρ
  layoutCheck : ρ → Except String Unit
  pipelines : ρ → List π
  /-- `hlsl::export_to_hlsl(&ir, for_spirv)` on the module bound with the given parameters, error already rendered -/
  exportHlsl : Bool → Params → ρ → π → Except String σ
  /-- `msl::export_to_msl(&ir)` -/
  exportMsl : Params → ρ → π → Except String σ
  /-- `metal_invoker::MetalCompiler::find()`: `none` = not found; the compiler maps source to bytecode or fails -/
  toolchain : Option (σ → Option σ)

structure Args where
  target : Target
  sba : Bool
  validateLayout : Bool
  front : FrontArgs

/-- `"Shader does not contain a single pipeline"` -/
def noPipelineText : String := "Shader does not contain a single pipeline"

/-! ## build_pipeline -/

structure BSt (σ : Type) where
  handle : Option (σ → Option σ)
  data : Option σ

/-- the steps of one arm, in order; `bytecodeGuard` = `if matches!(args.target, Target::MetalBytecode) { rest }` -/
def runBuild {τ α ρ π σ : Type} (w : World τ α ρ π σ) (a : Args) (m : ρ) (p : π) :
    List BuildStep → BSt σ → Except CErr (BSt σ)
  | [], s => .ok s
  | .selectPipeline :: rest, s => runBuild w a m p rest s
  | .assignBindings :: rest, s => runBuild w a m p rest s
  | .exportSource :: rest, s =>
    let r := match backendOf a.target with
      | .hlsl => w.exportHlsl (a.target == Target.HlslForVulkan) (paramsFor a.target a.sba) m p
      | .msl => w.exportMsl (paramsFor a.target a.sba) m p
    match r with
    | .error e => .error (.text e)
    | .ok src => runBuild w a m p rest { s with data := some src }
  | .stageRecords :: rest, s => runBuild w a m p rest s
  | .bytecodeGuard :: rest, s => if a.target == Target.MetalBytecode then runBuild w a m p rest s else .ok s
  | .toolchainLookup :: rest, s =>
    match w.toolchain with
    | none => .error .metalCompilerNotFound
    | some cc => runBuild w a m p rest { s with handle := some cc }
  | .toolchainRun :: rest, s =>
    match s.handle, s.data with
    | none, _ => runBuild w a m p rest s
    | some _, none => .error .stuck
    | some cc, some src =>
      match cc src with
      | none => .error .metalCompilerFailed
      | some d => runBuild w a m p rest { s with data := some d }

def armSteps : Backend → List BuildStep
  | .hlsl => hlslArmSteps
  | .msl => mslArmSteps

/-- `build_pipeline()` for one pipeline; `handle` = a compiler found earlier (none on the current source) -/
def buildPipeline {τ α ρ π σ : Type} (w : World τ α ρ π σ) (a : Args) (handle : Option (σ → Option σ)) (m : ρ) (p : π) :
    Except CErr σ :=
  match runBuild w a m p (buildPrefixSteps ++ armSteps (backendOf a.target)) ⟨handle, none⟩ with
  | .error e => .error e
  | .ok ⟨_, some d⟩ => .ok d
  | .ok ⟨_, none⟩ => .error .stuck

/-- the loop over `ir.pipelines`: the first failing pipeline ends the compilation -/
def buildAll {τ α ρ π σ : Type} (w : World τ α ρ π σ) (a : Args) (handle : Option (σ → Option σ)) (m : ρ) :
    List π → Except CErr (List σ)
  | [] => .ok []
  | p :: ps =>
    match buildPipeline w a handle m p with
    | .error e => .error e
    | .ok d =>
      match buildAll w a handle m ps with
      | .error e => .error e
      | .ok ds => .ok (d :: ds)

/-! ## compile -/

inductive Phase (τ α ρ σ : Type) where
  | start
  | toks (ts : List Tok)
  | prepared (t : τ)
  | ast (x : α)
  | ir (m : ρ)
  | done (out : List σ)

structure CSt (τ α ρ σ : Type) where
  handle : Option (σ → Option σ)
  phase : Phase τ α ρ σ

def step {τ α ρ π σ : Type} (w : World τ α ρ π σ) (a : Args) :
    CompileStep → CSt τ α ρ σ → Except CErr (CSt τ α ρ σ)
  | .argsCheck, s => if a.sba && a.target != Target.HlslForVulkan then .error .invalidArgs else .ok s
  | .toolchainLookup, s =>
    if a.target == Target.MetalBytecode then
      match w.toolchain with
      | none => .error .metalCompilerNotFound
      | some cc => .ok { s with handle := some cc }
    else .ok s
  | .preprocess, ⟨h, .start⟩ =>
    match run w.ev (initialTable a.target a.front.user) a.front.file with
    | .error e => .error (.text (w.render e))
    | .ok ts => .ok ⟨h, .toks ts⟩
  | .prepareTokens, ⟨h, .toks ts⟩ => .ok ⟨h, .prepared (w.prepare ts)⟩
  | .parse, ⟨h, .prepared t⟩ =>
    match w.parse t with
    | .error e => .error (.text e)
    | .ok x => .ok ⟨h, .ast x⟩
  | .typeCheck, ⟨h, .ast x⟩ =>
    match w.typeCheck x with
    | .error e => .error (.text e)
    | .ok m => .ok ⟨h, .ir m⟩
  | .layoutCheck, ⟨h, .ir m⟩ =>
    if a.validateLayout then
      match w.layoutCheck m with
      | .error e => .error (.text e)
      | .ok _ => .ok ⟨h, .ir m⟩
    else .ok ⟨h, .ir m⟩
  | .bindingParams, ⟨h, .ir m⟩ => .ok ⟨h, .ir m⟩
  | .buildPipelines, ⟨h, .ir m⟩ =>
    match buildAll w a h m (w.pipelines m) with
    | .error e => .error e
    | .ok [] => .error (.text noPipelineText)
    | .ok out => .ok ⟨h, .done out⟩
  | _, _ => .error .stuck

def runSteps {τ α ρ π σ : Type} (w : World τ α ρ π σ) (a : Args) :
    List CompileStep → CSt τ α ρ σ → Except CErr (CSt τ α ρ σ)
  | [], s => .ok s
  | c :: cs, s =>
    match step w a c s with
    | .error e => .error e
    | .ok s' => runSteps w a cs s'

/-- `compile(args)` following a given list of steps -/
def compileWith {τ α ρ π σ : Type} (steps : List CompileStep) (w : World τ α ρ π σ) (a : Args) : Except CErr (List σ) :=
  match runSteps w a steps ⟨none, .start⟩ with
  | .error e => .error e
  | .ok ⟨_, .done out⟩ => .ok out
  | .ok _ => .error .stuck

/-- `compile(args)`: the steps in the order in which they stand in the source -/
def compile {τ α ρ π σ : Type} (w : World τ α ρ π σ) (a : Args) : Except CErr (List σ) :=
  compileWith compileSteps w a

/-- everything between the token stream and the typed module (`rest` of `Model.Targets.frontEnd`) -/
def afterTokens {τ α ρ π σ : Type} (w : World τ α ρ π σ) (validateLayout : Bool) (ts : List Tok) : Except String ρ :=
  match w.parse (w.prepare ts) with
  | .error e => .error e
  | .ok x =>
    match w.typeCheck x with
    | .error e => .error e
    | .ok m =>
      if validateLayout then
        match w.layoutCheck m with
        | .error e => .error e
        | .ok _ => .ok m
      else .ok m

/-- the front end of `compile()` as `Model.Targets.frontEnd` sees it -/
def front {τ α ρ π σ : Type} (w : World τ α ρ π σ) (a : Args) : Except String ρ :=
  frontEnd w.ev w.render (afterTokens w a.validateLayout) a.target a.front

/-- the five configurations the check compiles for: no buffer addresses unless the target is Vulkan -/
def argsOk (a : Args) : Bool := !(a.sba && a.target != Target.HlslForVulkan)

end RsslVerif.Model.CompileSteps

//! C06.compile: the end-to-end leg. Whole generated shader files go through the real `rssl::compile`
//! and the slots are read from the returned reflection metadata (what the property's "observe at" names).
//!
//! request : C06.compile \t <dx|vk|vkba|msl> \t <all|name=X|nopipeline> \t <pipes> \t <decls>
//!   pipes : `-` or `;`-joined `<name>:<default group|->:<c|g>[=<k>]:<used declaration indices, '.'-joined>`
//!           (`c` = compute pipeline, `g` = vertex + pixel pipeline; `=<k>`: built from the entry points of the k-th
//!           pipeline, which has the same kind; in source order)
//!   decls : `;`-joined `<name>=<decl>~<flags>` in source order; <decl> as in C06.assign
//!           (`o` | `c:<set|->` | `g:<set|->:<ss>:<Kind|->:<len|->`); flags ('.'-joined, only `s` and `z`
//!           change what the allocator sees, the others only change how the source spells the same thing):
//!             a r v  explicit group written as [[rssl::bind_group(G)]] / register(.., spaceG) / [[vk::binding(N, G)]]
//!             i<N>   explicit language-level slot index (register(tN) / vk::binding(N)): API slots ignore it
//!             b      [[rssl::bindless]]          n  declared inside `namespace NS { }`
//!             j      written as a further declarator of the previous declaration (`T a, b[2];`)
//!             s      `static` storage (lives in the shader: no slot)
//!             z      unsized array `name[]` (the allocator ignores unsized arrays; the property excludes them)
//!             m      two-dimensional array `name[len][2]` (the allocator peels one array layer and ignores it;
//!                    outside the property's quantifier, which lists one-dimensional lengths)
//!             o      [[rssl::bind_group(G)]] written together with register(space(G+1)): the attribute wins
//! observe : `ok:` + per returned pipeline `{group / group / ...}` joined by ` ## `; group = bindings `;`-joined
//!           then `|` and the inline block `location,size` or `-`; binding = `name,(i<index>|n<offset>),(count|*)`
//!           | `err:none` | `err:unknown:<name>` | `err:bind-group:<n>` | `err:other:<text>` | `panic:<site>`
//! oracle  : the property's own words on the real metadata of every returned pipeline (independent of the model):
//!           in each group exactly the bound declarations of the group are reported, their index ranges tile from 0 in
//!           declaration order (entries are matched by name, not by position in the metadata vector) with the
//!           length the kind and array length need on the target, buffer addresses take 8 bytes each at
//!           consecutive offsets of one inline block whose slot follows all index slots and whose size is their
//!           sum, ungrouped resources are in the default group of THIS pipeline (0 in no-pipeline mode).
use super::{is_resource, parse_decl, show_decl, spelling, Decl, DOUBLED, KINDS};
use crate::compile_util::{Mode, Tgt, ALL_TARGETS};
use crate::util::*;

#[derive(Clone, Copy, Debug, PartialEq)]
pub enum How {
    Attr,
    Space,
    VkBinding,
    /// `[[rssl::bind_group(G)]]` together with `register(space(G+1))`: the attribute overrides the register space
    Override,
}

#[derive(Clone, Debug, PartialEq)]
pub struct Res {
    pub name: String,
    pub decl: Decl,
    pub how: How,
    pub lang_index: Option<u32>,
    pub bindless: bool,
    pub ns: bool,
    pub unsized_arr: bool,
    /// two-dimensional array `name[len][2]`: the allocator peels one array layer only and then sees no object
    pub dim2: bool,
    pub joined: bool,
}

#[derive(Clone, Debug, PartialEq)]
pub struct Pipe {
    pub name: String,
    pub dflt: Option<u32>,
    pub graphics: bool,
    pub uses: Vec<usize>,
    /// the pipeline is built from the entry points of this earlier pipeline of the same kind
    pub share: Option<usize>,
}

#[derive(Clone, Debug, PartialEq)]
pub struct Prog {
    pub res: Vec<Res>,
    pub pipes: Vec<Pipe>,
}

// ---------------------------------------------------------------------------------------------- request text

fn show_res(r: &Res) -> String {
    let mut flags: Vec<String> = Vec::new();
    let (decl_text, is_static) = match &r.decl {
        Decl::StaticObject { set, kind, len } => (
            show_decl(&Decl::Global { set: *set, ss: false, kind: Some(kind), len: *len }),
            true,
        ),
        d => (show_decl(d), false),
    };
    let has_set = match &r.decl {
        Decl::Other => false,
        Decl::CBuffer(s) => s.is_some(),
        Decl::Global { set, .. } | Decl::StaticObject { set, .. } => set.is_some(),
    };
    if has_set || r.lang_index.is_some() {
        flags.push(match r.how { How::Attr => "a", How::Space => "r", How::VkBinding => "v", How::Override => "o" }.to_string());
    }
    if let Some(i) = r.lang_index {
        flags.push(format!("i{}", i));
    }
    if r.bindless { flags.push("b".into()); }
    if r.ns { flags.push("n".into()); }
    if r.joined { flags.push("j".into()); }
    if is_static { flags.push("s".into()); }
    if r.unsized_arr { flags.push("z".into()); }
    if r.dim2 { flags.push("m".into()); }
    format!("{}={}~{}", r.name, decl_text, flags.join("."))
}

fn parse_res(s: &str) -> Option<Res> {
    let (name, rest) = s.split_once('=')?;
    let (decl_text, flags) = rest.split_once('~')?;
    let mut decl = parse_decl(decl_text)?;
    let mut r = Res {
        name: name.to_string(),
        decl: Decl::Other,
        how: How::Attr,
        lang_index: None,
        bindless: false,
        ns: false,
        unsized_arr: false,
        dim2: false,
        joined: false,
    };
    for f in flags.split('.').filter(|f| !f.is_empty()) {
        match f {
            "a" => r.how = How::Attr,
            "r" => r.how = How::Space,
            "v" => r.how = How::VkBinding,
            "o" => r.how = How::Override,
            "m" => r.dim2 = true,
            "b" => r.bindless = true,
            "n" => r.ns = true,
            "j" => r.joined = true,
            "z" => r.unsized_arr = true,
            "s" => {
                decl = match decl {
                    Decl::Global { set, ss: false, kind: Some(kind), len } => Decl::StaticObject { set, kind, len },
                    _ => return None,
                }
            }
            f if f.starts_with('i') => r.lang_index = Some(f[1..].parse().ok()?),
            _ => return None,
        }
    }
    r.decl = decl;
    Some(r)
}

fn show_pipe(p: &Pipe) -> String {
    let uses: Vec<String> = p.uses.iter().map(|u| u.to_string()).collect();
    format!(
        "{}:{}:{}{}:{}",
        p.name,
        p.dflt.map(|d| d.to_string()).unwrap_or_else(|| "-".into()),
        if p.graphics { "g" } else { "c" },
        p.share.map(|k| format!("={}", k)).unwrap_or_default(),
        uses.join(".")
    )
}

fn parse_pipe(s: &str) -> Option<Pipe> {
    let f: Vec<&str> = s.split(':').collect();
    if f.len() != 4 {
        return None;
    }
    let (kind, share) = match f[2].split_once('=') {
        Some((k, j)) => (k, Some(j.parse::<usize>().ok()?)),
        None => (f[2], None),
    };
    Some(Pipe {
        name: f[0].to_string(),
        dflt: if f[1] == "-" { None } else { Some(f[1].parse().ok()?) },
        graphics: match kind { "c" => false, "g" => true, _ => return None },
        share,
        uses: f[3].split('.').filter(|u| !u.is_empty()).map(|u| u.parse().ok()).collect::<Option<Vec<usize>>>()?,
    })
}

pub fn request(tgt: Tgt, mode: &Mode, p: &Prog) -> String {
    let pipes: Vec<String> = p.pipes.iter().map(show_pipe).collect();
    let res: Vec<String> = p.res.iter().map(show_res).collect();
    format!(
        "C06.compile\t{}\t{}\t{}\t{}",
        tgt.name(),
        mode.show(),
        if pipes.is_empty() { "-".to_string() } else { pipes.join(";") },
        res.join(";")
    )
}

pub fn parse_request(f: &[&str]) -> Option<(Tgt, Mode, Prog)> {
    if f.len() != 5 || f[0] != "C06.compile" {
        return None;
    }
    let tgt = Tgt::parse(f[1])?;
    let mode = if f[2] == "all" {
        Mode::All
    } else if f[2] == "nopipeline" {
        Mode::NoPipeline
    } else {
        Mode::Named(f[2].strip_prefix("name=")?.to_string())
    };
    let pipes = if f[3] == "-" {
        Vec::new()
    } else {
        f[3].split(';').map(parse_pipe).collect::<Option<Vec<_>>>()?
    };
    let res = if f[4].is_empty() {
        Vec::new()
    } else {
        f[4].split(';').map(parse_res).collect::<Option<Vec<_>>>()?
    };
    Some((tgt, mode, Prog { res, pipes }))
}

// ---------------------------------------------------------------------------------------------- source text

fn reg_class(kind: &str) -> char {
    if kind.starts_with("RW") {
        'u'
    } else if kind.starts_with("Sampler") {
        's'
    } else if kind == "ConstantBuffer" {
        'b'
    } else {
        't'
    }
}

/// (attributes written before the declaration, annotation written after the declarator)
fn binding_text(r: &Res, set: Option<u32>, class: Option<char>) -> (String, String) {
    let mut before = String::new();
    let mut after = String::new();
    match (r.how, class) {
        (How::VkBinding, _) if set.is_some() || r.lang_index.is_some() => {
            let i = r.lang_index.unwrap_or(0);
            match set {
                Some(g) => before.push_str(&format!("[[vk::binding({}, {})]] ", i, g)),
                None => before.push_str(&format!("[[vk::binding({})]] ", i)),
            }
        }
        (How::Override, Some(c)) if set.is_some() => {
            let g = set.unwrap();
            before.push_str(&format!("[[rssl::bind_group({})]] ", g));
            after = match r.lang_index {
                Some(i) => format!(" : register({}{}, space{})", c, i, g + 1),
                None => format!(" : register(space{})", g + 1),
            };
        }
        (How::Space, Some(c)) if set.is_some() || r.lang_index.is_some() => {
            after = match (r.lang_index, set) {
                (Some(i), Some(g)) => format!(" : register({}{}, space{})", c, i, g),
                (Some(i), None) => format!(" : register({}{})", c, i),
                (None, Some(g)) => format!(" : register(space{})", g),
                (None, None) => String::new(),
            };
        }
        _ => {
            if let Some(g) = set {
                before.push_str(&format!("[[rssl::bind_group({})]] ", g));
            }
            if let (Some(i), Some(c)) = (r.lang_index, class) {
                after = format!(" : register({}{})", c, i);
            }
        }
    }
    if r.bindless {
        before = format!("[[rssl::bindless]] {}", before);
    }
    (before, after)
}

fn can_join(prev: &Res, cur: &Res) -> bool {
    let base = |r: &Res| match &r.decl {
        Decl::Global { set, ss: false, kind: Some(k), .. } => Some((*set, *k, false)),
        Decl::StaticObject { set, kind, .. } => Some((*set, *kind, true)),
        _ => None,
    };
    cur.joined
        && base(prev).is_some()
        && base(prev) == base(cur)
        && prev.how == cur.how
        && prev.lang_index.is_none()
        && cur.lang_index.is_none()
        && prev.bindless == cur.bindless
        && prev.ns == cur.ns
        && !(matches!(prev.how, How::Space | How::Override) && base(prev).unwrap().0.is_some())
}

fn declarator(r: &Res, len: Option<u32>) -> String {
    let mut s = r.name.clone();
    if r.unsized_arr {
        s.push_str("[]");
    } else if let Some(n) = len {
        s.push_str(&format!("[{}]", n));
        if r.dim2 {
            s.push_str("[2]");
        }
    }
    s
}

pub fn source(p: &Prog) -> String {
    let mut s = String::from("struct CbS { float4 v; };\n");
    let mut i = 0;
    while i < p.res.len() {
        let r = &p.res[i];
        let mut line = String::new();
        let mut consumed = 1;
        match &r.decl {
            Decl::Other => line.push_str(&format!("struct {} {{ int x; }};", r.name)),
            Decl::CBuffer(set) => {
                let (before, after) = binding_text(r, *set, Some('b'));
                // one to three members: members are not root definitions and take nothing
                let extra = ["", " float2 pad_a[2];", " float2 pad_a[2]; uint pad_b;"][(r.name.bytes().last().unwrap_or(0) % 3) as usize];
                line.push_str(&format!("{}cbuffer {}{} {{ float4 {}_v;{} }}", before, r.name, after, r.name, extra).replace("pad_", &format!("{}_pad_", r.name)));
            }
            Decl::Global { set, kind: None, len, .. } => {
                // a global that is not an object: only the attribute form of a group is accepted on it
                if let Some(g) = set {
                    line.push_str(&format!("[[rssl::bind_group({})]] ", g));
                }
                line.push_str(&format!("static const int {}", r.name));
                match len {
                    Some(n) => {
                        let items: Vec<String> = (0..*n).map(|x| x.to_string()).collect();
                        line.push_str(&format!("[{}] = {{ {} }};", n, items.join(", ")));
                    }
                    None => line.push_str(" = 1;"),
                }
            }
            Decl::Global { set, ss, kind: Some(k), len } => {
                let ty = spelling(k);
                let (before, after) = binding_text(r, *set, Some(reg_class(k)));
                line.push_str(&format!("{}{} {}{}", before, ty, declarator(r, *len), after));
                if *ss {
                    line.push_str(" = StaticSampler { Filter = MIN_MAG_MIP_LINEAR; }");
                }
                while i + consumed < p.res.len() && can_join(&p.res[i + consumed - 1], &p.res[i + consumed]) {
                    let n = &p.res[i + consumed];
                    let nl = match &n.decl { Decl::Global { len, .. } => *len, _ => None };
                    line.push_str(&format!(", {}", declarator(n, nl)));
                    consumed += 1;
                }
                line.push(';');
            }
            Decl::StaticObject { set, kind, len } => {
                let ty = spelling(kind);
                let (before, after) = binding_text(r, *set, Some(reg_class(kind)));
                line.push_str(&format!("{}static {} {}{}", before, ty, declarator(r, *len), after));
                while i + consumed < p.res.len() && can_join(&p.res[i + consumed - 1], &p.res[i + consumed]) {
                    let n = &p.res[i + consumed];
                    let nl = match &n.decl { Decl::StaticObject { len, .. } => *len, _ => None };
                    line.push_str(&format!(", {}", declarator(n, nl)));
                    consumed += 1;
                }
                line.push(';');
            }
        }
        if r.ns {
            s.push_str(&format!("namespace NS {{ {} }}\n", line));
        } else {
            s.push_str(&line);
            s.push('\n');
        }
        i += consumed;
    }
    let use_stmt = |idx: usize| -> String {
        let Some(r) = p.res.get(idx) else { return String::new() };
        let q = if r.ns { "NS::" } else { "" };
        match &r.decl {
            Decl::CBuffer(_) => format!("    {}{}_v;\n", q, r.name),
            Decl::Global { kind: Some(_), len, .. } => {
                if r.dim2 {
                    // never mentioned in a function: a global without a slot that a Metal entry point reaches makes the
                    // Metal exporter return `UnboundGlobal` (a clean error since fix 2ba03a4, a panic before it) and
                    // there would be no metadata left to judge
                    String::new()
                } else if len.is_some() || r.unsized_arr {
                    format!("    {}{}[0u];\n", q, r.name)
                } else {
                    format!("    {}{};\n", q, r.name)
                }
            }
            _ => String::new(),
        }
    };
    // a pipeline shares the entry points of an earlier pipeline of the same kind that has its own
    let owner = |k: usize| -> usize {
        match p.pipes[k].share {
            Some(j) if j < k && p.pipes[j].share.is_none() && p.pipes[j].graphics == p.pipes[k].graphics => j,
            _ => k,
        }
    };
    for (k, pipe) in p.pipes.iter().enumerate() {
        if owner(k) != k {
            continue;
        }
        if pipe.graphics {
            let vs: String = pipe.uses.iter().step_by(2).map(|u| use_stmt(*u)).collect();
            let ps: String = pipe.uses.iter().skip(1).step_by(2).map(|u| use_stmt(*u)).collect();
            s.push_str(&format!(
                "void vs{}(uint vid : SV_VertexID, out float4 o_pos : SV_Position) {{\n{}    o_pos = float4(0, 0, 0, 1);\n}}\n",
                k, vs
            ));
            s.push_str(&format!(
                "float4 ps{}(float4 i_pos : SV_Position) : SV_Target0 {{\n{}    return float4(0, 0, 0, 0);\n}}\n",
                k, ps
            ));
        } else {
            let cs: String = pipe.uses.iter().map(|u| use_stmt(*u)).collect();
            s.push_str(&format!(
                "[numthreads(8, 8, 1)]\nvoid cs{}(uint3 dtid : SV_DispatchThreadID) {{\n{}}}\n",
                k, cs
            ));
        }
    }
    for (k, pipe) in p.pipes.iter().enumerate() {
        s.push_str(&format!("Pipeline {}\n{{\n", pipe.name));
        let k = owner(k);
        if pipe.graphics {
            s.push_str(&format!("    VertexShader = vs{};\n    PixelShader = ps{};\n", k, k));
        } else {
            s.push_str(&format!("    ComputeShader = cs{};\n", k));
        }
        if let Some(d) = pipe.dflt {
            s.push_str(&format!("    DefaultBindGroup = {};\n", d));
        }
        s.push_str("}\n");
    }
    s
}

// ---------------------------------------------------------------------------------------------- real compile

#[derive(Clone, Debug, PartialEq)]
pub struct MetaBinding {
    pub name: String,
    pub inline: bool,
    pub at: u32,
    pub count: Option<u32>,
}

#[derive(Clone, Debug, PartialEq, Default)]
pub struct MetaGroup {
    pub bindings: Vec<MetaBinding>,
    pub inline_block: Option<(u32, u32)>,
}

pub enum Outcome {
    Ok(Vec<Vec<MetaGroup>>),
    Err(String),
    Panic(String),
}

pub fn compile(src: &str, tgt: Tgt, mode: &Mode) -> Outcome {
    let r = guard(|| {
        let mut inc = MemFiles(vec![("main.rssl".to_string(), src.to_string())]);
        let mut args = rssl::CompileArgs::new("main.rssl", &mut inc, tgt.target())
            .support_buffer_address(tgt.buffer_address());
        match mode {
            Mode::All => {}
            Mode::Named(n) => args = args.pipeline_name(Some(n.as_str())),
            Mode::NoPipeline => args = args.no_pipeline_mode(),
        }
        match rssl::compile(args) {
            Ok(ps) => Ok(ps
                .iter()
                .map(|p| {
                    p.metadata
                        .bind_groups
                        .iter()
                        .map(|g| MetaGroup {
                            bindings: g
                                .bindings
                                .iter()
                                .map(|b| {
                                    let (inline, at) = match b.api_binding {
                                        rssl::ir::ApiLocation::Index(i) => (false, i),
                                        rssl::ir::ApiLocation::InlineConstant(o) => (true, o),
                                    };
                                    MetaBinding { name: b.name.clone(), inline, at, count: b.descriptor_count }
                                })
                                .collect(),
                            inline_block: g.inline_constants.as_ref().map(|c| (c.api_location, c.size_in_bytes)),
                        })
                        .collect::<Vec<_>>()
                })
                .collect::<Vec<_>>()),
            Err(e) => Err(format!("{}", e)),
        }
    });
    match r {
        Ok(Ok(v)) => Outcome::Ok(v),
        Ok(Err(e)) => Outcome::Err(e),
        Err(p) => Outcome::Panic(p),
    }
}

fn show_group(g: &MetaGroup) -> String {
    let b: Vec<String> = g
        .bindings
        .iter()
        .map(|b| {
            format!(
                "{},{}{},{}",
                b.name,
                if b.inline { 'n' } else { 'i' },
                b.at,
                b.count.map(|c| c.to_string()).unwrap_or_else(|| "*".into())
            )
        })
        .collect();
    format!(
        "{}|{}",
        b.join(";"),
        g.inline_block.map(|(l, s)| format!("{},{}", l, s)).unwrap_or_else(|| "-".into())
    )
}

pub fn show_outcome(o: &Outcome) -> String {
    match o {
        Outcome::Ok(ps) => {
            let v: Vec<String> = ps
                .iter()
                .map(|gs| format!("{{{}}}", gs.iter().map(show_group).collect::<Vec<_>>().join(" / ")))
                .collect();
            format!("ok:{}", v.join(" ## "))
        }
        Outcome::Err(e) => {
            if e == "Shader does not contain a single pipeline" {
                "err:none".into()
            } else if let Some(n) = e.strip_prefix("Shader does not contain the pipeline: ") {
                format!("err:unknown:{}", n)
            } else if e.contains("UnimplementedUnboundedArray") {
                "err:unbounded-array".into()
            } else if let Some(k) = e.find("UnsupportedBindGroupIndex(") {
                let rest = &e[k + "UnsupportedBindGroupIndex(".len()..];
                format!("err:bind-group:{}", rest.split(')').next().unwrap_or("?"))
            } else {
                format!("err:other:{}", one_line(&e.chars().take(160).collect::<String>()))
            }
        }
        Outcome::Panic(p) => format!("panic:{}", p.splitn(2, ": ").nth(1).unwrap_or(p)),
    }
}

// ---------------------------------------------------------------------------------------------- the oracle

/// What the property demands of one declaration on one target: `None` = takes nothing;
/// `Some((group, inline, amount, reported count))`.
fn demand(r: &Res, tgt: Tgt, dflt: u32) -> Option<(u32, bool, u32, u32)> {
    let metal = tgt == Tgt::Msl;
    match &r.decl {
        Decl::Other | Decl::StaticObject { .. } => None,
        Decl::CBuffer(s) => Some((s.unwrap_or(dflt), false, 1, 1)),
        Decl::Global { kind: None, .. } => None,
        Decl::Global { ss: true, .. } if metal => None,
        // not a resource (RayDesc, RayQuery, TriangleStream): takes nothing (only reachable through hand-written request
        // lines: the generator does not emit them because the HLSL exporter rejects such a global)
        Decl::Global { kind: Some(k), .. } if !is_resource(k) => None,
        Decl::Global { set, kind: Some(k), len, .. } => {
            let g = set.unwrap_or(dflt);
            let is_ba = *k == "BufferAddress" || *k == "RWBufferAddress";
            if tgt == Tgt::VkBa && is_ba && len.is_none() {
                Some((g, true, 8, 1))
            } else {
                let per = if metal && DOUBLED.contains(k) { 2 } else { 1 };
                Some((g, false, len.unwrap_or(1) * per, len.unwrap_or(1)))
            }
        }
    }
}

fn explicit_set(r: &Res) -> Option<u32> {
    match &r.decl {
        Decl::CBuffer(s) => *s,
        Decl::Global { set, .. } | Decl::StaticObject { set, .. } => *set,
        Decl::Other => None,
    }
}

fn oracle_pipeline(p: &Prog, tgt: Tgt, dflt: u32, groups: &[MetaGroup]) -> Result<(), String> {
    use std::collections::BTreeMap;
    // unsized arrays are outside the property (its quantifier excludes them): a group that reports one is not judged
    let unsized_names: Vec<&str> = p.res.iter().filter(|r| r.unsized_arr || r.dim2).map(|r| r.name.as_str()).collect();
    let mut want: BTreeMap<u32, Vec<(String, bool, u32, u32)>> = BTreeMap::new();
    let mut next_index: BTreeMap<u32, u32> = BTreeMap::new();
    let mut next_inline: BTreeMap<u32, u32> = BTreeMap::new();
    for r in &p.res {
        if r.unsized_arr || r.dim2 {
            continue;
        }
        if let Some((mut g, inline, amount, count)) = demand(r, tgt, dflt) {
            // two explicit groups on one declaration (attribute G and register space G+1): the property does not say
            // which explicit group wins, so either is accepted here (the model pins what the code does)
            if r.how == How::Override
                && groups.get(g as usize + 1).is_some_and(|x| x.bindings.iter().any(|b| b.name == r.name))
                && explicit_set(r).is_some()
            {
                g += 1;
            }
            let ctr = if inline { next_inline.entry(g).or_insert(0) } else { next_index.entry(g).or_insert(0) };
            want.entry(g).or_default().push((r.name.clone(), inline, *ctr, count));
            *ctr += amount;
        }
    }
    let ngroups = std::cmp::max(groups.len() as u32, want.keys().next_back().map(|g| g + 1).unwrap_or(0));
    for g in 0..ngroups {
        let empty = MetaGroup::default();
        let got = groups.get(g as usize).unwrap_or(&empty);
        if got.bindings.iter().any(|b| unsized_names.contains(&b.name.as_str())) {
            continue;
        }
        let w = want.get(&g).cloned().unwrap_or_default();
        // entries are matched by name: the property speaks of the slots, not of the order of the metadata vector
        for wb in w.iter() {
            let found: Vec<&MetaBinding> = got.bindings.iter().filter(|b| b.name == wb.0).collect();
            if found.len() > 1 {
                return Err(format!("{} is reported {} times in group {}", wb.0, found.len(), g));
            }
            let Some(gb) = found.first() else {
                // where did it go?
                let elsewhere = groups.iter().position(|x| x.bindings.iter().any(|b| b.name == wb.0));
                return Err(match elsewhere {
                    Some(e) => format!("{} belongs to group {} of this pipeline but is reported in group {}", wb.0, g, e),
                    None => format!("{} must be bound in group {} but has no metadata entry", wb.0, g),
                });
            };
            if gb.inline != wb.1 {
                return Err(format!(
                    "{} expected {} but is {}",
                    wb.0,
                    if wb.1 { "an inline constant" } else { "an index slot" },
                    if gb.inline { "an inline constant" } else { "an index slot" }
                ));
            }
            if gb.at != wb.2 {
                return Err(format!(
                    "{} starts at {} {} of group {}, expected {} (gap/overlap/order)",
                    wb.0,
                    if wb.1 { "inline offset" } else { "slot" },
                    gb.at,
                    g,
                    wb.2
                ));
            }
            if gb.count != Some(wb.3) {
                return Err(format!("{} reports {:?} descriptors, expected {}", wb.0, gb.count, wb.3));
            }
        }
        if let Some(extra) = got.bindings.iter().find(|b| !w.iter().any(|wb| wb.0 == b.name)) {
            return Err(format!("group {} reports {} which takes no slot there", g, extra.name));
        }
        let want_block = next_inline.get(&g).map(|size| (*next_index.get(&g).unwrap_or(&0), *size));
        if got.inline_block != want_block {
            return Err(format!(
                "group {} inline block {:?}, expected {:?} (slot after all index slots, size = sum)",
                g, got.inline_block, want_block
            ));
        }
    }
    Ok(())
}

/// which pipelines a compile call must return, as their default groups (the property: "the pipeline's default group")
fn expected_pipelines(p: &Prog, mode: &Mode) -> Result<Vec<u32>, &'static str> {
    match mode {
        Mode::NoPipeline => Ok(vec![0]),
        Mode::All => {
            if p.pipes.is_empty() {
                Err("none")
            } else {
                Ok(p.pipes.iter().map(|x| x.dflt.unwrap_or(0)).collect())
            }
        }
        Mode::Named(n) => {
            let v: Vec<u32> = p.pipes.iter().filter(|x| &x.name == n).map(|x| x.dflt.unwrap_or(0)).collect();
            if v.is_empty() { Err("unknown") } else { Ok(v) }
        }
    }
}

fn oracle(p: &Prog, tgt: Tgt, mode: &Mode, o: &Outcome) -> String {
    let want = expected_pipelines(p, mode);
    match o {
        Outcome::Panic(m) => format!("FAIL:panic {}", m),
        Outcome::Err(e) => {
            let shown = show_outcome(o);
            match want {
                Err("none") if shown == "err:none" => "ok".into(),
                Err("unknown") if shown.starts_with("err:unknown:") => "ok".into(),
                // Metal has four argument buffers: a group above 3 that a bound declaration of a requested pipeline
                // lands in is a clean error, not a slot question
                Ok(dflts)
                    if tgt == Tgt::Msl
                        && shown.strip_prefix("err:bind-group:").and_then(|n| n.parse::<u32>().ok()).is_some_and(|n| {
                            n >= 4
                                && dflts.iter().any(|d| {
                                    p.res.iter().any(|r| !r.unsized_arr && !r.dim2 && demand(r, tgt, *d).is_some_and(|w| w.0 == n))
                                })
                        }) =>
                {
                    "ok".into()
                }
                // unsized resource arrays are outside the property and not implemented for Metal: a clean error
                _ if tgt == Tgt::Msl && shown == "err:unbounded-array" && p.res.iter().any(|r| r.unsized_arr) => "ok".into(),
                _ => format!("FAIL:compile error on a valid program: {}", one_line(&e.chars().take(120).collect::<String>())),
            }
        }
        Outcome::Ok(ps) => {
            let dflts = match want {
                Ok(d) => d,
                Err(w) => return format!("FAIL:compile returned {} pipelines where an error ({}) was due", ps.len(), w),
            };
            if ps.len() != dflts.len() {
                return format!("FAIL:{} pipelines returned, expected {}", ps.len(), dflts.len());
            }
            for (k, (groups, dflt)) in ps.iter().zip(&dflts).enumerate() {
                if let Err(e) = oracle_pipeline(p, tgt, *dflt, groups) {
                    return format!("FAIL:returned pipeline {} (default group {}): {}", k, dflt, e);
                }
            }
            "ok".into()
        }
    }
}

pub fn run_case(tgt: Tgt, mode: &Mode, p: &Prog, out: &mut Out, hist: &mut Hist) {
    let src = source(p);
    let o = compile(&src, tgt, mode);
    let obs = show_outcome(&o);
    let verdict = oracle(p, tgt, mode, &o);
    if verdict.starts_with("FAIL:compile error") {
        // a generated program the compiler rejects is a generator defect: loud, but not a property failure
        hist.add("rejected-generated-source");
        out.case(&request(tgt, mode, p), &obs, &format!("SKIP:{}", &verdict[5..]));
        return;
    }
    hist.add(&format!("e2e:mode={}", match mode { Mode::All => "all", Mode::Named(_) => "named", Mode::NoPipeline => "nopipeline" }));
    hist.add(&format!("e2e:outcome={}", obs.split(':').take(2).collect::<Vec<_>>().join(":").split('{').next().unwrap_or("")));
    out.case(&request(tgt, mode, p), &obs, &verdict);
}

// ---------------------------------------------------------------------------------------------- generator

fn gen_res(rng: &mut Rng, i: usize, prev: Option<&Res>) -> Res {
    let set = match rng.below(8) {
        0..=3 => None,
        4 => Some(0),
        5 => Some(1),
        6 => Some(rng.range(2, 3) as u32),
        _ => Some(rng.range(0, 5) as u32),
    };
    let len = if rng.chance(1, 3) { Some(rng.range(1, 4) as u32) } else { None };
    let mut r = Res {
        name: format!("g_r{}", i),
        decl: Decl::Other,
        how: *rng.pick(&[How::Attr, How::Attr, How::Attr, How::Space, How::Space, How::VkBinding, How::VkBinding, How::Override]),
        lang_index: if rng.chance(1, 5) { Some(rng.below(12) as u32) } else { None },
        bindless: false,
        ns: rng.chance(1, 10),
        unsized_arr: false,
        dim2: false,
        joined: false,
    };
    // a further declarator of the previous declaration
    if let Some(p) = prev {
        if rng.chance(1, 6) {
            let base = match &p.decl {
                Decl::Global { set, ss: false, kind: Some(k), .. } if !p.unsized_arr => {
                    Some(Decl::Global { set: *set, ss: false, kind: Some(*k), len })
                }
                Decl::StaticObject { set, kind, .. } => Some(Decl::StaticObject { set: *set, kind: *kind, len }),
                _ => None,
            };
            if let Some(d) = base {
                let j = Res { decl: d, joined: true, dim2: false, name: r.name.clone(), ..p.clone() };
                if can_join(p, &j) {
                    return j;
                }
            }
        }
    }
    match rng.below(24) {
        0 => {
            r.decl = Decl::Other;
            r.name = format!("S{}", i);
            r.lang_index = None;
            r.ns = false;
        }
        1..=3 => r.decl = Decl::CBuffer(set),
        4 => {
            r.decl = Decl::Global { set, ss: false, kind: None, len: if rng.chance(1, 3) { Some(2) } else { None } };
            r.how = How::Attr;
            r.lang_index = None;
        }
        5 | 6 => {
            r.decl = Decl::Global {
                set,
                ss: true,
                kind: Some(if rng.chance(1, 2) { "SamplerState" } else { "SamplerComparisonState" }),
                len: None,
            };
            // a static sampler must not carry a language slot index
            r.lang_index = None;
            if r.how == How::VkBinding {
                r.how = How::Attr;
            }
        }
        7 | 8 => {
            r.decl = Decl::StaticObject {
                set,
                kind: *rng.pick(&["Texture2D", "RWStructuredBuffer", "ByteAddressBuffer", "SamplerState"]),
                len,
            };
        }
        9..=13 => r.decl = Decl::Global { set, ss: false, kind: Some(*rng.pick(DOUBLED)), len },
        14 => {
            // unsized array: ignored by the allocator, excluded by the property
            r.decl = Decl::Global { set, ss: false, kind: Some(*rng.pick(&["Texture2D", "StructuredBuffer", "RWTexture2D"])), len: None };
            r.unsized_arr = true;
            r.bindless = rng.chance(1, 2);
        }
        _ => r.decl = Decl::Global { set, ss: false, kind: Some(rng.pick(KINDS).0), len },
    }
    if let Decl::Global { kind: Some(k), len: Some(_), ss: false, .. } = &r.decl {
        r.bindless = !k.contains("Address") && rng.chance(1, 4);
        r.dim2 = !k.contains("Address") && *k != "ConstantBuffer" && rng.chance(1, 12);
    }
    if r.how == How::Override {
        // the override form needs an object type (register) and an explicit group
        let ok = match &r.decl {
            Decl::CBuffer(s) => s.is_some(),
            Decl::Global { set, kind: Some(_), .. } | Decl::StaticObject { set, .. } => set.is_some(),
            _ => false,
        };
        if !ok {
            r.how = How::Attr;
        }
    }
    if r.how == How::VkBinding && r.lang_index.is_none() {
        let has_set = match &r.decl {
            Decl::CBuffer(s) => s.is_some(),
            Decl::Global { set, kind: Some(_), .. } | Decl::StaticObject { set, .. } => set.is_some(),
            _ => false,
        };
        if has_set {
            r.lang_index = Some(rng.below(12) as u32);
        }
    }
    r
}

pub fn gen_prog(rng: &mut Rng, min_pipes: usize) -> Prog {
    let nres = rng.range(0, 9) as usize;
    let mut res: Vec<Res> = Vec::new();
    for i in 0..nres {
        let r = gen_res(rng, i, res.last());
        res.push(r);
    }
    let np = std::cmp::max(min_pipes, rng.below(5) as usize);
    let mut pipes = Vec::new();
    // default groups: mostly pairwise different, so that a layout leaking from one pipeline to the next shows
    let first = rng.below(4) as u32;
    for k in 0..np {
        let dflt = match rng.below(6) {
            0 => None,
            1 => Some(rng.below(6) as u32),
            _ => Some((first + k as u32) % 4),
        };
        let uses: Vec<usize> = (0..nres).filter(|_| rng.chance(1, 2)).collect();
        let mut pipe = Pipe { name: format!("P{}", k), dflt, graphics: rng.chance(1, 3), uses, share: None };
        // now and then the same entry points as an earlier pipeline (with, mostly, another default group)
        if k > 0 && rng.chance(1, 4) {
            let j = rng.below(k as u64) as usize;
            let earlier: &Pipe = &pipes[j];
            if earlier.share.is_none() {
                pipe.graphics = earlier.graphics;
                pipe.uses = Vec::new();
                pipe.share = Some(j);
            }
        }
        pipes.push(pipe);
    }
    Prog { res, pipes }
}

/// all targets x {whole file, each pipeline by name, an unknown name now and then, no-pipeline mode}
pub fn run_prog(p: &Prog, rng: &mut Rng, out: &mut Out, hist: &mut Hist) {
    hist.add(&format!("e2e:pipes={}", p.pipes.len()));
    if p.pipes.iter().any(|x| x.share.is_some()) {
        hist.add("e2e:shared-entry-points");
    }
    let distinct: std::collections::BTreeSet<u32> = p.pipes.iter().map(|x| x.dflt.unwrap_or(0)).collect();
    hist.add(&format!("e2e:distinct-default-groups={}", distinct.len()));
    for r in &p.res {
        hist.add(match &r.decl {
            Decl::Other => "e2e:decl:other",
            Decl::StaticObject { .. } => "e2e:decl:static-object",
            Decl::CBuffer(_) => "e2e:decl:cbuffer",
            Decl::Global { kind: None, .. } => "e2e:decl:non-object",
            Decl::Global { ss: true, .. } => "e2e:decl:static-sampler",
            Decl::Global { .. } if r.unsized_arr => "e2e:decl:unsized-array",
            Decl::Global { .. } if r.dim2 => "e2e:decl:two-dimensional-array",
            Decl::Global { len: Some(_), .. } => "e2e:decl:object-array",
            Decl::Global { .. } => "e2e:decl:object",
        });
        if r.joined { hist.add("e2e:flag:joined-declarator"); }
        if r.ns { hist.add("e2e:flag:namespace"); }
        if r.bindless { hist.add("e2e:flag:bindless"); }
        if r.lang_index.is_some() { hist.add("e2e:flag:explicit-register-index"); }
        match r.how {
            How::Space => hist.add("e2e:how:register-space"),
            How::VkBinding => hist.add("e2e:how:vk-binding"),
            How::Override => hist.add("e2e:how:attribute-overrides-register-space"),
            How::Attr => {}
        }
    }
    let unknown = rng.chance(1, 6);
    for tgt in ALL_TARGETS {
        run_case(tgt, &Mode::All, p, out, hist);
        for pipe in &p.pipes {
            run_case(tgt, &Mode::Named(pipe.name.clone()), p, out, hist);
        }
        if unknown {
            run_case(tgt, &Mode::Named("Nope".into()), p, out, hist);
        }
        run_case(tgt, &Mode::NoPipeline, p, out, hist);
    }
}

import RsslVerif.Model.MslCall
/-!
C02, argument lists of exported calls: every call the Metal exporter writes for a user function binds EVERY parameter of
the callee's emitted declaration — the provided arguments in order, then the default value of each left-out parameter at
that parameter's position, then the arguments for the threaded globals — for all three call types.
-/
namespace RsslVerif.Thm.C02Call
open RsslVerif.Model.MslCall RsslVerif.Gen.MslCallTables

/-- a list of defaults that all exist is what `filterMap id` keeps, in order -/
theorem filterMap_id_of_all_some {α : Type} : ∀ (l : List (Option α)),
    (∀ x ∈ l, x.isSome = true) → (l.filterMap id).map some = l
  | [], _ => rfl
  | none :: r, h => by
    have := h none (by simp)
    simp at this
  | some a :: r, h => by
    have ih := filterMap_id_of_all_some r (fun x hx => h x (by simp [hx]))
    simp [ih]

/-- Generic statement over ANY arm whose fill loop skips exactly the parameters that received an argument
    (`argStart = skipOff`).  `defaults.length` is the number of user parameters of the callee's declaration; the type
    checker guarantees that a call provides at most that many arguments and that every left-out parameter has a default
    value (`hdef`); the callee receives parameters for globals (`globals ≠ []`, so its declaration has no default values).
    Then the emitted argument list exists (no panic), has one argument per parameter of the emitted declaration (user
    parameters ++ parameters for globals), the i-th argument is the i-th provided argument for `i < provided`, the i-th
    parameter's own default value for `provided ≤ i`, and the k-th global's argument follows at position `params + k`. -/
theorem binds_every_parameter_of_arm {α : Type} (arm : CallArm) (harm : arm.argStart = arm.skipOff)
    (exprs : List α) (defaults : List (Option α)) (globals : List α)
    (hstart : arm.argStart ≤ exprs.length)
    (hprov : exprs.length - arm.argStart ≤ defaults.length)
    (hdef : ∀ i, exprs.length - arm.argStart ≤ i → i < defaults.length → ∃ d, defaults[i]? = some (some d))
    (hglob : globals ≠ []) :
    ∃ args, emittedArgs arm exprs defaults globals = .ok args ∧
      args.length = defaults.length + globals.length ∧
      (∀ i, i < exprs.length - arm.argStart → args[i]? = exprs[arm.argStart + i]?) ∧
      (∀ i, exprs.length - arm.argStart ≤ i → i < defaults.length → (args[i]?).map some = defaults[i]?) ∧
      (∀ k, args[defaults.length + k]? = globals[k]?) := by
  have hne : globals.isEmpty = false := by cases globals <;> simp_all
  have hnot : ¬ exprs.length < arm.argStart := by omega
  -- the filled defaults, as options, are the tail of the declaration's defaults
  have hall : ∀ x ∈ defaults.drop (exprs.length - arm.argStart), x.isSome = true := by
    intro x hx
    obtain ⟨j, hj, rfl⟩ := List.getElem_of_mem hx
    have hj' : j < defaults.length - (exprs.length - arm.argStart) := by simpa using hj
    obtain ⟨d, hd⟩ := hdef (exprs.length - arm.argStart + j) (by omega) (by omega)
    have : (defaults.drop (exprs.length - arm.argStart))[j]? = some (some d) := by
      rw [List.getElem?_drop]; exact hd
    rw [List.getElem?_eq_getElem hj] at this
    simp at this
    simp [this]
  have hF := filterMap_id_of_all_some _ hall
  have hFlen : (filled defaults (exprs.length - arm.argStart)).length = defaults.length - (exprs.length - arm.argStart) := by
    have := congrArg List.length hF
    simpa [filled] using this
  refine ⟨exprs.drop arm.argStart ++ filled defaults (exprs.length - arm.argStart) ++ globals, ?_, ?_, ?_, ?_, ?_⟩
  · simp [emittedArgs, hnot, hne, ← harm]
  · simp [hFlen]; omega
  · intro i hi
    rw [List.append_assoc, List.getElem?_append_left (by simpa using hi), List.getElem?_drop]
  · intro i h1 h2
    rw [List.getElem?_append_left (by simp [hFlen]; omega),
        List.getElem?_append_right (by simpa using h1)]
    have : ((filled defaults (exprs.length - arm.argStart)).map some)[i - (exprs.length - arm.argStart)]? =
        (defaults.drop (exprs.length - arm.argStart))[i - (exprs.length - arm.argStart)]? := by
      unfold filled; rw [hF]
    rw [List.getElem?_map, List.getElem?_drop] at this
    simp only [List.length_drop]
    rw [this]
    congr 1
    omega
  · intro k
    rw [List.getElem?_append_right (by simp [hFlen]; omega)]
    congr 1
    simp [hFlen]; omega

/-- the re-extracted table of `generate_user_call`: in every arm the fill loop skips exactly the operands that are
    arguments (`MethodExternal`: operand 0 is the object and is NOT counted), the object of a member call is operand 0,
    the list is built in the order arguments / defaults / globals, and the fill loop pushes defaults only, and only for a
    callee that receives parameters for globals -/
theorem user_call_arms_as_modelled :
    userCallArms = [⟨"FreeFunction", 0, 0⟩, ⟨"MethodExternal", 1, 1⟩, ⟨"MethodInternal", 0, 0⟩] ∧
    (∀ arm ∈ userCallArms, arm.argStart = arm.skipOff) ∧
    userCallObjectIsOperand0 = true ∧ userCallOrderAsModelled = true ∧
    fillPushesDefaultsOnly = true ∧ fillOnlyWithGlobals = true := by decide

/-- **Every emitted call binds every parameter**, for all three call types of the current source (free function, method
    called on an object from outside — `exprs[0]` is the object —, method called from inside its struct): under the type
    checker's guarantees (at most as many arguments as parameters, every left-out parameter has a default value) a call of
    a function that receives parameters for globals is emitted with exactly one argument per parameter of the emitted
    declaration: provided arguments in order, each left-out parameter's own default value at its position, then the
    globals. -/
theorem emitted_call_binds_every_parameter {α : Type} (ct : String) (arm : CallArm) (hct : armOf ct = some arm)
    (exprs : List α) (defaults : List (Option α)) (globals : List α)
    (hstart : arm.argStart ≤ exprs.length)
    (hprov : exprs.length - arm.argStart ≤ defaults.length)
    (hdef : ∀ i, exprs.length - arm.argStart ≤ i → i < defaults.length → ∃ d, defaults[i]? = some (some d))
    (hglob : globals ≠ []) :
    ∃ args, emittedArgsOf ct exprs defaults globals = .ok args ∧
      args.length = defaults.length + globals.length ∧
      (∀ i, i < exprs.length - arm.argStart → args[i]? = exprs[arm.argStart + i]?) ∧
      (∀ i, exprs.length - arm.argStart ≤ i → i < defaults.length → (args[i]?).map some = defaults[i]?) ∧
      (∀ k, args[defaults.length + k]? = globals[k]?) := by
  have hmem : arm ∈ userCallArms := List.mem_of_find?_eq_some hct
  have harm := user_call_arms_as_modelled.2.1 arm hmem
  simpa [emittedArgsOf, hct] using binds_every_parameter_of_arm arm harm exprs defaults globals hstart hprov hdef hglob

/-- all three call types have an arm (the theorem above is not vacuous in `hct`) -/
theorem every_call_type_has_an_arm :
    (armOf "FreeFunction").isSome ∧ (armOf "MethodExternal").isSome ∧ (armOf "MethodInternal").isSome := by decide

/-- a callee that receives no parameter for a global keeps its default values: the call is emitted as written (the object
    of an external method call is not an argument) -/
theorem emitted_call_unchanged_without_globals {α : Type} (arm : CallArm) (exprs : List α) (defaults : List (Option α))
    (hstart : arm.argStart ≤ exprs.length) :
    emittedArgs arm exprs defaults [] = .ok (exprs.drop arm.argStart) := by
  have hnot : ¬ exprs.length < arm.argStart := by omega
  simp [emittedArgs, hnot]

/-- non-vacuity, the program of seeded mutant C02-6: `a.scale(x)` for `int scale(int v, int factor = 3)` that reads
    `static int bias` — operands `[a, x]`, defaults `[-, 3]` — is emitted with the arguments `x, 3, bias`;
    `a.blend()` for `blend(int v = 1, int w = 2)` with `1, 2, bias`; hypotheses of the theorem hold for it -/
example : emittedArgsOf "MethodExternal" ["a", "x"] [none, some "3"] ["bias"] = .ok ["x", "3", "bias"] := rfl
example : emittedArgsOf "MethodExternal" ["a"] [some "1", some "2"] ["bias"] = .ok ["1", "2", "bias"] := rfl
example : emittedArgsOf "MethodInternal" ["v"] [none, some "7"] ["bias"] = .ok ["v", "7", "bias"] := rfl
example : emittedArgsOf "FreeFunction" ["x"] [none, some "5", some "6"] ["bias", "gsh"] = .ok ["x", "5", "6", "bias", "gsh"] := rfl
example : ∃ args, emittedArgsOf "MethodExternal" ["a", "x"] [none, some "3"] ["bias"] = .ok args ∧ args.length = 2 + 1 := by
  obtain ⟨args, h, hl, _⟩ := emitted_call_binds_every_parameter "MethodExternal" ⟨"MethodExternal", 1, 1⟩ (by decide)
    ["a", "x"] [none, some "3"] ["bias"] (by decide) (by decide)
    (by intro i h1 h2
        have : i = 1 := by simp at h1 h2; omega
        subst this; exact ⟨"3", rfl⟩)
    (by decide)
  exact ⟨args, h, hl⟩

/-- negation witness, the arm of seeded mutant C02-6 (`append_default_arguments(args, id, exprs.len(), ..)`: the object
    counted as a provided argument, table row `⟨MethodExternal, 1, 0⟩`): `a.scale(x)` gets `x, bias` — one argument short
    of `scale(int v, int factor, thread int& bias)` — and `a.blend()` for two defaults gets the SECOND default in the first
    parameter's position. -/
theorem object_counted_as_argument_drops_a_default :
    emittedArgs ⟨"MethodExternal", 1, 0⟩ ["a", "x"] [none, some "3"] ["bias"] = .ok ["x", "bias"] ∧
    emittedArgs ⟨"MethodExternal", 1, 0⟩ ["a"] [some "1", some "2"] ["bias"] = .ok ["2", "bias"] := ⟨rfl, rfl⟩

/-- the count the correspondence stream compares is the length of the modelled list -/
theorem emittedArgCount_eq (ct : String) (nexprs : Nat) (hasDefault : List Bool) (nglobals : Nat) :
    emittedArgCount ct nexprs hasDefault nglobals =
      (emittedArgsOf ct (List.replicate nexprs ()) (hasDefault.map fun b => if b then some () else none)
        (List.replicate nglobals ())).map List.length := rfl

end RsslVerif.Thm.C02Call

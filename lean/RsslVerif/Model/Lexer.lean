import RsslVerif.Gen.LexTables
import RsslVerif.Spec.Dec2Bin
/-!
# Executable model of `preprocess/src/lexer.rs` (core Lean only)

`tokenIntermediate` mirrors `token_intermediate` and every sub-lexer it reaches; `Stream.next` /
`readToEnd` mirror `TokenStream::next` / `read_to_end` (offset bookkeeping, the synthetic final `Endline`).
Rust slices `&[u8]` are `List UInt8`; a sub-lexer returns the unconsumed rest exactly like the Rust code
does, so "the rest is a proper suffix of the input" is a theorem about the model and not built in.
Every `assert!` / `debug_assert!` / slice-index panic site on the modelled paths is an explicit
`LexErr.panic` / `StreamErr.panic` result.  Keyword, operator and suffix tables come from `Gen.LexTables`
(re-extracted from the source on every run).  Float values are bit patterns; the value of a float literal
is `Spec.Dec2Bin.nearest64` of its digits (the fixed code calls `str::parse::<f64>`, trusted to be
correctly rounded — the correspondence run checks that trust on every run).

Reused by C09 (glue safety) and C14 (trivia insensitivity).
-/
namespace RsslVerif.Model.Lexer
open RsslVerif.Gen.LexTables
open RsslVerif.Spec

abbrev Bytes := List UInt8

/-- UTF-8 bytes of a string literal of the Rust source -/
def str (s : String) : Bytes := s.toUTF8.toList

/-- Where a `LexErrorContext` points: an unconsumed rest of the input, or the `&[]` literal that
`end_of_stream()` returns (which is *not* a subslice of the input). -/
inductive ErrAt where
  | rest (r : Bytes)
  | static
  deriving DecidableEq, Repr

def ErrAt.len : ErrAt → Nat
  | .rest r => r.length
  | .static => 0

inductive LexErr where
  | lex (pos : ErrAt) (reason : Reason)
  /-- a panic site of lexer.rs: `other-token-len` = `debug_assert_eq!(input.len(), rest.len())` in `choose` /
  `token_intermediate` -/
  | panic (site : String)
  deriving DecidableEq, Repr

abbrev LexResult (α : Type) := Except LexErr (Bytes × α)

def wrongChars {α : Type} (input : Bytes) : LexResult α := .error (.lex (.rest input) .UnexpectedBytes)
def otherTokenChars {α : Type} (input : Bytes) : LexResult α := .error (.lex (.rest input) .OtherTokenBytes)
def endOfStream {α : Type} : LexResult α := .error (.lex .static .EndOfStream)

inductive FollowedBy where
  | token | whitespace
  deriving DecidableEq, Repr

/-- `enum Token`: payload-free variants are `Gen.LexTables.Simple`; integers are their mathematical value
(`u64` payloads are `Nat < 2^64`, the `i64` payload an `Int`), floats are IEEE bit patterns. -/
inductive Token where
  | simple (s : Simple)
  | id (name : Bytes)
  | litInt (v : Nat)
  | litIntU32 (v : Nat)
  | litIntU64 (v : Nat)
  | litIntS64 (v : Int)
  | litFloat (bits64 : Nat)
  | litFloat16 (bits32 : Nat)
  | litFloat32 (bits32 : Nat)
  | litFloat64 (bits64 : Nat)
  | litString (s : Bytes)
  | reservedWord (s : Bytes)
  | headerName (s : Bytes)
  | leftAngle (f : FollowedBy)
  | rightAngle (f : FollowedBy)
  deriving DecidableEq, Repr

/-- `Token::is_whitespace` -/
def Token.isWhitespace : Token → Bool
  | .simple s => s.isWhitespace
  | _ => false

/-- `opt(lex_fn)(input)`: the element, or nothing and the input untouched -/
def opt {α : Type} (r : LexResult α) (input : Bytes) : Bytes × Option α :=
  match r with
  | .ok (rest, a) => (rest, some a)
  | .error _ => (input, none)

/-- `input.starts_with(p)` together with `&input[p.len()..]` -/
def stripPrefix? : Bytes → Bytes → Option Bytes
  | [], inp => some inp
  | _ :: _, [] => none
  | p :: ps, b :: r => if p = b then stripPrefix? ps r else none

/-! ## digits and integer literals -/

def decDigit? (b : UInt8) : Option Nat :=
  if 48 ≤ b.toNat ∧ b.toNat ≤ 57 then some (b.toNat - 48) else none

def octDigit? (b : UInt8) : Option Nat :=
  if 48 ≤ b.toNat ∧ b.toNat ≤ 55 then some (b.toNat - 48) else none

def hexDigit? (b : UInt8) : Option Nat :=
  if 48 ≤ b.toNat ∧ b.toNat ≤ 57 then some (b.toNat - 48)
  else if 65 ≤ b.toNat ∧ b.toNat ≤ 70 then some (b.toNat - 55)
  else if 97 ≤ b.toNat ∧ b.toNat ≤ 102 then some (b.toNat - 87)
  else none

/-- `digit` / `digit_hex` / `digit_octal` -/
def digitWith (f : UInt8 → Option Nat) : Bytes → LexResult Nat
  | [] => endOfStream
  | b :: r =>
    match f b with
    | some n => .ok (r, n)
    | none => wrongChars (b :: r)

/-- the `while let Ok(..) = digit(input)` loop of `digits*`: `checked_mul(base).and_then(checked_add(d))` -/
def digitsLoop (f : UInt8 → Option Nat) (base : Nat) (start : Bytes) : Bytes → Nat → LexResult Nat
  | [], v => .ok ([], v)
  | b :: r, v =>
    match f b with
    | none => .ok (b :: r, v)
    | some d =>
      if v * base < 2 ^ 64 ∧ v * base + d < 2 ^ 64 then digitsLoop f base start r (v * base + d)
      else .error (.lex (.rest start) .IntegerLiteralTooLarge)

/-- `digits` / `digits_hex` / `digits_octal` -/
def digitsWith (f : UInt8 → Option Nat) (base : Nat) (input : Bytes) : LexResult Nat :=
  match digitWith f input with
  | .error e => .error e
  | .ok (r, v) => digitsLoop f base input r v

/-- one slice pattern `[alts₀, alts₁, .., rest @ ..]` -/
def matchPrefix : List (List Nat) → Bytes → Option Bytes
  | [], inp => some inp
  | _ :: _, [] => none
  | alts :: ps, b :: r => if alts.contains b.toNat then matchPrefix ps r else none

def intTypeFrom : List (List (List Nat) × IntType) → Bytes → LexResult IntType
  | [], inp => wrongChars inp
  | (pat, k) :: rows, inp =>
    match matchPrefix pat inp with
    | some rest => .ok (rest, k)
    | none => intTypeFrom rows inp

/-- `int_type` -/
def intType (input : Bytes) : LexResult IntType := intTypeFrom intTypeTable input

/-- the token of a literal with value `v` and suffix `k`; `none` = the value does not fit the suffix' type:
`value > u32::MAX` for `u` (fix 93e9a96), `i64::try_from(value)` fails for `l` (fix dc17362) — such a literal is
rejected instead of being truncated / wrapping to a negative value -/
def mkIntToken? (v : Nat) : Option IntType → Option Token
  | none => some (.litInt v)
  | some .Unsigned32 => if v < 2 ^ 32 then some (.litIntU32 v) else none
  | some .Unsigned64 => some (.litIntU64 v)
  | some .Signed64 => if v < 2 ^ 63 then some (.litIntS64 (v : Int)) else none

/-- `literal_decimal_int` / `literal_hex_int` / `literal_octal_int` -/
def literalIntWith (f : UInt8 → Option Nat) (base : Nat) (input : Bytes) : LexResult Token :=
  match digitsWith f base input with
  | .error e => .error e
  | .ok (rest, v) =>
    let p := opt (intType rest) rest
    match mkIntToken? v p.2 with
    | some tok => .ok (p.1, tok)
    | none => .error (.lex (.rest input) .IntegerLiteralTooLarge)

/-- `literal_int` -/
def literalInt (input : Bytes) : LexResult Token :=
  match stripPrefix? [48, 120] input with
  | some r => literalIntWith hexDigit? 16 r
  | none =>
    match stripPrefix? [48] input with
    | some r =>
      match digitWith octDigit? r with
      | .ok _ => literalIntWith octDigit? 8 r
      | .error _ => literalIntWith decDigit? 10 input
    | none => literalIntWith decDigit? 10 input

/-! ## strings and header names -/

/-- `rest.iter().position(|c| *c == close)` with the two sides of the split -/
def splitAtByte (c : UInt8) : Bytes → Option (Bytes × Bytes)
  | [] => none
  | b :: r =>
    if b = c then some ([], r)
    else
      match splitAtByte c r with
      | some (x, y) => some (b :: x, y)
      | none => none

def isCont (b : UInt8) : Bool := 128 ≤ b.toNat && b.toNat ≤ 191

/-- `std::str::from_utf8(..).is_ok()`: well-formed UTF-8 (no overlong forms, no surrogates, ≤ U+10FFFF) -/
def validUtf8 : Bytes → Bool
  | [] => true
  | b0 :: r =>
    let n := b0.toNat
    if n < 128 then validUtf8 r
    else if 194 ≤ n ∧ n ≤ 223 then
      match r with
      | b1 :: r1 => isCont b1 && validUtf8 r1
      | [] => false
    else if 224 ≤ n ∧ n ≤ 239 then
      match r with
      | b1 :: b2 :: r2 =>
        let lo := if n = 224 then 160 else 128
        let hi := if n = 237 then 159 else 191
        (lo ≤ b1.toNat && b1.toNat ≤ hi) && isCont b2 && validUtf8 r2
      | _ => false
    else if 240 ≤ n ∧ n ≤ 244 then
      match r with
      | b1 :: b2 :: b3 :: r3 =>
        let lo := if n = 240 then 144 else 128
        let hi := if n = 244 then 143 else 191
        (lo ≤ b1.toNat && b1.toNat ≤ hi) && isCont b2 && isCont b3 && validUtf8 r3
      | _ => false
    else false

/-- common shape of `literal_string` and `header_name` -/
def delimited (opn cls : Nat) (mk : Bytes → Token) (wrapsLine wrapsFile invalid : Reason)
    (input : Bytes) : LexResult Token :=
  match input with
  | [] => otherTokenChars input
  | b :: rest =>
    if b.toNat = opn then
      match splitAtByte (UInt8.ofNat cls) rest with
      | some (body, remaining) =>
        if validUtf8 body then
          if body.contains 10 then .error (.lex (.rest input) wrapsLine)
          else .ok (remaining, mk body)
        else .error (.lex (.rest input) invalid)
      | none => .error (.lex (.rest input) wrapsFile)
    else otherTokenChars input

/-- `literal_string` -/
def literalString : Bytes → LexResult Token :=
  delimited 34 34 .litString .StringWrapsLine .StringWrapsFile .StringContainsInvalidCharacters

/-- `header_name` -/
def headerName : Bytes → LexResult Token :=
  delimited 60 62 .headerName .HeaderNameWrapsLine .HeaderNameWrapsFile .HeaderNameContainsInvalidCharacters

/-! ## float literals -/

/-- the `while let Ok(..) = digit(input)` loop of `digit_sequence` -/
def spanDigits : Bytes → List Nat × Bytes
  | [] => ([], [])
  | b :: r =>
    match decDigit? b with
    | some d => let p := spanDigits r; (d :: p.1, p.2)
    | none => ([], b :: r)

/-- `digit_sequence` -/
def digitSequence (input : Bytes) : LexResult (List Nat) :=
  match digitWith decDigit? input with
  | .error e => .error e
  | .ok (r, d) => let p := spanDigits r; .ok (p.2, d :: p.1)

/-- `fractional_constant`: `(whole digits, fractional digits)` -/
def fractionalConstant (input : Bytes) : LexResult (List Nat × List Nat) :=
  let w := opt (digitSequence input) input
  match w.1 with
  | [] => otherTokenChars w.1
  | b :: i2 =>
    if b.toNat = 46 then
      match w.2 with
      | none =>
        match digitSequence i2 with
        | .error e => .error e
        | .ok (i3, fr) => .ok (i3, ([], fr))
      | some whole =>
        let fr := opt (digitSequence i2) i2
        .ok (fr.1, (whole, fr.2.getD []))
    else otherTokenChars w.1

def floatTypeFrom : List (List Nat × FloatType) → Bytes → LexResult FloatType
  | _, [] => wrongChars []
  | [], b :: r => wrongChars (b :: r)
  | (bs, k) :: rows, b :: r => if bs.contains b.toNat then .ok (r, k) else floatTypeFrom rows (b :: r)

/-- `float_type` -/
def floatType (input : Bytes) : LexResult FloatType := floatTypeFrom floatTypeTable input

/-- `sign`: `true` = negative -/
def sign : Bytes → LexResult Bool
  | [] => wrongChars []
  | b :: r => if b.toNat = 43 then .ok (r, false) else if b.toNat = 45 then .ok (r, true) else wrongChars (b :: r)

/-- `fold(0i64, |acc, d| acc.saturating_mul(10).saturating_add(d))` -/
def satExp (ds : List Nat) : Nat := ds.foldl (fun acc d => Nat.min (acc * 10 + d) (2 ^ 63 - 1)) 0

/-- `float_exponent` -/
def floatExponent : Bytes → LexResult Int
  | [] => wrongChars []
  | b :: r =>
    if b.toNat = 101 ∨ b.toNat = 69 then
      let s := opt (sign r) r
      match digitSequence s.1 with
      | .error e => .error e
      | .ok (i3, ds) =>
        let e : Int := (satExp ds : Nat)
        .ok (i3, if s.2 = some true then -e else e)
    else wrongChars (b :: r)

/-- `calculate_float64_from_parts` (after fix c2067b9): `"<left>.<right>e<exp>".parse::<f64>()`,
i.e. the double nearest to `(left ++ right) × 10^(exp - |right|)` -/
def float64FromParts (left right : List Nat) (exp : Int) : Nat :=
  Dec2Bin.nearest64 (left ++ right) (exp - right.length)

def isIdentStart (b : UInt8) : Bool :=
  (65 ≤ b.toNat && b.toNat ≤ 90) || (97 ≤ b.toNat && b.toNat ≤ 122) || b.toNat = 95

def isIdentChar (b : UInt8) : Bool := isIdentStart b || (48 ≤ b.toNat && b.toNat ≤ 57)

/-- first part of `literal_float`: `(has_fraction, left, right)` -/
def floatMantissa (input : Bytes) : LexResult (Bool × List Nat × List Nat) :=
  let fr := opt (fractionalConstant input) input
  match fr.2 with
  | some f => .ok (fr.1, (true, f.1, f.2))
  | none =>
    match digitSequence fr.1 with
    | .error e => .error e
    | .ok (i, whole) => .ok (i, (false, whole, []))

/-- the `#INF` check of `literal_float` -/
def floatInf (pre : Bytes) (value64 : Nat) (hasExp : Bool) : LexResult Nat :=
  match stripPrefix? [35, 73, 78, 70] pre with
  | some rest =>
    if value64 ≠ 0 ∧ hasExp = false then .ok (rest, Dec2Bin.binary64.infBits)
    else .error (.lex (.rest pre) .FloatInvalidSuffix)
  | none => .ok (pre, value64)

def mkFloatToken (v : Nat) : Option FloatType → Token
  | none => .litFloat v
  | some .Half => .litFloat16 (Dec2Bin.narrow32 v)
  | some .Float => .litFloat32 (Dec2Bin.narrow32 v)
  | some .Double => .litFloat64 v

/-- `literal_float` -/
def literalFloat (input : Bytes) : LexResult Token :=
  match floatMantissa input with
  | .error e => .error e
  | .ok (i2, (hasFraction, left, right)) =>
    let ex := opt (floatExponent i2) i2
    if hasFraction = false ∧ ex.2 = none then otherTokenChars input
    else
      let value64 := float64FromParts left right (ex.2.getD 0)
      match floatInf ex.1 value64 ex.2.isSome with
      | .error e => .error e
      | .ok (i4, v) =>
        let ft := opt (floatType i4) i4
        match ft.1 with
        | [] => .ok (ft.1, mkFloatToken v ft.2)
        | c :: r5 =>
          if isIdentChar c then
            if c.toNat = 120 then .error (.lex (.rest input) .OtherTokenBytes)
            else .error (.lex (.rest ex.1) .FloatInvalidSuffix)
          else .ok (c :: r5, mkFloatToken v ft.2)

/-! ## words -/

/-- the `loop { identifier_char }` of `identifier` -/
def spanIdent : Bytes → Bytes × Bytes
  | [] => ([], [])
  | b :: r => if isIdentChar b then let p := spanIdent r; (b :: p.1, p.2) else ([], b :: r)

/-- the `match id.0.as_str()` of `any_word` -/
def wordToken (name : Bytes) : Token :=
  match keywords.find? (fun kw => str kw.1 == name) with
  | some kw => .simple kw.2
  | none => if reservedWords.any (fun w => str w == name) then .reservedWord name else .id name

/-- `any_word` (with `identifier` inlined) -/
def anyWord : Bytes → LexResult Token
  | [] => endOfStream
  | b :: r =>
    if isIdentStart b then let p := spanIdent r; .ok (p.2, wordToken (b :: p.1))
    else otherTokenChars (b :: r)

/-! ## trivia -/

/-- `whitespace_simple` -/
def whitespaceSimple : Bytes → LexResult Token
  | [] => otherTokenChars []
  | b :: r => if b.toNat = 32 ∨ b.toNat = 9 then .ok (r, .simple .Whitespace) else otherTokenChars (b :: r)

/-- `whitespace_endline` -/
def whitespaceEndline (input : Bytes) : LexResult Token :=
  match stripPrefix? [92, 13, 10] input with
  | some r => .ok (r, .simple .PhysicalEndline)
  | none =>
    match stripPrefix? [92, 10] input with
    | some r => .ok (r, .simple .PhysicalEndline)
    | none =>
      match stripPrefix? [13, 10] input with
      | some r => .ok (r, .simple .Endline)
      | none =>
        match stripPrefix? [10] input with
        | some r => .ok (r, .simple .Endline)
        | none => otherTokenChars input

/-- the `while pos < input.len()` loop of `line_comment`: the rest at which the comment stops (line splices
inside the comment are skipped, the terminating line ending is not consumed) -/
def lineCommentEnd : Bytes → Bytes
  | [] => []
  | b :: r =>
    if b.toNat = 92 then
      match r with
      | [] => []
      | c :: r2 =>
        if c.toNat = 10 then lineCommentEnd r2
        else if c.toNat = 13 then
          match r2 with
          | [] => lineCommentEnd (c :: [])
          | d :: r3 => if d.toNat = 10 then lineCommentEnd r3 else lineCommentEnd (c :: d :: r3)
        else lineCommentEnd (c :: r2)
    else if b.toNat = 10 then b :: r
    else if b.toNat = 13 then
      match r with
      | [] => []
      | c :: r2 => if c.toNat = 10 then b :: c :: r2 else lineCommentEnd (c :: r2)
    else lineCommentEnd r

/-- `line_comment` -/
def lineComment (input : Bytes) : LexResult Token :=
  match stripPrefix? [47, 47] input with
  | some r => .ok (lineCommentEnd r, .simple .Comment)
  | none => otherTokenChars input

/-- the search loop of `block_comment`: the rest after the first `*/` -/
def blockSearch : Bytes → Option Bytes
  | [] => none
  | a :: t =>
    match t with
    | [] => none
    | b :: r => if a.toNat = 42 ∧ b.toNat = 47 then some r else blockSearch t

/-- `block_comment` -/
def blockComment (input : Bytes) : LexResult Token :=
  match stripPrefix? [47, 42] input with
  | some r =>
    match blockSearch r with
    | some rest => .ok (rest, .simple .Comment)
    | none => endOfStream
  | none => otherTokenChars input

/-! ## symbols and the token dispatcher -/

/-- what `leftanglebracket` / `rightanglebracket` make of `lookahead_token` -/
def followedBy (look : LexResult Token) : FollowedBy :=
  match look with
  | .ok (_, tok) => if tok.isWhitespace then .whitespace else .token
  | .error _ => .whitespace

/-- one entry of the `choose` list; `look ()` is `token_intermediate(&input[1..], false)` -/
def runSub (s : Sub) (look : Unit → LexResult Token) (input : Bytes) : LexResult Token :=
  match s with
  | .whitespaceSimple => whitespaceSimple input
  | .whitespaceEndline => whitespaceEndline input
  | .lineComment => lineComment input
  | .blockComment => blockComment input
  | .literalString => literalString input
  | .leftAngle =>
    match input with
    | [] => otherTokenChars input
    | b :: r => if b.toNat = 60 then .ok (r, .leftAngle (followedBy (look ()))) else otherTokenChars input
  | .rightAngle =>
    match input with
    | [] => otherTokenChars input
    | b :: r => if b.toNat = 62 then .ok (r, .rightAngle (followedBy (look ()))) else otherTokenChars input
  | .single c t =>
    match input with
    | [] => otherTokenChars input
    | b :: r => if b.toNat = c then .ok (r, .simple t) else otherTokenChars input
  | .opOrEq c op opEq opOp =>
    match input with
    | [] => otherTokenChars input
    | b :: r =>
      if b.toNat = c then
        match r with
        | [] => .ok (r, .simple op)
        | b2 :: r2 =>
          match (if b2.toNat = 61 then opEq else none) with
          | some t => .ok (r2, .simple t)
          | none =>
            match (if b2.toNat = c then opOp else none) with
            | some t => .ok (r2, .simple t)
            | none => .ok (r, .simple op)
      else otherTokenChars input

/-- `choose`: the first sub-lexer that does not answer `OtherTokenBytes` decides -/
def choose (subs : List Sub) (look : Unit → LexResult Token) (input : Bytes) : LexResult Token :=
  match subs with
  | [] => wrongChars input
  | s :: more =>
    match runSub s look input with
    | .ok x => .ok x
    | .error (.lex pos .OtherTokenBytes) =>
      if pos.len = input.length then choose more look input
      else .error (.panic "other-token-len")
    | .error e => .error e

/-- body of `token_intermediate` for a non-empty input `b :: r` -/
def tokenStep (b : UInt8) (r : Bytes) (insideInclude : Bool) (look : Unit → LexResult Token) : LexResult Token :=
  let input := b :: r
  if 48 ≤ b.toNat ∧ b.toNat ≤ 57 then
    match literalFloat input with
    | .ok x => .ok x
    | .error (.lex pos .OtherTokenBytes) =>
      if pos.len = input.length then literalInt input
      else .error (.panic "other-token-len")
    | .error e => .error e
  else if isIdentStart b then anyWord input
  else if insideInclude then
    match headerName input with
    | .ok x => .ok x
    | .error (.lex pos .OtherTokenBytes) =>
      if pos.len = input.length then choose tokenChoice look input
      else .error (.panic "other-token-len")
    | .error e => .error e
  else choose tokenChoice look input

/-- `token_intermediate`. The only recursion of the lexer is the one-token look-ahead after `<` / `>`,
which looks at the tail of the input: structural. -/
def tokenIntermediate : Bytes → Bool → LexResult Token
  | [], _ => endOfStream
  | b :: r, insideInclude => tokenStep b r insideInclude (fun _ => tokenIntermediate r false)

/-! ## `TokenStream` -/

/-- a `PreprocessToken`: token and half-open byte span relative to the file -/
structure PTok where
  tok : Token
  start : Nat
  stop : Nat
  deriving DecidableEq, Repr

inductive StreamErr where
  /-- `LexerError { reason, location = base + offset }` -/
  | lexer (reason : Reason) (offset : Nat)
  /-- panic sites of `TokenStream::next`: `last-was-endline` = `assert!(!self.last_was_endline)`;
  `slice-start-past-end` = `&self.input_bytes[self.current_offset..]`; `subtract-overflow` =
  `self.input_bytes.len() - remaining.len()`; `no-progress` = `debug_assert!(self.current_offset < next_location)`;
  `error-before-token` = `debug_assert!(self.current_offset <= error_offset)` -/
  | panic (site : String)
  /-- artefact of the model only: the fuel of `readToEnd` ran out (theorem `readToEnd_fuel`: never) -/
  | outOfFuel
  deriving DecidableEq, Repr

structure Stream where
  input : Bytes
  offset : Nat
  addTrailingEndline : Bool
  lastWasEndline : Bool
  /-- `cfg(debug_assertions)` of the build being modelled -/
  debug : Bool
  deriving Repr

/-- `TokenStream::new` -/
def Stream.new (input : Bytes) (trailing : Bool := true) (debug : Bool := true) : Stream :=
  ⟨input, 0, trailing, true, debug⟩

/-- `TokenStream::end_of_stream` -/
def Stream.endOfStream (s : Stream) : Bool :=
  decide (s.input.length ≤ s.offset) && (s.lastWasEndline || !s.addTrailingEndline)

/-- `TokenStream::next` -/
def Stream.next (s : Stream) (insideInclude : Bool) : Except StreamErr (PTok × Stream) :=
  if s.addTrailingEndline = true ∧ s.offset = s.input.length then
    if s.lastWasEndline then .error (.panic "last-was-endline")
    else .ok (⟨.simple .Endline, s.offset, s.offset⟩, { s with lastWasEndline := true })
  else if s.input.length < s.offset then
    .error (.panic "slice-start-past-end")
  else
    match tokenIntermediate (s.input.drop s.offset) insideInclude with
    | .ok (remaining, tok) =>
      if s.input.length < remaining.length then
        .error (.panic "subtract-overflow")
      else
        let nextLocation := s.input.length - remaining.length
        if s.debug = true ∧ ¬ s.offset < nextLocation then
          .error (.panic "no-progress")
        else
          .ok (⟨tok, s.offset, nextLocation⟩,
               { s with offset := nextLocation, lastWasEndline := decide (tok = .simple .Endline) })
    | .error (.lex (.rest rest) kind) =>
      if s.input.length < rest.length then
        .error (.panic "subtract-overflow")
      else
        let errorOffset := s.input.length - rest.length
        if s.debug = true ∧ ¬ s.offset ≤ errorOffset then
          .error (.panic "error-before-token")
        else .error (.lexer kind errorOffset)
    | .error (.lex .static kind) =>
      -- `LexErrorContext(&[], ..)` of `end_of_stream()`: `rest.is_empty()` satisfies the pointer-range
      -- debug assertions (fix c600801); `error_offset = len - 0`
      if s.debug = true ∧ ¬ s.offset ≤ s.input.length then .error (.panic "error-before-token")
      else .error (.lexer kind s.input.length)
    | .error (.panic site) => .error (.panic site)

/-- the `while !self.end_of_stream()` loop of `read_to_end`; also returns the tokens read before an error -/
def readLoop (inc : Bool) : Nat → Stream → List PTok → List PTok × Except StreamErr Unit
  | 0, _, acc => (acc.reverse, .error .outOfFuel)
  | fuel + 1, s, acc =>
    if s.endOfStream then (acc.reverse, .ok ())
    else
      match s.next inc with
      | .error e => (acc.reverse, .error e)
      | .ok (t, s') => readLoop inc fuel s' (t :: acc)

/-- tokens read before the end or the first error, and how it ended (each token consumes at least one
byte, plus the synthetic endline: `|input| + 2` iterations always suffice) -/
def readAll (input : Bytes) (trailing : Bool := true) (debug : Bool := true) (inc : Bool := false) :
    List PTok × Except StreamErr Unit :=
  readLoop inc (input.length + 2) (Stream.new input trailing debug) []

/-- `TokenStream::new(input, base).read_to_end()` -/
def readToEnd (input : Bytes) (trailing : Bool := true) (debug : Bool := true) : Except StreamErr (List PTok) :=
  match readAll input trailing debug with
  | (ts, .ok ()) => .ok ts
  | (_, .error e) => .error e

end RsslVerif.Model.Lexer

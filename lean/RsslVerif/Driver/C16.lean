import RsslVerif.Model.OverloadSeq
import RsslVerif.Driver.Util
/-! Line-protocol front end of the C16 model (`C16.resolve`, `C16.conv`); formats are described in
`harness/src/c16.rs`. -/
namespace RsslVerif.Driver.C16
open RsslVerif.Gen.RankTable RsslVerif.Model.Conv RsslVerif.Model.Overload RsslVerif.Driver

def modLetters : List (Char × (Modifier → Modifier)) :=
  [('c', fun m => { m with isConst := true }), ('v', fun m => { m with volatile := true }),
   ('r', fun m => { m with rest := m.rest ||| 1 }), ('k', fun m => { m with rest := m.rest ||| 2 }),
   ('u', fun m => { m with rest := m.rest ||| 4 }), ('n', fun m => { m with rest := m.rest ||| 8 })]

def parseMods (s : String) : Option Modifier :=
  if s == "-" then some {} else
  s.toList.foldl (fun acc c => acc.bind fun m => (modLetters.lookup c).map (· m)) (some {})

def showMods (m : Modifier) : String :=
  let s := (if m.isConst then "c" else "") ++ (if m.volatile then "v" else "") ++
    (if m.rest &&& 1 != 0 then "r" else "") ++ (if m.rest &&& 2 != 0 then "k" else "") ++
    (if m.rest &&& 4 != 0 then "u" else "") ++ (if m.rest &&& 8 != 0 then "n" else "")
  if s.isEmpty then "-" else s

def parseLayer (s : String) : Option Layer :=
  match s.splitOn "." with
  | ["s", sc] => (Scalar.ofName? sc).map .scalar
  | ["v", sc, n] => do pure (.vector (← Scalar.ofName? sc) (← n.toNat?))
  | ["m", sc, x, y] => do pure (.matrix (← Scalar.ofName? sc) (← x.toNat?) (← y.toNat?))
  | ["e", i] => i.toNat?.map .enum
  | ["o", i] => i.toNat?.map .other
  | _ => none

def showLayer : Layer → String
  | .scalar s => "s." ++ s.name
  | .vector s n => "v." ++ s.name ++ "." ++ toString n
  | .matrix s x y => "m." ++ s.name ++ "." ++ toString x ++ "." ++ toString y
  | .enum i => "e." ++ toString i
  | .other i => "o." ++ toString i

def parseETy (s : String) : Option ETy :=
  match s.splitOn "/" with
  | [vt, m, l] => do
    let vt ← match vt with | "L" => some VT.lvalue | "R" => some VT.rvalue | _ => none
    pure ⟨⟨← parseMods m, ← parseLayer l⟩, vt⟩
  | _ => none

def showETy (e : ETy) : String :=
  (match e.vt with | .lvalue => "L" | .rvalue => "R") ++ "/" ++ showMods e.ty.mod ++ "/" ++ showLayer e.ty.layer

def parseParam (s : String) : Option Param :=
  match s.splitOn "/" with
  | [io, m, l] => do
    let io ← match io with
      | "in" => some InputModifier.in | "out" => some .out | "inout" => some .inOut | _ => none
    pure ⟨⟨← parseMods m, ← parseLayer l⟩, io⟩
  | _ => none

def parseCand (s : String) : Option Cand :=
  match s.splitOn ":" with
  | [id, nd, ps] => do
    let ps ← sequenceOpt ((if ps.isEmpty then [] else ps.splitOn ",").map parseParam)
    pure ⟨← id.toNat?, ps, ← nd.toNat?⟩
  | _ => none

def showOutcome : Outcome → String
  | .selected id => "sel " ++ toString id
  | .ambiguous ids => "amb " ++ ",".intercalate (ids.map toString)
  | .unmatched => "none"
  | .panic => "panic"

def convCell (src dst : ETy) : String :=
  match find src dst with
  | .error _ => "panic"
  | .ok none => "err"
  | .ok (some c) =>
    (match getRank c with
     | .error _ => "panic/panic"
     | .ok r => r.num.name ++ "/" ++ r.vec.name) ++ ">" ++
    (match targetType c with
     | .error _ => "panic"
     | .ok t => showETy t)

def parsePTy (m l : String) : Option PTy :=
  match l.splitOn "." with
  | ["t", k] => if m == "-" then k.toNat?.map .tvar else none
  | ["vt", k, n] => if m == "-" then do pure (.tvec (← k.toNat?) (← n.toNat?)) else none
  | ["mt", k, x, y] => if m == "-" then do pure (.tmat (← k.toNat?) (← x.toNat?) (← y.toNat?)) else none
  | ["at", k, n] => if m == "-" then do pure (.tarr (← k.toNat?) (← n.toNat?)) else none
  | _ => do pure (.conc ⟨← parseMods m, ← parseLayer l⟩)

def parseTParam (s : String) : Option TParam :=
  match s.splitOn "/" with
  | [io, m, l] => do
    let io ← match io with
      | "in" => some InputModifier.in | "out" => some .out | "inout" => some .inOut | _ => none
    pure ⟨← parsePTy m l, io⟩
  | _ => none

def parseKinds (s : String) : Option (List TKind) :=
  match s.toList with
  | 't' :: ks => sequenceOpt (ks.map fun c => if c == 'T' then some TKind.type else if c == 'V' then some .value else none)
  | _ => none

/-- `<id>:<non_default>:<param>,..[:t<kinds>]` -/
def parseTCand (s : String) : Option TCand :=
  match s.splitOn ":" with
  | [id, nd, ps] => do
    let ps ← sequenceOpt ((if ps.isEmpty then [] else ps.splitOn ",").map parseTParam)
    pure ⟨← id.toNat?, [], ps, ← nd.toNat?⟩
  | [id, nd, ps, ks] => do
    let ps ← sequenceOpt ((if ps.isEmpty then [] else ps.splitOn ",").map parseTParam)
    pure ⟨← id.toNat?, ← parseKinds ks, ps, ← nd.toNat?⟩
  | _ => none

def parseTArg (s : String) : Option TArg :=
  if s == "#" then some .const else
  match s.splitOn "/" with
  | [m, l] => do pure (.type ⟨← parseMods m, ← parseLayer l⟩)
  | _ => none

def showTArg : TArg → String
  | .const => "#"
  | .type t => showMods t.mod ++ "/" ++ showLayer t.layer

/-- options field: comma separated; `X=<targ>+<targ>..` are the explicit template arguments of the call, everything
    else (`D`, `P=<call path>`) changes how the candidates are declared, not which candidates there are -/
def parseExplicit (opts : String) : Option (List TArg) :=
  match (opts.splitOn ",").filter (·.startsWith "X=") with
  | [] => some []
  | [x] => sequenceOpt (((x.drop 2).toString.splitOn "+").map parseTArg)
  | _ => none

def TCand.toCand? (c : TCand) : Option Cand :=
  if c.tkinds.isEmpty then
    (sequenceOpt (c.params.map fun p => match p.pat with | .conc t => some (⟨t, p.io⟩ : Param) | _ => none)).map
      fun ps => ⟨c.id, ps, c.nonDefault⟩
  else none

def showSelected (cands : List TCand) (explicit : List TArg) (a : List ETy) (id : Nat) : String :=
  match cands.find? (·.id == id) with
  | some c =>
    if c.tkinds.isEmpty then "sel " ++ toString id
    else match c.targs explicit a with
      | some targs => "sel " ++ toString id ++ "<" ++ "+".intercalate (targs.map showTArg) ++ ">"
      | none => "model-internal-mismatch"
  | none => "model-internal-mismatch"

/-- the answer for one call that sees `cands` (the literal transcription answers; the forms the theorems are about
    must agree) -/
def callString (cands : List TCand) (explicit : List TArg) (a : List ETy) : String :=
    -- outside the protocol's type language (an array of a non-scalar)
    let unsupported := cands.any fun c =>
      a.length ≤ c.params.length && c.nonDefault ≤ a.length &&
        (match c.inst explicit a with | .error e => e.startsWith "unsupported" | _ => false)
    if unsupported then "unsupported: array of a non-scalar" else
    let o := resolveTLazy cands explicit a
    if o != resolveT cands explicit a then "model-internal-mismatch" else
    -- without templates this is the model of the first round (Thm.C16.resolveG_of_plain)
    let plainOk := match sequenceOpt (cands.map TCand.toCand?) with
      | some plain => explicit != [] || (resolveLazy plain a == o && resolve plain a == o)
      | none => true
    if !plainOk then "model-internal-mismatch" else
    -- `write_function` / `write_method`: the casts are applied and the output arguments of the selected overload checked
    match (finishCall cands explicit a o).normalize with
    | .accepted id => showSelected cands explicit a id
    | .refused .lvalueRequired => "lvreq"
    | .refused .mutableRequired => "mutreq"
    | .ambiguous ids => showOutcome (.ambiguous ids)
    | .unmatched => showOutcome .unmatched
    -- a selected id without viable casts contradicts `Thm.C16.selectedG_is_viable`
    | .panic => if o == .panic then showOutcome .panic else "model-internal-mismatch"

def handleResolve (cs az opts : String) : String :=
  match sequenceOpt ((if cs.isEmpty then [] else cs.splitOn ";").map parseTCand),
        sequenceOpt ((if az.isEmpty then [] else az.splitOn ",").map parseETy),
        parseExplicit opts with
  | some cands, some a, some explicit => callString cands explicit a
  | _, _, _ => "bad-request"

def parseArgs (az : String) : Option (List ETy) :=
  sequenceOpt ((if az.isEmpty then [] else az.splitOn ",").map parseETy)

/-- one item of a `C16.seq` request (formats in harness/src/c16.rs) -/
def parseItem (s : String) : Option SeqItem :=
  match s.splitOn "~" with
  | ["d", sc, c] => do pure (.decl (← sc.toNat?) (← parseTCand c))
  | ["r", id] => id.toNat?.map .define
  | ["r", id, nd] => do pure (.redecl (← id.toNat?) (← nd.toNat?))
  | ["p", id, nd] => do pure (.redecl (← id.toNat?) (← nd.toNat?))
  | ["c", m, az, ts] => do
    let x ← if ts.isEmpty then some [] else sequenceOpt ((ts.splitOn "+").map parseTArg)
    pure (.site (← m.toNat?) x (← parseArgs az))
  | ["h", j, m, az] => do pure (.helper (← j.toNat?) (← m.toNat?) (← parseArgs az))
  -- the call stands in a method of a struct template instead of a function template: the same for the model
  | ["s", j, m, az] => do pure (.helper (← j.toNat?) (← m.toNat?) (← parseArgs az))
  | ["t", j, "i"] => j.toNat?.map (.trigger · 0)
  | ["t", j, "f"] => j.toNat?.map (.trigger · 1)
  | ["o", sc, k] => do
    let kind ← match k with
      | "s" => some OtherKind.struct | "e" => some .enum | "t" => some .typedef | "b" => some .cbuffer
      | "n" => some .namespace | _ => none
    pure (.other (← sc.toNat?) kind)
  | _ => none

def parseSeqPath (s : String) : Option SeqPath :=
  if s.isEmpty then some .free else if s == "P=M" || s == "P=U" then some .method
  else if s.startsWith "P=A." then some .intrinsic else none

/-- `runSeq` with the answers as the protocol prints them: the state machine of `Model.OverloadSeq` decides what each
    call sees and whether an instance is built (`runSeq`); the text of a verdict is `callString` on that visible list -/
def seqStrings (p : SeqPath) (structHelpers : List Nat) (st : SeqState) : List SeqItem → List String
  | [] => []
  | i :: is =>
    let (st', o) := seqStep p st i
    let here : List String :=
      match o, i with
      | none, _ => []
      | some .noname, _ => ["noname"]
      | some .cached, _ => ["="]
      | some .isType, .site .. => ["type"]
      -- whether a body whose call became a constructor expression is accepted (and the instance then has a body) is
      -- decided by `parse_expr_constructor`, which is not modelled
      | some .isType, _ => ["unsupported: a constructor expression in a template body"]
      | some (.verdict _), .site m x a => [match st.visible p m with | .functions v => callString v x a | _ => "model-internal-mismatch"]
      | some (.verdict _), .trigger j _ =>
        [match lookupHelper j st.helpers with
         | some (m, a) => (match st.visible p m with | .functions v => callString v [] a | _ => "model-internal-mismatch")
         | none => "model-internal-mismatch"]
      | some (.verdict _), _ => ["model-internal-mismatch"]
    -- a call refused inside a method body of a struct template is reported at the use of the template, without the reason
    let here := match i with
      | .trigger j _ =>
        if structHelpers.contains j then here.map fun s => if s.startsWith "sel " || s == "=" || s.startsWith "unsupported" then s else "rej"
        else here
      | _ => here
    here ++ seqStrings p structHelpers st' is

def handleSeq (body opts : String) : String :=
  match sequenceOpt ((body.splitOn "|").map parseItem), parseSeqPath opts with
  | some items0, some p =>
    -- a later declaration of a function template whose parameter types mention a template parameter is one more overload
    let items := elaborate items0
    let structHelpers := (body.splitOn "|").filterMap fun s =>
      match s.splitOn "~" with | ["s", j, _, _] => j.toNat? | _ => none
    let out := seqStrings p structHelpers (SeqState.init p items) items
    -- as many answers as `runSeq` has observations
    -- the walk that carries the instantiation registry from call to call shows the same (Thm.C16.registry_is_transparent)
    let ids := (allDeclared items).map (·.id)
    if ids.eraseDups.length == ids.length && runSeqR p items != runSeq p items then "model-internal-mismatch"
    else if out.length != (runSeq p items).length then "model-internal-mismatch"
    else match out.find? (·.startsWith "unsupported") with
      | some u => u
      | none => " | ".intercalate out
  | _, _ => "bad-request"

def handle (op : String) (args : List String) : String :=
  match op, args with
  | "C16.resolve", [cs, az, opts] => handleResolve cs az opts
  | "C16.resolve", [cs, az] => handleResolve cs az ""
  | "C16.seq", [body, opts] => handleSeq body opts
  | "C16.seq", [body] => handleSeq body ""
  | "C16.conv", [src, dsts] =>
    match parseETy src, sequenceOpt ((dsts.splitOn " ").map parseETy) with
    | some s, some ds => " ".intercalate (ds.map (convCell s))
    | _, _ => "bad-request"
  | _, _ => "unsupported-op"

end RsslVerif.Driver.C16

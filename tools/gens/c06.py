"""Gen.SlotCompile: how compile()/build_pipeline drive the slot allocator once per pipeline on the unbound module,
and how both exporters turn the bound module into the reflection metadata (what C06 is observed through).

Every fact is the answer to "does the whitespace-normalised, comment-stripped source still contain exactly this
statement sequence?".  `Model/SlotsCompile.lean` mirrors these statements; `Thm.C06.compile_shape_as_modelled`
demands every fact to be true, so a reshaped driver (for instance a bound module cached across pipelines) breaks it.
"""
import re


def register(gen, T):

    @gen("SlotCompile")
    def slot_compile():
        from rustsrc import ExtractError, fn_body, impl_fn_body, normws
        compile_rs = T.src("src/compile.rs")
        ir_module = T.src("ir/src/ir_module.rs")
        hlsl = T.src("hlsl/src/ast_generate.rs")
        msl = T.src("msl/src/generator/pipeline.rs")
        msl_lib = T.src("msl/src/lib.rs")
        simplify = T.src("ir/src/simplify_cbuffers.rs")

        comp = normws(fn_body(compile_rs, "compile"))
        bp = normws(fn_body(compile_rs, "build_pipeline"))
        m = re.search(r'\bfn\s+build_pipeline\s*\((.*?)\)\s*->\s*([^{]*)\{', compile_rs, re.S)
        if not m:
            raise ExtractError("signature of build_pipeline not found")
        sig = normws(m.group(1)) + " -> " + normws(m.group(2))
        sel = normws(impl_fn_body(ir_module, r'Module', "select_pipeline"))
        assign = normws(fn_body(ir_module, "assign_api_bindings"))
        h_gen = normws(fn_body(hlsl, "generate_module"))
        h_an = normws(fn_body(hlsl, "analyse_bindings"))
        h_inl = normws(fn_body(hlsl, "generate_inline_constant_buffers"))
        h_reg = normws(fn_body(hlsl, "register_binding"))
        m_pipe = normws(fn_body(msl, "generate_pipeline"))
        m_an = normws(fn_body(msl, "analyse_bindings"))
        m_reg = normws(fn_body(msl, "register_binding"))
        m_fin = normws(fn_body(msl, "finish"))
        m_exp = normws(fn_body(msl_lib, "export_to_msl"))
        simp = normws(fn_body(simplify, "simplify_cbuffers"))
        ty_globals = normws(T.src("typer/src/typer/globals.rs"))
        ty_pipes = normws(fn_body(T.src("typer/src/typer/pipelines.rs"), "parse_pipeline"))
        ty_src = T.src("typer/src/typer/globals.rs")
        ty_gv = normws(fn_body(ty_src, "parse_rootdefinition_globalvariable"))
        ty_cb = normws(fn_body(ty_src, "parse_rootdefinition_constantbuffer"))
        ty_attr = normws(fn_body(ty_src, "parse_attributes_for_global"))
        ty_insert = normws(fn_body(T.src("typer/src/typer/scopes.rs"), "insert_global"))

        # the annotation loop of one declarator of a global-variable declaration (Model.SlotsFront.annotate)
        gv_ann_loop = (
            "for location_annotation in &global_variable.location_annotations { match location_annotation { "
            "ast::LocationAnnotation::Register(register) => { "
            "let unmodified_base_id = context.module.type_registry.remove_modifier(base_id); "
            "let unmodified_base_tyl = context .module .type_registry .get_type_layer(unmodified_base_id); "
            "if let ir::TypeLayer::Object(ot) = unmodified_base_tyl && let Some(expected_slot_type) = ot.get_register_type() { "
            "let index = if let Some(slot) = &register.slot { if slot.slot_type != expected_slot_type { "
            "return Err(TyperError::InvalidRegisterType( slot.slot_type, expected_slot_type, name.location, )); } "
            "Some(slot.index) } else { None }; "
            "let new_binding = ir::LanguageBinding { set: register.space, index, }; "
            "if gv_ir.lang_slot != ir::LanguageBinding::default() && gv_ir.lang_slot != new_binding { "
            "return Err(TyperError::InvalidRegisterAnnotation( type_id, name.location, )); } "
            "gv_ir.lang_slot = new_binding; } else { "
            "return Err(TyperError::InvalidRegisterAnnotation( type_id, name.location, )); } } "
            "ast::LocationAnnotation::PackOffset(_) => { return Err(TyperError::UnexpectedPackOffset(name.location)); } "
            "ast::LocationAnnotation::Semantic(_) => { return Err(TyperError::UnexpectedSemantic(name.location)); } } }")
        # what follows it up to the end of the function (Model.SlotsFront.applyOverrides, the static-sampler check)
        gv_tail = (
            " if let Some(binding_index) = attribute_result.binding_index_override { gv_ir.lang_slot.index = Some(binding_index); } "
            "if let Some(binding_group) = attribute_result.binding_group_override { gv_ir.lang_slot.set = Some(binding_group); } "
            "gv_ir.init = var_init; gv_ir.static_sampler = static_sampler; gv_ir.constexpr_value = evaluated_value; "
            "gv_ir.is_bindless = attribute_result.is_bindless; "
            "if gv_ir.static_sampler.is_some() && gv_ir.lang_slot.index.is_some() { "
            "return Err(TyperError::StaticSamplerUnexpectedBindingIndex( name.location, )); } "
            "defs.push(ir::RootDefinition::GlobalVariable(var_id)); } Ok(defs)")
        ATTR_FN = ('let mut result = GlobalAttributeResult { binding_index_override: None, binding_group_override: None, is_bindless: false, }; for attribute in attributes { match attribute.name.as_slice() { [namespace, leaf] => { match namespace.node.as_str() { "rssl" => { match leaf.as_str() { "bind_group" => { if attribute.arguments.len() == 1 { let group_index = parse_expr_as_u32(&attribute.arguments[0], context)?; result.binding_group_override = Some(group_index); } else { return Err( TyperError::GlobalAttributeUnexpectedArgumentCount( leaf.node.clone(), leaf.location, ), ); } } "bindless" => { if attribute.arguments.is_empty() { result.is_bindless = true; } else { return Err( TyperError::GlobalAttributeUnexpectedArgumentCount( leaf.node.clone(), leaf.location, ), ); } } _ => { return Err(TyperError::GlobalAttributeUnknown( leaf.node.clone(), leaf.location, )); } } } "vk" => { match leaf.as_str() { "binding" => { if attribute.arguments.len() == 1 { let binding_index = parse_expr_as_u32(&attribute.arguments[0], context)?; result.binding_index_override = Some(binding_index); } else if attribute.arguments.len() == 2 { let binding_index = parse_expr_as_u32(&attribute.arguments[0], context)?; let group_index = parse_expr_as_u32(&attribute.arguments[1], context)?; result.binding_index_override = Some(binding_index); result.binding_group_override = Some(group_index); } else { return Err( TyperError::GlobalAttributeUnexpectedArgumentCount( leaf.node.clone(), leaf.location, ), ); } } _ => { return Err(TyperError::GlobalAttributeUnknown( leaf.node.clone(), leaf.location, )); } } } _ => { return Err(TyperError::GlobalAttributeUnknown( namespace.node.clone(), namespace.location, )); } } } [first, ..] => { return Err(TyperError::GlobalAttributeUnknown( first.node.clone(), first.location, )); } _ => panic!("Attribute with no name"), } } Ok(result)')
        U32_FN = ('let expr_ir = parse_expr(expr, context)?.0; let evaluated = match evaluate_constexpr(&expr_ir, &mut context.module) { Ok(value) => value, Err(_) => return Err(TyperError::ExpressionIsNotConstantExpression(expr.location)), }; let value = match evaluated.to_uint64() { Some(v) if v <= u32::MAX as u64 => v as u32, _ => return Err(TyperError::ExpressionIsNotConstantExpression(expr.location)), }; Ok(value)')
        # the storage-class loop of parse_globaltype (Model.SlotsFront.storageLoop / isExternStorage)
        STORAGE_LOOP = ('let mut global_storage = None; for modifier in &global_type.modifiers.modifiers { let next_gs = match &modifier.node { ast::TypeModifier::Extern => ir::GlobalStorage::Extern, ast::TypeModifier::Static => ir::GlobalStorage::Static, ast::TypeModifier::GroupShared => ir::GlobalStorage::GroupShared, _ => continue, }; if let Some((current_gs, current_source)) = global_storage { if current_gs == next_gs { } else { return Err(TyperError::ModifierConflict( modifier.node, modifier.location, current_source, )); } } else { global_storage = Some((next_gs, modifier.node)); } } let global_storage = global_storage .map(|(gs, _)| gs) .unwrap_or(ir::GlobalStorage::Extern);')
        CB_BINDLESS_TAIL = ('if attribute_result.is_bindless { let location = cb .attributes .iter() .filter_map(|attribute| attribute.name.last()) .find(|leaf| leaf.node == "bindless") .map(|leaf| leaf.location) .unwrap_or(cb_ir.name.location); return Err(TyperError::GlobalAttributeUnknown( String::from("bindless"), location, )); } cb_ir.members = members; context.insert_cbuffer(id)?; Ok(ir::RootDefinition::ConstantBuffer(id))')
        def lang_binding_writers():
            import os
            assigns, inits = [], []
            for top in ["typer/src", "ir/src", "src", "hlsl/src", "msl/src", "parser/src", "ast/src"]:
                root = os.path.join(T.REPO, top)
                for dirpath, _, files in sorted(os.walk(root)):
                    for fn in sorted(files):
                        if not fn.endswith(".rs"):
                            continue
                        rel = os.path.relpath(os.path.join(dirpath, fn), T.REPO)
                        text = normws(T.src(rel))
                        n = len(re.findall(r'\blang_(?:slot|binding)(?:\s*\.\s*\w+)?\s*=(?!=)', text))
                        if n:
                            assigns.append((rel, n))
                        for m in re.finditer(r'\blang_(?:slot|binding): ([^,}]*),', text):
                            if m.group(1).strip() != "LanguageBinding":   # the field declarations of the two structs
                                inits.append((rel, m.group(1).strip()))
            return (sorted(assigns), sorted(inits))

        ty_storage = normws(fn_body(ty_src, "parse_globaltype"))
        ty_u32 = normws(fn_body(ty_src, "parse_expr_as_u32"))
        gv_fresh = ("let var_id = context.insert_global(name.clone(), type_id, storage_class)?; "
                    "let gv_ir = &mut context.module.global_registry[var_id.0 as usize]; ")
        cb_ann_loop = (
            "let cb_ir = &mut context.module.cbuffer_registry[id.0 as usize]; "
            "for location_annotation in &cb.location_annotations { match location_annotation { "
            "ast::LocationAnnotation::Register(register) => { "
            "let index = if let Some(slot) = &register.slot { if slot.slot_type != ir::RegisterType::B { "
            "return Err(TyperError::InvalidRegisterType( slot.slot_type, ir::RegisterType::B, cb.name.location, )); }; "
            "Some(slot.index) } else { None }; "
            "let new_binding = ir::LanguageBinding { set: register.space, index, }; "
            "if cb_ir.lang_binding != ir::LanguageBinding::default() && cb_ir.lang_binding != new_binding { "
            "return Err(TyperError::UnexpectedRegisterAnnotation( cb_ir.name.location, )); } "
            "cb_ir.lang_binding = new_binding; } "
            "ast::LocationAnnotation::PackOffset(_) => { return Err(TyperError::UnexpectedPackOffset(cb_ir.name.location)); } "
            "ast::LocationAnnotation::Semantic(_) => { return Err(TyperError::UnexpectedSemantic(cb_ir.name.location)); } } } "
            "if let Some(binding_index) = attribute_result.binding_index_override { cb_ir.lang_binding.index = Some(binding_index); } "
            "if let Some(binding_group) = attribute_result.binding_group_override { cb_ir.lang_binding.set = Some(binding_group); } "
            "if attribute_result.is_bindless {")

        # the annotation loop of one MEMBER of a cbuffer (Model.SlotsFront.memberAnnotations): it runs for every member
        # before the block is registered and writes nothing but the member's packoffset
        cb_member_loop = (
            "let mut offset = None; for location_annotation in &def.location_annotations { match location_annotation { "
            "ast::LocationAnnotation::Register(_) => { return Err(TyperError::UnexpectedRegisterAnnotation(name.location)); } "
            "ast::LocationAnnotation::PackOffset(packoffset) => { if offset.is_some() { return Err(TyperError::UnexpectedPackOffset(name.location)); } "
            "offset = Some(packoffset.clone()); } "
            "ast::LocationAnnotation::Semantic(_) => { return Err(TyperError::UnexpectedSemantic(name.location)); } } } "
            "members.push(ir::ConstantVariable { name: name.clone(), type_id, offset, }); } } "
            "let id = ir::ConstantBufferId(context.module.cbuffer_registry.len() as u32);")
        m = re.search(r'let binding_params = match args\.target \{.*?\};', comp)
        binding_params_text = m.group(0) if m else ""

        m = re.search(r'const\s+ARGUMENT_BUFFER_NAMES\s*:\s*&\[&str\]\s*=\s*&\[(.*?)\];', msl, re.S)
        if not m:
            raise ExtractError("ARGUMENT_BUFFER_NAMES not found")
        nbuf = len([x for x in m.group(1).split(',') if x.strip()])

        count_rx = (r'let \(unmodified_id, descriptor_count\) = if let ir::TypeLayer::Array\(inner, len\) = '
                    r'(?:context\.)?module\.type_registry\.get_type_layer\(unmodified_id\) \{ '
                    r'let unmodified_id = (?:context\.)?module\.type_registry\.remove_modifier\(inner\); '
                    r'let len = len\.map\(\|v\| v as u32\); \(unmodified_id, len\) \} else \{ \(unmodified_id, Some\(1\)\) \};')
        facts = [
            # ---- compile(): one immutable type-checked module, no state carried from one pipeline to the next
            ("irIsBoundOnceAndNeverMutable", lambda: re.search(r'let ir = match typer::type_check\(&pl\) \{', comp) is not None
                and "&mut ir" not in comp and "let mut ir" not in comp),
            ("onlyKnownMutableLocals", lambda: re.findall(r'let mut ([a-z_]+)', comp) == ["source_manager", "defines", "output_pipelines"]),
            ("buildCalledTwiceWithTheUnboundIr", lambda: len(re.findall(r'build_pipeline\(', comp)) == 2
                and re.search(r'build_pipeline\( &args, &ir, &source_manager, &binding_params, None, args\.source_info, \)\?', comp) is not None
                and re.search(r'build_pipeline\( &args, &ir, &source_manager, &binding_params, Some\(pipeline\), args\.source_info, \)\?', comp) is not None),
            ("noPipelineModeOrLoopInOrder", lambda: re.search(r'if args\.no_pipeline_mode \{ output_pipelines\.push\(build_pipeline\(', comp) is not None
                and re.search(r'\} else \{ for pipeline in &ir\.pipelines \{ if let Some\(name\) = args\.pipeline_name && pipeline\.name\.node != name \{ continue; \} output_pipelines\.push\(build_pipeline\(', comp) is not None),
            ("nameChecksAfterTheLoop", lambda: re.search(
                r'if let Some\(name\) = args\.pipeline_name \{ if output_pipelines\.len\(\) > 1 \{ panic!\("Multiple pipelines with the given name: \{\}", name\); \} '
                r'if output_pipelines\.is_empty\(\) \{ return Err\(CompileError::Text\(format!\( "Shader does not contain the pipeline: \{\}", name \)\)\); \} \} '
                r'else if output_pipelines\.is_empty\(\) && !args\.no_pipeline_mode \{ return Err\(CompileError::Text\(String::from\( "Shader does not contain a single pipeline", \)\)\); \} '
                r'Ok\(output_pipelines\)$', comp) is not None),
            ("bufferAddressNeedsVulkan", lambda: comp.startswith(
                "if args.support_buffer_address && !matches!(args.target, Target::HlslForVulkan) { return Err(CompileError::InvalidArgs); }")),
            # ---- build_pipeline(): clone of the unbound module, select by name, assign unconditionally, export the bound module
            ("buildSignatureHasNoSharedState", lambda: sig ==
                "args: &CompileArgs, ir: &ir::Module, source_manager: &text::SourceManager, binding_params: &AssignBindingsParams, "
                "pipeline: Option<&ir::PipelineDefinition>, source_info: bool, -> Result<CompiledPipeline, CompileError>"),
            ("buildClonesSelectsAssigns", lambda: bp.startswith(
                "let ir = ir.clone(); let ir = if let Some(pipeline) = pipeline { ir.select_pipeline(&pipeline.name).unwrap() } else { ir }; "
                "let ir = ir.assign_api_bindings(binding_params);")),
            ("assignCalledExactlyOnce", lambda: len(re.findall(r'assign_api_bindings', normws(compile_rs))) == 1),
            ("exportersReadTheBoundModule", lambda: len(re.findall(r'export_to_hlsl\(&ir, matches!\(args\.target, Target::HlslForVulkan\)\)', bp)) == 1
                and len(re.findall(r'msl::export_to_msl\(&ir\)', bp)) == 1
                and len(re.findall(r'\bir\b', bp.split("let ir = ir.assign_api_bindings(binding_params);", 1)[1])) == 2),
            ("metadataIsTheExportersDescription", lambda: len(re.findall(r'metadata: exported_source\.pipeline_description,', bp)) == 2),
            # ---- Module::select_pipeline and the guard of assign_api_bindings
            ("selectPipelineShape", lambda: sel ==
                "let mut selected = None; for (i, pipeline) in self.pipelines.iter().enumerate() { if pipeline.name.node == name { "
                "assert_eq!(selected, None); selected = Some(i); } } selected?; let mut output = self.clone(); "
                "output.selected_pipeline = selected; Some(output)"),
            ("assignAssertsUnboundAndMarks", lambda: assign.startswith(
                "assert!(!self.flags.assigned_api_slots); self.flags.assigned_api_slots = true;")),
            ("assignReadsSelectedPipelinesDefault", lambda: re.search(
                r'let default_set = match self\.selected_pipeline \{ Some\(index\) => self\.pipelines\[index\]\.default_bind_group_index, None => 0, \};', assign) is not None),
            ("languageSlotIndexNeverRead", lambda: re.search(r'lang_(slot|binding)\s*\.\s*index', assign) is None
                and len(re.findall(r'lang_slot', assign)) == 1 and len(re.findall(r'lang_binding', assign)) == 1),
            # ---- front end: what an "explicit group" and "the pipeline's default group" are
            ("typerRegisterSpaceIsTheGroup", lambda: len(re.findall(
                r'let new_binding = ir::LanguageBinding \{ set: register\.space, index, \};', ty_globals)) == 2),
            ("typerAttributeOverridesTheGroup", lambda: re.search(
                r'if let Some\(binding_group\) = attribute_result\.binding_group_override \{ gv_ir\.lang_slot\.set = Some\(binding_group\); \}', ty_globals) is not None
                and re.search(r'if let Some\(binding_group\) = attribute_result\.binding_group_override \{ cb_ir\.lang_binding\.set = Some\(binding_group\); \}', ty_globals) is not None
                and ty_globals.find("gv_ir.lang_slot = new_binding;") < ty_globals.find("gv_ir.lang_slot.set = Some(binding_group);")
                and ty_globals.find("cb_ir.lang_binding = new_binding;") < ty_globals.find("cb_ir.lang_binding.set = Some(binding_group);")),
            # ---- front end, per declarator: every declarator of a declaration starts from a FRESH language binding
            # (nothing but the attribute result, the base type and the storage class is computed before the loop over the
            # declarators; the binding that the annotations write is the `lang_slot` of the global `insert_global` has
            # just pushed with `LanguageBinding::default()`; no other local holds binding state)
            ("langSlotFreshPerDeclarator", lambda: ty_gv.startswith(
                "let (base_id, storage_class) = parse_globaltype(&gv.global_type, context)?; "
                "let attribute_result = parse_attributes_for_global(&gv.attributes, context)?; "
                "let mut defs = vec![]; for global_variable in &gv.defs {")
                and re.findall(r'let mut (\w+)', ty_gv) == ["defs"]
                and len(re.findall(r'\bfor\b', ty_gv)) == 2
                and len(re.findall(r'LanguageBinding', ty_gv)) == 2
                and len(re.findall(r'lang_slot', ty_gv)) == len(re.findall(r'gv_ir\.lang_slot', ty_gv)) == 6
                and len(re.findall(r'\bgv_ir\b', ty_gv)) == 6 + 6
                and ty_gv.count(gv_fresh + "for location_annotation in &global_variable.location_annotations {") == 1
                and len(re.findall(r'global_registry', ty_gv)) == 1
                and re.search(r'let id = ir::GlobalId\(self\.module\.global_registry\.len\(\) as u32\); '
                              r'self\.module\.global_registry\.push\(ir::GlobalVariable \{[^}]*lang_slot: ir::LanguageBinding::default\(\),[^}]*\}\);',
                              ty_insert) is not None
                and len(re.findall(r'global_registry\.push', ty_insert)) == 1
                and re.search(r'Ok\(id\)$', ty_insert) is not None),
            # nobody else writes a language binding: assignments only in globals.rs (the six mirrored ones), struct-literal
            # initialisations only `default()` (new global, new cbuffer, intrinsic globals) or the cbuffer's own binding
            # (simplify_cbuffers)
            ("langBindingHasNoOtherWriter", lambda: lang_binding_writers() == (
                [("typer/src/typer/globals.rs", 6)],
                [("ir/src/intrinsic_data.rs", "LanguageBinding::default()"),
                 ("ir/src/simplify_cbuffers.rs", "cbuffer.lang_binding"),
                 ("typer/src/typer/globals.rs", "ir::LanguageBinding::default()"),
                 ("typer/src/typer/scopes.rs", "ir::LanguageBinding::default()")])),
            ("annotationLoopShape", lambda: ty_gv.count(gv_ann_loop) == 1),
            ("attributeOverridesAfterAnnotations", lambda: ty_gv.endswith(gv_ann_loop + gv_tail)),
            ("staticSamplerNeedsExtern", lambda: re.search(
                r'if let Some\(ast::Initializer::StaticSampler\(properties\)\) = &global_variable\.init \{ var_init = None; '
                r'static_sampler = Some\(super::pipelines::parse_static_sampler\(properties, context\)\?\); '
                r'if storage_class != ir::GlobalStorage::Extern \{ return Err\(TyperError::StaticSamplerUnexpectedStorageClass\( name\.location, \)\); \} \} '
                r'else \{ var_init = parse_initializer_opt\(', ty_gv) is not None
                and ty_gv.find("StaticSamplerUnexpectedStorageClass") < ty_gv.find("context.insert_global(")),
            # the whole attribute loop, statement by statement (Model.SlotsFront.attrLoop / attrStep): the result starts
            # empty, every well-formed attribute overwrites its field(s), every other shape returns an error
            ("attributeFoldLaterWins", lambda: ty_attr == ATTR_FN and ty_u32 == U32_FN),
            ("storageClassLoopShape", lambda: ty_storage.count(STORAGE_LOOP) == 1
                and ty_storage.startswith("let mut ty = parse_type_for_usage(global_type, TypePosition::Global, context)?; " + STORAGE_LOOP)
                and ty_storage.endswith("Ok((ty, global_storage))")
                and ty_gv.startswith("let (base_id, storage_class) = parse_globaltype(&gv.global_type, context)?;")
                and len(re.findall(r'storage_class', ty_gv)) == 3),
            ("cbufferAnnotationLoopShape", lambda: ty_cb.count(cb_ann_loop) == 1
                and ty_cb.startswith("let attribute_result = parse_attributes_for_global(&cb.attributes, context)?;")
                and re.search(r'context\.module\.cbuffer_registry\.push\(ir::ConstantBuffer \{[^}]*lang_binding: ir::LanguageBinding::default\(\),[^}]*\}\); '
                              r'let cb_ir = &mut', ty_cb) is not None
                and ty_cb.endswith(cb_ann_loop[-len("if attribute_result.is_bindless {"):] + CB_BINDLESS_TAIL[len("if attribute_result.is_bindless {"):])
                and ty_cb.endswith(CB_BINDLESS_TAIL)
                and len(re.findall(r'lang_binding', ty_cb)) == 6
                and len(re.findall(r'parse_attributes_for_global\(', normws(ty_src))) == 3),
            ("cbufferMemberLoopShape", lambda: ty_cb.count(cb_member_loop) == 1
                and ty_cb.startswith("let attribute_result = parse_attributes_for_global(&cb.attributes, context)?; "
                                     "let cb_name = cb.name.clone(); let mut members = Vec::new(); for member in &cb.members {")
                and ty_cb.find(cb_member_loop) < ty_cb.find(cb_ann_loop)
                and len(re.findall(r'location_annotations', ty_cb)) == 2),
            # the other compile() options never reach the binding: binding_params reads the target and
            # support_buffer_address only, the layout check borrows the module immutably, the defines go to the
            # preprocessor, source_info is handed to build_pipeline which reads it in the MetalBytecode block only
            ("optionsNeverReachBinding", lambda: re.findall(r'args\.[a-z_]+', binding_params_text) == ["args.target", "args.support_buffer_address"]
                and len(re.findall(r'args\.validate_layout_consistency', comp)) == 1
                and "if args.validate_layout_consistency && let Err(err) = ir::layout_checker::check_layout(&ir) { return Err(" in comp
                and re.findall(r'args\.defines', comp) == ["args.defines"] and "defines.extend(args.defines);" in comp
                and len(re.findall(r'source_info', comp)) == 2 and len(re.findall(r'source_info', bp)) == 1
                and bp.find("source_info") > bp.find("Target::MetalBytecode")
                # (`args.push` = the local argument vector of the Metal compiler invocation, which shadows `args` there)
                and sorted(set(re.findall(r'args\.[a-z_]+', bp))) == ["args.push", "args.target"]),
            ("typerDefaultBindGroupProperty", lambda: re.search(r'default_bind_group_index: 0,', ty_pipes) is not None
                and re.search(r'"DefaultBindGroup" => \{ let value = extract_uint32\(&property\.value, context\)\?; pipeline\.default_bind_group_index = value; \}', ty_pipes) is not None
                and len(re.findall(r'default_bind_group_index', ty_pipes)) == 2),
            # ---- HLSL exporter: metadata entries in root-definition order, grouped by set
            ("hlslAnalysesRootDefinitionsInOrder", lambda: re.search(
                r'for decl in &module\.root_definitions \{ analyse_bindings\(decl, &mut context\)\?; \}', h_gen) is not None
                and h_gen.find("analyse_bindings(decl") < h_gen.find("generate_inline_constant_buffers(")),
            ("hlslCbufferEntry", lambda: re.search(
                r'if let Some\(api_slot\) = cb\.api_binding \{ let binding = DescriptorBinding \{ name: context\.get_constant_buffer_name\(\*id\)\?\.to_string\(\), '
                r'api_binding: api_slot\.location, descriptor_type: DescriptorType::ConstantBuffer, descriptor_count: Some\(1\),.*?\}; '
                r'context\.register_binding\(api_slot\.set, binding\); \}', h_an) is not None),
            ("hlslGlobalEntry", lambda: re.search(
                r'if let Some\(api_slot\) = decl\.api_slot \{ let binding = DescriptorBinding \{ name: context\.get_global_name\(\*id\)\?\.to_string\(\), '
                r'api_binding: api_slot\.location, descriptor_type, descriptor_count,.*?\}; context\.register_binding\(api_slot\.set, binding\); \}', h_an) is not None),
            ("hlslCountIsArrayLength", lambda: re.search(count_rx, h_an) is not None),
            ("hlslRegisterBindingShape", lambda: h_reg ==
                "let group_index = group_index as usize; if group_index >= self.pipeline_description.bind_groups.len() { "
                "self.pipeline_description.bind_groups.resize( group_index + 1, BindGroup { bindings: Vec::new(), inline_constants: None, }, ) } "
                "self.pipeline_description.bind_groups[group_index] .bindings .push(binding);"),
            ("hlslInlineBlockAttachedToItsGroup", lambda: h_inl.startswith(
                "for buffer in inline_constant_buffers { let bind_group = &mut context.pipeline_description.bind_groups[buffer.set as usize];")
                and re.search(r'assert_eq!\(bind_group\.inline_constants, None\); bind_group\.inline_constants = Some\(InlineConstantBuffer \{ '
                              r'api_location: buffer\.api_location, size_in_bytes: buffer\.size_in_bytes, \}\); \} Ok\(\(\)\)$', h_inl) is not None),
            # ---- MSL exporter: cbuffers become globals in place, entries in root-definition order, group limit, stable sort by index
            ("mslSimplifiesCbuffersOnAClone", lambda: m_exp.startswith(
                "let mut module = module.clone(); rssl_ir::simplify_cbuffers(&mut module);")),
            ("cbufferKeepsItsBindingAndPlace", lambda: re.search(r'lang_slot: cbuffer\.lang_binding, api_slot: cbuffer\.api_binding,', simp) is not None
                and re.search(r'for def in std::mem::take\(&mut module\.root_definitions\) \{ match def \{ RootDefinition::ConstantBuffer\(id\) => \{ '
                              r'let \(global_id, struct_id\) = \*cbuffer_to_globals\.get\(&id\)\.unwrap\(\); new_definitions\.push\(RootDefinition::Struct\(struct_id\)\); '
                              r'new_definitions\.push\(RootDefinition::GlobalVariable\(global_id\)\); \} _ => new_definitions\.push\(def\), \} \} '
                              r'module\.root_definitions = new_definitions;', simp) is not None),
            ("mslAnalysesRootDefinitionsInOrder", lambda: m_pipe.startswith(
                "let mut binding_layout = PipelineBindingLayout::default(); for decl in &context.module.root_definitions { "
                "analyse_bindings(decl, context, &mut binding_layout)?; }")),
            ("mslGlobalEntry", lambda: re.search(
                r'if let Some\(api_slot\) = decl\.api_slot \{ let binding = DescriptorBinding \{ name: context\.get_global_name\(\*id\)\?\.to_string\(\), '
                r'api_binding: api_slot\.location, descriptor_type, descriptor_count,.*?\}; '
                r'if api_slot\.set as usize >= ARGUMENT_BUFFER_NAMES\.len\(\) \{ return Err\(GenerateError::UnsupportedBindGroupIndex\(api_slot\.set\)\); \} '
                r'layout\.register_binding\(api_slot\.set, binding, \*id\); \}', m_an) is not None),
            ("mslCountIsArrayLength", lambda: re.search(count_rx, m_an) is not None),
            ("mslRegisterBindingShape", lambda: m_reg ==
                "let group_index = group_index as usize; if group_index >= self.0.len() { self.0 .resize_with(group_index + 1, ArgumentBufferLayout::default) } "
                "self.0[group_index].0.push(ArgumentBufferEntry { metadata: binding, id, });"),
            ("mslSortsEachGroupByIndex", lambda: re.search(
                r'for \(i, argument_buffer\) in binding_layout\.0\.iter_mut\(\)\.enumerate\(\) \{ argument_buffer\.0\.sort_by\(\|lhs, rhs\| \{ '
                r'let index_lhs = match lhs\.metadata\.api_binding \{ ApiLocation::Index\(i\) => i, ApiLocation::InlineConstant\(_\) => panic!\(\), \}; '
                r'let index_rhs = match rhs\.metadata\.api_binding \{ ApiLocation::Index\(i\) => i, ApiLocation::InlineConstant\(_\) => panic!\(\), \}; '
                r'std::cmp::Ord::cmp\(&index_lhs, &index_rhs\) \}\);', m_pipe) is not None),
            ("mslFinishKeepsOrderAndHasNoInlineBlock", lambda: m_fin ==
                "PipelineDescription { bind_groups: self .0 .into_iter() .map(|set| BindGroup { bindings: set .0 .into_iter() "
                ".map(|binding| binding.metadata) .collect::<Vec<_>>(), inline_constants: None, }) .collect::<Vec<_>>(), }"),
        ]
        out = [T.header("SlotCompile", ["src/compile.rs", "ir/src/ir_module.rs", "ir/src/simplify_cbuffers.rs",
                                        "hlsl/src/ast_generate.rs", "msl/src/lib.rs", "msl/src/generator/pipeline.rs"])]
        out.append("/-- number of argument buffers the Metal exporter can name (`ARGUMENT_BUFFER_NAMES.len()`) -/\n")
        out.append(f"def argumentBufferCount : Nat := {nbuf}\n\n")
        out.append("/-- syntactic facts about compile()/build_pipeline/select_pipeline and the metadata construction of both exporters "
                   "that `Model.SlotsCompile` mirrors (each is a comparison with the comment-stripped, whitespace-normalised source) -/\n")
        out.append("structure CompileShape where\n" + "".join(f"  {k} : Bool\n" for k, _ in facts) + "  deriving DecidableEq, Repr\n\n")
        vals = []
        for k, f in facts:
            try:
                v = bool(f())
            except (IndexError, ValueError, TypeError):
                v = False
            vals.append(f"{k} := {'true' if v else 'false'}")
        out.append("def compileShape : CompileShape := { " + ", ".join(vals) + " }\n\n")
        out.append("def compileShapeExpected : CompileShape := { " + ", ".join(f"{k} := true" for k, _ in facts) + " }\n")
        out.append(T.footer("SlotCompile"))
        return "".join(out)

"""C19 — layout-consistency validation is sound."""
import re

T = "RsslVerif.Thm.C19."


# ---------------------------------------------------------------- type syntax (same as harness/src/c19.rs)
def tokens(s):
    return re.findall(r"[{}\[\]]|[^\s{}\[\]]+", s)


def parse(toks, i=0):
    t = toks[i]
    if t == "{":
        ms, i = [], i + 1
        while toks[i] != "}":
            m, i = parse(toks, i)
            ms.append(m)
        return ("s", ms), i + 1
    if t == "[":
        n = int(toks[i + 1])
        e, i = parse(toks, i + 2)
        assert toks[i] == "]"
        return ("a", n, e), i + 1
    return ("l", t), i + 1


def show(t):
    if t[0] == "s":
        return "{" + " ".join(show(m) for m in t[1]) + "}"
    if t[0] == "a":
        return "[%d %s]" % (t[1], show(t[2]))
    return t[1]


def smaller(t):
    """structurally smaller variants of one type"""
    if t[0] == "s":
        ms = t[1]
        if len(ms) > 1:
            for i in range(len(ms)):
                yield ("s", ms[:i] + ms[i + 1:])
        for i, m in enumerate(ms):
            if m[0] == "s":                      # splice a nested struct's members / keep only it
                yield ("s", ms[:i] + m[1] + ms[i + 1:])
                yield m
            for v in smaller(m):
                if not (v[0] == "s" and not v[1]):
                    yield ("s", ms[:i] + [v] + ms[i + 1:])
    elif t[0] == "a":
        yield t[2]
        if t[1] > 1:
            yield ("a", t[1] - 1, t[2])
        for v in smaller(t[2]):
            yield ("a", t[1], v)
    else:
        w = t[1]
        if "$" in w:                            # a reference into the type table: see shrink_prog
            return
        if len(w) == 2 and w[1].isdigit():      # vector: fewer components, then the scalar
            if int(w[1]) > 2:
                yield ("l", w[0] + str(int(w[1]) - 1))
            yield ("l", w[0])
        elif w in ("ei", "eu"):
            yield ("l", "i")
        elif len(w) >= 4 and w[2] == "x":       # matrix: drop the modifier, then a vector, then the scalar
            if len(w) == 5:
                yield ("l", w[:4])
            yield ("l", w[0] + w[1])
            yield ("l", w[0])
        elif w.startswith("?"):
            yield ("l", "f")


def shrink_types(tys):
    """structurally smaller variants of one entry of a `;`-separated type list"""
    for i, ty in enumerate(tys):
        try:
            t, _ = parse(tokens(ty))
        except Exception:
            continue
        for v in smaller(t):
            yield tys[:i] + [show(v)] + tys[i + 1:]


REF = re.compile(r"(c?)\$(\d+)")


def refs_of(ty):
    return {int(m.group(2)) for m in REF.finditer(ty)}


def drop_entry(tys, sites, k):
    """the request without entry k of the type table (nothing may refer to it): later indices move down"""
    def down(j):
        return j - (1 if j > k else 0)
    nt = [REF.sub(lambda m: "%s$%d" % (m.group(1), down(int(m.group(2)))), t) for i, t in enumerate(tys) if i != k]
    ns = []
    for x in sites:
        a, b = x.split("@")
        ns.append("%s@%d" % (a, down(int(b))))
    return nt, ns


def shrink_prog(f):
    head, tys, sites = f[1], f[2].split(";"), f[3].split(",")
    target, mode, style = head.split(":")
    shared = any("$" in t for t in tys)
    # plain spelling, Vulkan, no pipeline
    if style != "0":
        yield "\t".join([f[0], ":".join([target, mode, "0"]), f[2], f[3]])
    if mode != "np":
        yield "\t".join([f[0], ":".join([target, "np", style]), f[2], f[3]])
    if target != "vk":
        yield "\t".join([f[0], ":".join(["vk", mode, style]), f[2], f[3]])
    # fewer sites
    if len(sites) > 1:
        for i in range(len(sites)):
            yield "\t".join([f[0], head, f[2], ",".join(sites[:i] + sites[i + 1:])])
    # drop a type nobody uses: no site and no other entry of the table (re-index the sites and the references)
    used = {int(x.split("@")[1]) for x in sites}
    for t in tys:
        used |= refs_of(t)
    for k in range(len(tys)):
        if k not in used and len(tys) > 1:
            nt, ns = drop_entry(tys, sites, k)
            yield "\t".join([f[0], head, ";".join(nt), ",".join(ns)])
    if shared:
        # a site at another name of the same type (`$j` / `c$j` as a whole entry) -> at the type itself
        for i, x in enumerate(sites):
            a, b = x.split("@")
            m = REF.fullmatch(tys[int(b)].strip())
            if m:
                yield "\t".join([f[0], head, f[2], ",".join(sites[:i] + ["%s@%s" % (a, m.group(2))] + sites[i + 1:])])
        # a copy instead of the shared definition: one reference at a time
        for k, t in enumerate(tys):
            for m in REF.finditer(t):
                if m.group(1) == "" and not REF.fullmatch(t.strip()):
                    yield "\t".join([f[0], head, ";".join(tys[:k] + [t[:m.start()] + tys[int(m.group(2))] + t[m.end():]] + tys[k + 1:]), f[3]])
    for v in shrink_types(tys):
        yield "\t".join([f[0], head, ";".join(v), f[3]])


def shrink(req):
    f = req.split("\t")
    if f[0] == "C19.prog" and len(f) == 4:
        yield from shrink_prog(f)
        return
    if len(f) != 3:
        return
    tys = f[2].split(";")
    if f[1] != "sb":
        yield "\t".join([f[0], "sb", f[2]])
    if len(tys) > 1:
        for i in range(len(tys)):
            yield "\t".join(f[:2] + [";".join(tys[:i] + tys[i + 1:])])
    for v in shrink_types(tys):
        yield "\t".join(f[:2] + [";".join(v)])


def nontrivial(req, obs):
    # a struct with at least two members, or nesting / arrays
    f = req.split("\t")
    if f[0] == "C19.prog":
        return len(f) == 4 and f[2].count(" ") >= 1
    return len(f) == 3 and (f[2].count(" ") >= 1)


def finding_key(req, obs, detail):
    """a failure is keyed by the defect class the harness's reference calculators assign
    (`accepted/nested-tail-pad`, `accepted/offsets-only`, `accepted/sizes`, `rejected/nested-tail-pad`,
    `rejected/sizes`, `accepted/empty-struct`, `accepted/site-sbarr`, `accepted/site-sbarr-typedef`, ...); the only
    known finding is the site class `accepted/site-sbmem`."""
    m = re.match(r"FAIL:((?:accepted|rejected)/[a-z-]+)", detail or "")
    if m:
        return m.group(1)
    return req


def search(ctx):
    """small shapes to replay on the implementation after a broken obligation: every struct of 2-3 members
    over a reduced alphabet, alone and nested/arrayed once"""
    leaves = ["h", "f", "d", "h2", "f2", "f3", "f4", "h3", "d2", "ei"]
    out = []
    flat = []
    for a in leaves:
        for b in leaves:
            flat.append("{%s %s}" % (a, b))
            for c in leaves:
                flat.append("{%s %s %s}" % (a, b, c))
    out += flat
    for s in flat[:400]:
        for c in leaves[:6]:
            out.append("{%s %s}" % (s, c))
        out.append("{[2 %s]}" % s)
    reqs = ["C19.check\tsb\t" + t for t in out]
    # every kind of use site with a small differing structure, alone and after an agreeing one
    G = ["sb", "rwsb", "sbc", "sbtd", "sbreg", "sbarr", "rwsbarr", "sbarr2", "sbarru", "sbbl", "sbtdarr", "sbarrtd", "sbarrtd2",
         "sbmulti", "sbns", "sbst", "sbex"]
    F = ["bload", "bload2", "rwbload", "rwbload2", "rwbstore", "rwbstoret", "baload", "rwbaload", "rwbastore", "rwbastoret"]
    W = ["m", "u", "t", "me", "p", "a", "pf", "ns", "lp", "tt", "two", "tm", "mt", "hb"]
    sites = G + [f + "." + w for f in F for w in W]
    sites += [f + "." + w for f in ("bload", "rwbload", "baload", "rwbaload") for w in ("gi", "da", "ex", "pd", "sl")]
    sites += ["bload2.ex", "rwbload2.ex"]
    for tgt in ("vk:np:0", "msl:pipe:0", "dx:np:0", "vk:npo:0", "dx:pname:0"):
        for s in sites:
            for t in ("{f f2}", "{h h2 f}", "{{f2 f} f}"):
                reqs.append("C19.prog\t%s\t%s\t%s@0" % (tgt, t, s))
            reqs.append("C19.prog\t%s\t{f f};{f f2}\tsb@0,%s@1" % (tgt, s))
            reqs.append("C19.prog\t%s\t{f f};{f f2}\tbload.m@0,%s@1" % (tgt, s))
    for t in ("{b b}", "{f f2x2}", "{f3x3}", "{i2x2}", "{f @Texture2D}", "{h b2}", "{{} f}", "{f {}}", "{h {} f}", "{}",
              "{[2 {}] f}", "{[4294967295 f]}", "{[4294967296 f]}", "{[1073741824 f] f}"):
        reqs.append("C19.prog\tvk:np:0\t%s\tsb@0" % t)
    for k in ("bload", "rwbload", "baload", "rwbaload"):
        for w in ("dt", "dta"):
            reqs.append("C19.prog\tvk:np:0\t{f f2}\t%s.%s@0" % (k, w))
            reqs.append("C19.prog\tmsl:pipe:0\t{f f};{f f2}\t%s.%s@0,sb@1" % (k, w))
    # one struct definition shared by two checked structs / used twice in one: a first use whose layout is hidden in
    # padding, then one where it decides (any state kept between the layout queries)
    pre = ["", "h ", "u ", "d "]
    post = ["", " h", " f", " u", " d"]
    for e in ("{}", "{h}", "{f2 f}", "{{}}"):
        for a in pre:
            for b in post:
                for c in pre:
                    for d in post:
                        A, B = "{%s$0%s}" % (a, b), "{%s$0%s}" % (c, d)
                        reqs.append("C19.prog\tvk:np:0\t%s;%s;%s\tsb@1,sb@2" % (e, A, B))
                        if e == "{}":
                            reqs.append("C19.prog\tvk:np:0\t%s;%s;%s\tbload.m@1,rwbload.u@2" % (e, A, B))
                            reqs.append("C19.prog\tvk:np:0\t%s;{%s$0%s %s$0%s}\tsb@1" % (e, a, b, c, d))
    return reqs


# ---------------------------------------------------------------- Lean Spec vs the Rust reference calculators
SC = {"h": "Float16", "i": "Int32", "u": "UInt32", "f": "Float32", "d": "Float64", "b": "Bool"}


def lean_xty(t):
    """parse tree -> term of Spec.LayoutFull.XTy (None: outside XTy)"""
    if t[0] == "s":
        ms = [lean_xty(m) for m in t[1]]
        if None in ms:
            return None
        return "(XS [" + ", ".join(ms) + "])"
    if t[0] == "a":
        e = lean_xty(t[2])
        return None if e is None else "(.arr %s %d)" % (e, t[1])
    w = t[1]
    if w == "ei":
        return "(.enum .Int32)"
    if w == "eu":
        return "(.enum .UInt32)"
    if w[0] not in SC:
        return None
    if len(w) == 1:
        return "(.scalar .%s)" % SC[w]
    if len(w) == 2 and w[1].isdigit():
        return "(.vec .%s %s)" % (SC[w[0]], w[1])
    if len(w) in (4, 5) and w[2] == "x":
        major = {"": ".none", "r": ".row", "c": ".column"}[w[4:]]
        return "(.mat .%s %s %s %s)" % (SC[w[0]], w[1], w[3], major)
    return None


def ref_types():
    leaves = []
    for c in "hiufdb":
        leaves.append(c)
        for n in "1234":
            leaves.append(c + n)
    for c in "hfidb":
        for r in "1234":
            for k in "1234":
                leaves.append(c + r + "x" + k + ("" if (int(r) + int(k)) % 3 else "r"))
    leaves += ["ei", "eu", "{}"]
    out = []
    for x in leaves:
        out += ["{%s}" % x, "{%s f}" % x, "{h %s}" % x, "{[3 %s] i}" % x, "{f {%s} d}" % x, "{[2 [2 %s]] h2}" % x]
    small = ["h", "f", "d", "b", "h2", "h3", "f2", "f3", "f4", "d2", "b2", "b3", "f2x2", "h3x3", "f4x3", "ei", "{}"]
    for a in small:
        for b in small:
            out.append("{%s %s}" % (a, b))
            out.append("{{%s %s} %s}" % (a, b, a))
            out.append("{[2 {%s %s}] {%s} %s}" % (b, a, a, b))
    return out


def cross_check_reference(ctx):
    """the theorems speak about Spec/LayoutFull.lean, the oracle about the calculators in harness/src/c19.rs:
    both are readings of the same two rule sets and must give the same numbers"""
    import os
    import sys
    sys.path.insert(0, os.path.join(os.path.dirname(os.path.dirname(os.path.abspath(__file__))), "tools"))
    import vlib as V
    if not ctx.harness_ok:
        return
    tys = ref_types()
    os.makedirs(os.path.join(V.BUILD, "tmp"), exist_ok=True)
    reqf = os.path.join(V.BUILD, "tmp", "c19-ref-%d.txt" % os.getpid())
    with open(reqf, "w") as f:
        f.write("".join("C19.ref\t%s\n" % t for t in tys))
    cases, _ = ctx.run_harness([ctx.spec["harness"], "--requests", reqf])
    os.unlink(reqf)
    rust = {req.split("\t")[1]: obs for req, obs, _ in cases if req.startswith("C19.ref\t")}
    lines = ["import RsslVerif.Spec.LayoutFull", "open RsslVerif.Gen.LayoutTables RsslVerif.Spec.LayoutFull",
             "def XS (l : List XTy) : XTy := .struct (XTys.ofList l)",
             "def one (m : Mode) (t : XTy) : String :=",
             "  toString (xsize m t) ++ \"/\" ++ toString (xalign m t) ++ \"/\" ++ \",\".intercalate ((xfieldsAt m t 0).map toString)",
             "def both (t : XTy) : String := (if xwf t then \"wf \" else \"nwf \") ++ \"h=\" ++ one .hlsl t ++ \" m=\" ++ one .metal t"]
    asked = []
    for t in tys:
        term = lean_xty(parse(tokens(t))[0])
        if term is not None:
            asked.append(t)
            lines.append("#eval IO.println (both %s)" % term)
    leanf = os.path.join(V.BUILD, "tmp", "c19-ref-%d.lean" % os.getpid())
    with open(leanf, "w") as f:
        f.write("\n".join(lines) + "\n")
    with V.Lock("lean"):
        rc, out = V.sh(["lake", "env", "lean", leanf], cwd=V.LEAN, timeout=1200)
    os.unlink(leanf)
    got = [l for l in out.splitlines() if l.startswith("wf ") or l.startswith("nwf ")]
    bad = []
    if rc != 0 or len(got) != len(asked):
        bad.append("Spec/LayoutFull.lean could not be evaluated (%d answers for %d types): %s" % (len(got), len(asked), out[-200:]))
    else:
        for t, l in zip(asked, got):
            flag, val = l.split(" ", 1)
            r = rust.get(t)
            if r is None:
                bad.append("no answer of the harness for " + t)
            elif "none" in r:
                if flag == "wf":
                    bad.append("%s: Lean Spec has a layout (%s), the Rust reference has none (%s)" % (t, val, r))
            elif r != val:
                bad.append("%s: Lean Spec %s, Rust reference %s" % (t, val, r))
            elif flag == "nwf":
                bad.append("%s: Rust reference has a layout, xwf is false" % t)
    ctx.extra["reference_cross_check"] = {"types": len(asked), "disagreements": len(bad)}
    for b in bad[:5]:
        ctx.broken.append("reference calculators disagree (Spec/LayoutFull.lean vs harness/src/c19.rs): " + b)


def custom(ctx):
    ctx.standard_run()
    cross_check_reference(ctx)


SPEC = {
    "id": "C19",
    "custom": custom,
    "gens": ["LayoutTables", "LayoutSites", "LayoutPurity"],
    "lean_modules": ["RsslVerif.Thm.C19", "RsslVerif.Lemmas.LayoutContext", "RsslVerif.Lemmas.LayoutIgnored"],
    "theorems": [T + n for n in [
        "tables_pinned", "checked_sites", "get_matches_spec", "check_sound_agree", "check_sound",
        "reported_sizes_true", "rejected_differs", "check_complete", "check_total", "check_never_panics",
        "vector_free_agree",
        "agree_iff_same_size_and_offsets", "rejected_really_differs", "check_complete_fields",
        "collection_sites_covered", "diagnostic_pinned", "property_uses_collected_partial", "check_layout_sound_partial",
        "check_layout_reports_true_sizes",
        "layout_functions_are_pure", "layout_is_context_free", "check_layout_order_free",
        "unmatched_sites_ignored",
        "check_sound_full", "reported_sizes_true_full", "check_never_panics_full", "no_layout_no_verdict",
        "no_layout_is_unknown", "check_complete_partial",
        "complete_fails_beyond_plain",
    ]],
    "harness": "c19",
    "nontrivial": nontrivial,
    "finding_key": finding_key,
    "shrink": shrink,
    "search": search,
    "level_text": "Proof about the model of check_layout (collection loops + get_type_layout / offsets_match / final loop; op "
                  "programs, matched object kinds and intrinsics re-extracted from the source each run): for every module, every "
                  "structure used as the element type of a global (RW)StructuredBuffer or of an instantiated typed "
                  "ByteAddressBuffer / BufferAddress load or store is collected, and accepted => the two reference calculators give "
                  "the same total size and the same byte offset for every field recursively; rejected => the reported sizes and "
                  "alignments are the reference ones; over the full type universe (bool, vectors 1-4, matrices of every shape and "
                  "majorness, enums, multi-dimensional arrays, any nesting depth) types without a layout are never accepted; "
                  "agreeing bool/matrix-free types are never rejected (completeness is partial: bool / matrix types are always "
                  "'unknown size'); no panic site fires at all (sizes beyond u32 are 'unknown size' since /repo 24ea36f), no "
                  "'unknown size' while sizes fit u32; empty structs (0 bytes in HLSL, 1 in Metal since /repo d25724e) and "
                  "arrays of structured buffers (collected since /repo d99f90e + bdddd35, whatever modifiers sit between the "
                  "array layers) are covered by the positive theorems. One hole remains, reproduced on the real compiler (known "
                  "finding): a buffer inside a global struct is not collected (the abstract module cannot express it, so the "
                  "collection theorems are named _partial). No state between layout queries: the layout functions are functions "
                  "of (module, type id, packing mode) alone - no &mut parameter, no static / cell / map, read-only module "
                  "accessors (layout_functions_are_pure, from the re-read text), so the verdict for a type does not depend on what "
                  "was laid out or checked before it and acceptance does not depend on the order of the declarations "
                  "(layout_is_context_free, check_layout_order_free); the correspondence run exercises exactly that on the real "
                  "compiler with type tables that SHARE struct / enum / typedef definitions between several checked types. "
                  "Globals and functions the collection loops pass over (other resource kinds, variables, non-templated "
                  "intrinsics, user functions) provably never influence what is collected or the verdict "
                  "(unmatched_sites_ignored); the run places such decoys (float3 everywhere) around the checked sites. Since wave 11 "
                  "the generated programs also vary compile()'s other options (source_info, defines, pipeline_name among two "
                  "pipelines, support_buffer_address), the declaration forms (several declarators, namespaces reopened, static / "
                  "extern / local buffers, prototypes with default arguments, bodies after main, struct-template methods, method "
                  "templates, one template instantiated twice, buffers inside structs) and the spelling of members (typedef and "
                  "const-typedef member types, several declarators per declaration, two bases, typedef chains and constant "
                  "expressions for array dimensions), and reach 14 checked types / 24 sites / 24 members per struct. "
                  "The model is compared with the real compile() on "
                  "generated whole programs and the property's own oracle (independent Rust calculators, themselves compared with "
                  "the Lean reference on every run) judges the real verdicts and diagnostics.",
    "rule": "two request kinds. C19.check = (use kind, list of element types) as before. C19.prog = (target vk|dx|msl, pipeline "
            "mode or not, spelling seed, type table, list of use sites): turned into an RSSL program (20 kinds of global "
            "declaration incl. arrays / typedefs / typedef'd arrays / const / register / bindless / buffer in a struct / "
            "parameter / ConstantBuffer / cbuffer / plain variables; 10 typed Load<T>/Store<T> forms x 12 wrappers: main, "
            "uncalled function, instantiated and uninstantiated function template, struct method, buffer parameter, element "
            "of a buffer array, static initialiser, default argument, sizeof operand, default argument of an uninstantiated "
            "function template that loads the template parameter T / T[2]), "
            "compiled by the real compile(...validate_layout_consistency(true)); verdict, blamed location and the four numbers "
            "of the message are compared with the model and judged by two independent reference layout calculators (accepted => "
            "every structure at a site the property names has the same size and the same offset of every field recursively; "
            "rejected => the reported sizes and alignments are the reference ones of the blamed structure). Exhaustive: every "
            "site kind x target x mode with a differing structure; every leaf type of the widened universe in 3-5 shapes; every "
            "flat struct of 1-2 members over 21 leaf types (3 members: sampled / exhaustive in thorough); random: structs to "
            "depth 3 (chains to depth 7), 0-6 members, arrays 1-4 in up to 3 dimensions, programs with 1-3 types and 1-5 sites, "
            "half of them with all structures agreeing but one. Type tables with shared definitions: an entry may name an "
            "earlier entry ($k = the same struct / enum / typedef'd array definition, i.e. the same StructId / TypeId, as a "
            "member, an array element, several times in one struct; a whole entry $k / c$k = another typedef name of entry k / "
            "of the const-qualified entry k); the oracle and the model see the expanded structures. Streams: S1 one shared "
            "definition (12 kinds: empty struct, small structs, nested empty, enum, typedef'd array, vector) in two checked "
            "structs, every ordered pair of 36 alignment contexts (pre in none/h/u/f2/d/h3, post in none/h/f/u/f2/d), 12 pairs "
            "of use sites (which of the two is checked first varies), now and then the shared struct checked itself before / "
            "between / after; S2 the same two contexts inside one struct (exhaustive for the empty struct, sampled 1/12 "
            "otherwise in quick, exhaustive in thorough); S3 random tables of 3-6 entries built from earlier entries, 2-5 "
            "sites in random order (1200 quick / 40000 thorough); S4 one struct under four names (itself, typedef, typedef of "
            "const, typedef of that) at two of 15 site kinds incl. first use in a function nobody calls. "
            "Wave 11 (declaration forms and options): modes npo (no pipeline mode + source_info + a user define + buffer "
            "addresses supported only if the program has one) and pname (two pipelines in the file, pipeline_name picks one); "
            "global kinds sbmulti (two declarators in one declaration), sbns (in a namespace), sbst (static), sbex (extern), "
            "sblocal (a local variable: not a site), cbmem (buffer inside a struct held by a ConstantBuffer: class site-sbmem), "
            "sbtwo (ONE struct template instantiated with float and with the type, both instances element types), decoy "
            "(Buffer / RWBuffer / Texture2D / RWTexture2D / sampler / raw buffers / static, uniform and groupshared variables "
            "of float3, used through non-templated intrinsics: never looked at); wrappers pd (default argument on a prototype "
            "that is never defined), pf (prototype before main, body after it: checked after main), ns (function in a "
            "namespace), lp (inside for / if), tt (template instantiated through another template), two (one function "
            "template instantiated twice), tm (method of a struct template, instantiated by naming W<S>), mt (method "
            "template), sl (static local), hb (raw buffer that is a member of a global struct); spelling variants of a "
            "struct (style != 0): several declarators per member declaration, member types through typedefs and typedefs of "
            "the const-qualified type (a Modifier layer below the element), attributes, stray semicolons, two base structs, "
            "array types through typedef chains, dimensions as named constants / constant expressions; stream P6: 8-24 sites "
            "over 3-6 types, structs of 10-24 members. "
            "non-trivial = some type has at least two members",
    "trusted_base": [
        "Lean 4.33 kernel; axioms propext / Classical.choice / Quot.sound only (audited by #print axioms)",
        "tools/gens/c19.py: LayoutTables (ScalarType::get_size, the arms of get_type_layout and of offsets_match as op programs "
        "over a fixed statement vocabulary incl. the checked_* forms, check_layout's top-level adjustments, comparison, matched "
        "objects and intrinsics, the statements that peel a global's type, the is_dependent_type skip) and "
        "LayoutPurity (every fn signature of layout_checker.rs, &mut parameters, mutable locals, closures, tokens of shared / "
        "interior-mutable state and containers, accessors called on the module, macros; descriptive: a cache threaded "
        "through the functions still translates and then layout_functions_are_pure fails) and "
        "LayoutSites (ObjectType variants, get_structured_type users, the T-templated object methods of intrinsic_data.rs, the "
        "fixed text of the two collection loops, of get_type_location / remove_modifier / get_non_array_id / "
        "is_dependent_type, of compile()'s validation statement and of the two "
        "diagnostics) - re-run on /repo's working tree every time; any other text is a broken obligation",
        "Model/Layout.lean + Model/LayoutCollect.lean: interpreter of the op programs, the recursion skeletons and the two "
        "collection loops; Driver/C19.lean::moduleOf: how the type checker turns the generated programs into globals and "
        "intrinsic instantiations (order in three phases: functions before main, main's statements and what they "
        "instantiate, bodies after main; one or several globals per declaration; type ids; a typedef is the same type id, a const-qualified type has its own, one "
        "for all its spellings; a reference $k is replaced by the structure it names) - all tied to the code by the "
        "correspondence run only",
        "Spec/Layout.lean, Spec/LayoutFull.lean and the Rust reference calculators in harness/src/c19.rs: our reading of HLSL "
        "structured-buffer packing and of the Metal layout rules (MSL spec 2.2-2.4; bool 4 vs 1 byte; matrix = columns of "
        "vectors as emitted by the MSL exporter; empty struct 0 vs 1 byte); the Lean and Rust versions are compared on 1545 "
        "types every run (empty structs included)",
    ],
    "assumptions": [
        "u32 arithmetic is modelled with overflow checks as in the harness build (overflow-checks = true); a release build wraps instead of panicking",
        "TypeLayer::Modifier below the element type is transparent and is not modelled (so is_dependent_type's look through "
        "Modifier / Vector / Matrix layers onto a template parameter is outside the model's types; Array is inside); a type "
        "id denotes one type (hypothesis `Consistent` of check_layout_sound_partial: the type registry interns types); the "
        "registry never stacks a Modifier on a Modifier (combine_modifier asserts it), remove_modifier looks below one",
        "the property's 'structure used as the element type of a structured buffer' is read as: of a buffer that exists, i.e. "
        "a global (possibly an array element or a struct member) - a function parameter of buffer type that nothing is "
        "passed to is not judged; ConstantBuffer<T>, cbuffer members and TriangleStream<T> are not named by the property",
        "static struct members are laid out like ordinary members because the compiler treats and emits them as such on both targets",
        "layout_functions_are_pure is a statement about the text of layout_checker.rs (signatures, bindings, tokens, "
        "accessor names) and of TypeRegistry::get_type_layer; that the other read-only accessors of the registries do not "
        "mutate anything is by their names and &self receivers, not re-read (the type registry does keep its layers in a "
        "RefCell; only register_type borrows it mutably)",
        "Metal has no double; the Metal reference treats double like any other scalar (size = alignment = 8); programs "
        "whose compilation fails after an accepting layout check are not judged (the property's premise is false); the "
        "MetalBytecode target needs the Metal compiler and is not exercised",
        "covered by the correspondence run and its oracle only (front-end behaviour, not in a theorem): how the type checker "
        "turns the declaration forms of wave 11 into the registries the Lean module is built from - two declarators = two "
        "globals, a static global has no const modifier, a local buffer variable is no global, a body after main is checked "
        "after main, a struct template's methods are instantiated where W<S> is first named, two instances of one struct "
        "template are two struct types with two type ids (Driver/C19.lean::moduleOf); member declarations with several "
        "declarators, base lists, typedef chains and constant-expression dimensions give the members the request names; a "
        "member whose type is a typedef of a const-qualified type carries a Modifier layer that get_type_layout / "
        "offsets_match look through (the two arms are pinned by the translator; the driver erases the layer)",
        "compile()'s other options (source_info, defines, pipeline_name, support_buffer_address) do not occur in the pinned "
        "guard of the validation statement (diagnostic_pinned: the guard is exactly args.validate_layout_consistency); that "
        "they do not influence the front end's registries is exercised by the modes npo / pname only",
    ],
}

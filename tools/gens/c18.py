"""Gen.TargetTables: everything in the source that depends on the compile target.

 * the define list compile() hands to the preprocessor, per target (src/compile.rs)
 * the syntactic shape of the shared front end (order of the passes, which `args.*` fields they read)
 * inventory of every textual use of `args.target`, `for_spirv`, `Target::X` (rssl's Target) in non-test sources
 * inventory of the readers of the target-derived module flags / generator context fields in the HLSL back end
 * the ObjectType -> DescriptorType tables of both back ends, and the rules next to them
"""
import os
import re

CRATES = ["src", "ir/src", "hlsl/src", "msl/src", "typer/src", "parser/src", "formatter/src",
          "preprocess/src", "text/src", "ast/src"]
TARGETS = ["HlslForDirectX", "HlslForVulkan", "Msl", "MetalBytecode"]


def register(gen, T):
    @gen("TargetTables")
    def target_tables():
        from rustsrc import (ExtractError, fn_body, impl_fn_body, first_match, match_arms, lean_str, normws, matching,
                             split_top, enum_variants)
        compile_rs = T.src("src/compile.rs")
        body = fn_body(compile_rs, "compile")
        bp = fn_body(compile_rs, "build_pipeline")
        out = ["import RsslVerif.Gen.SlotTables\n",
               T.header("TargetTables", ["src/compile.rs", "hlsl/src/ast_generate.rs", "hlsl/src/lib.rs",
                                         "msl/src/generator/pipeline.rs", "ir/src/export.rs", "ir/src/ir_module.rs",
                                         "ir/src/simplify_cbuffers.rs", "all crates (uses of the target)"]),
               "open RsslVerif.Gen.SlotTables\n\n"]

        # ------------------------------------------------------------------ define list
        tv = [v for v, _ in enum_variants(compile_rs, "Target")]
        if tv != TARGETS:
            raise ExtractError(f"enum Target has variants {tv}")
        pushes = []
        for m in re.finditer(r'\bdefines\s*\.\s*push\s*\(', body):
            i = m.end() - 1
            j = matching(body, i)
            inner = body[i + 1:j].strip()
            if not (inner.startswith('(') and matching(inner, 0) == len(inner) - 1):
                raise ExtractError(f"defines.push argument is not a tuple: {normws(inner)[:60]}")
            parts = [normws(p) for p in split_top(inner[1:-1], ',') if p.strip()]
            if len(parts) != 2:
                raise ExtractError(f"defines.push tuple has {len(parts)} fields")
            nm = re.fullmatch(r'"([A-Za-z_][A-Za-z0-9_]*)"', parts[0])
            if not nm:
                raise ExtractError(f"define name {parts[0]!r}")
            lit = re.fullmatch(r'"([^"\\]*)"', parts[1])
            cond = re.fullmatch(r'if matches!\(\s*args\.target\s*,\s*([A-Za-z:|\s]+?)\s*\) \{ "([^"\\]*)" \} else \{ "([^"\\]*)" \}', parts[1])
            if lit:
                val = lean_str(lit.group(1))
            elif cond:
                ts = [re.fullmatch(r'Target::([A-Za-z]+)', p.strip()) for p in cond.group(1).split('|')]
                if not all(ts) or any(t.group(1) not in TARGETS for t in ts):
                    raise ExtractError(f"define condition {cond.group(1)!r}")
                lst = T.lean_list(f"Target.{t.group(1)}" for t in ts)
                val = f"(if {lst}.contains t then {lean_str(cond.group(2))} else {lean_str(cond.group(3))})"
            else:
                raise ExtractError(f"define value {parts[1]!r} unsupported")
            pushes.append((m.start(), nm.group(1), val))
        if not pushes:
            raise ExtractError("no defines.push in compile()")
        out.append("/-- the defines compile() puts in front of the user's (src/compile.rs); user defines are appended after -/\n")
        out.append("def targetDefines (t : Target) : List (String × String) := [\n")
        out.append(",\n".join(f"  ({lean_str(n)}, {v})" for _, n, v in pushes))
        out.append("\n]\n\n")
        # the same list with numeric values (every value is a decimal numeral: it lexes to one integer literal)
        nums = []
        for _, n, v in pushes:
            v2 = re.sub(r'"(\d+)"', r'\1', v)
            if '"' in v2:
                raise ExtractError(f"define {n} has a non-numeric value {v}")
            nums.append((n, v2))
        out.append("/-- the same list, values as numbers (each value is a decimal numeral, i.e. one integer-literal token) -/\n")
        out.append("def targetDefineNums (t : Target) : List (String × Nat) := [\n")
        out.append(",\n".join(f"  ({lean_str(n)}, {v})" for n, v in nums))
        out.append("\n]\n\n")

        # ------------------------------------------------------------------ shape of the shared front end
        marks = [
            ("definesDeclared", r'let mut defines = Vec::new\(\);'),
            ("lastPush", None),
            ("userDefinesAppended", r'defines\.extend\(args\.defines\);'),
            ("preprocess", r'preprocess::preprocess\(\s*args\.entry_file_name,\s*&mut source_manager,\s*args\.include_handler,\s*&defines,?\s*\)'),
            ("prepare", r'let tokens = preprocess::prepare_tokens\(&tokens\);'),
            ("parse", r'parser::parse\(&tokens\)'),
            ("typeCheck", r'typer::type_check\(&pl\)'),
            ("layoutCheck", r'if args\.validate_layout_consistency\s*&& let Err\(err\) = ir::layout_checker::check_layout\(&ir\)'),
            ("bindingParams", r'let binding_params = match args\.target \{'),
        ]
        pos = {}
        for name, rx in marks:
            if rx is None:
                pos[name] = pushes[-1][0]
                continue
            m = re.search(rx, body)
            pos[name] = m.start() if m else -1
        order = [pos[n] for n, _ in marks]
        in_order = all(p >= 0 for p in order) and order == sorted(order)
        fe = body[pos["userDefinesAppended"]:pos["bindingParams"]] if in_order else ""
        pre = body[:pos["definesDeclared"]] if in_order else ""
        # every early exit of the front end returns the diagnostic rendered with the source manager
        errs = re.findall(r'Err\(err\) => \{\s*return Err\(CompileError::Text\(format!\(\s*"\{\}",\s*err\.display\(&source_manager\)\s*\)\)\);\s*\}', fe)
        guard = re.search(r'^\s*if args\.support_buffer_address && !matches!\(args\.target, Target::HlslForVulkan\) \{\s*return Err\(CompileError::InvalidArgs\);\s*\}', body)
        facts = {
            "passesInOrder": in_order,
            "frontEndDoesNotNameTarget": in_order and not re.search(r'\btarget\b|\bTarget\b', fe),
            "threeRenderedEarlyExits": len(errs) == 3,
            "bufferAddressGuardFirst": bool(guard) and in_order and normws(pre).count(';') <= 2,
            "definesOnlyPushedOrExtended": len(re.findall(r'\bdefines\b', body)) == len(pushes) + 4,
        }
        out.append("/-- syntactic facts about compile() up to the binding_params match (regexes over the source) -/\n")
        out.append("structure FrontShape where\n" + "".join(f"  {k} : Bool\n" for k in facts) + "  deriving DecidableEq, Repr\n\n")
        out.append("def frontShape : FrontShape := { " + ", ".join(f"{k} := {'true' if v else 'false'}" for k, v in facts.items()) + " }\n\n")
        reads = sorted(set(re.findall(r'\bargs\s*\.\s*([a-z_]+)', fe)))
        out.append("/-- `args.<field>` reads between `defines.extend(args.defines)` and the binding_params match -/\n")
        out.append("def frontEndArgReads : List String := " + T.lean_list(lean_str(r) for r in reads) + "\n\n")

        # ------------------------------------------------------------------ build_pipeline: stage reports
        nbp = normws(bp)
        # HLSL: one stage record per pipeline stage, zipped in order with the exporter's generated entry point names
        hl_stage = re.search(r'assert_eq!\( pipeline\.stages\.len\(\), exported_source\.entry_point_names\.len\(\) \); '
                             r'for \(stage, entry_point\) in pipeline \. ?stages \. ?iter\(\) \. ?zip\(&exported_source\.entry_point_names\) \{ '
                             r'stages\.push\(CompiledPipelineStage \{ stage: stage\.stage, entry_point: entry_point\.clone\(\), '
                             r'thread_group_size: stage\.thread_group_size, \}\); \}', nbp)
        ms_stage = re.search(r'stages\.push\(CompiledPipelineStage \{ stage: stage\.stage, entry_point: String::from\(match stage\.stage \{[^}]*\}\), thread_group_size: stage\.thread_group_size, \}\);', nbp)
        state = re.search(r'let graphics_pipeline_state = if let Some\(pipeline\) = pipeline \{ pipeline\.graphics_pipeline_state\.clone\(\) \} else \{ None \};', nbp)
        state_uses = len(re.findall(r'\bgraphics_pipeline_state\b', bp))
        hl_arm = re.search(r'Target::HlslForDirectX \| Target::HlslForVulkan => \{ let exported_source = match hlsl::export_to_hlsl\(&ir, matches!\(args\.target, Target::HlslForVulkan\)\)', nbp)
        # where the HLSL entry point names come from: the exporter's name map, built from the module alone
        hgen = T.src("hlsl/src/ast_generate.rs")
        gm = normws(fn_body(hgen, "generate_module"))
        names_from_map = ("let mut context = GenerateContext::new(module);" in gm and
                          "let mut entry_point_names = Vec::new(); if let Some(pipeline) = module.selected_pipeline { "
                          "for stage in &module.pipelines[pipeline].stages { "
                          "entry_point_names.push(context.get_function_name(stage.entry_point)?.to_string()); } }" in gm and
                          len(re.findall(r'\bentry_point_names\b', gm)) == 3)
        hnew = normws(impl_fn_body(hgen, r'GenerateContext', "new"))
        hmap = hnew.startswith("let name_map = NameMap::build(module, RESERVED_NAMES, true);") and \
            len(re.findall(r'\bname_map\b', hnew)) == 2
        hlib = normws(fn_body(T.src("hlsl/src/lib.rs"), "export_to_hlsl"))
        passed = "entry_point_names: generate_output.entry_point_names," in hlib and \
            len(re.findall(r'\bentry_point_names\b', hlib)) == 2
        bfacts = {
            "hlslStagesFromPipeline": bool(hl_stage),
            "mslStagesFromPipeline": bool(ms_stage),
            "stateClonedFromPipeline": bool(state) and state_uses == 4,
            "oneHlslArmForBothFlavours": bool(hl_arm),
            "stageLoopsOverPipelineStages": len(re.findall(r'for stage in &pipeline\.stages \{', nbp)) == 1 and
                                            len(re.findall(r'in pipeline \. ?stages \. ?iter\(\)', nbp)) == 1,
            "hlslEntryNamesFromNameMap": bool(names_from_map and hmap and passed),
        }
        out.append("/-- syntactic facts about build_pipeline() -/\n")
        out.append("structure BuildShape where\n" + "".join(f"  {k} : Bool\n" for k in bfacts) + "  deriving DecidableEq, Repr\n\n")
        out.append("def buildShape : BuildShape := { " + ", ".join(f"{k} := {'true' if v else 'false'}" for k, v in bfacts.items()) + " }\n\n")

        # ------------------------------------------------------------------ inventories
        files = []
        for crate in CRATES:
            base = os.path.join(T.REPO, crate)
            for dp, _, fns in os.walk(base):
                for fn in sorted(fns):
                    if fn.endswith(".rs") and not fn.endswith("tests.rs") and fn != "test_support.rs":
                        files.append(os.path.relpath(os.path.join(dp, fn), T.REPO))
        files.sort()
        texts = {f: T.src(f) for f in files}

        def fn_at(text, p):
            cur = "?"
            for m in re.finditer(r'\bfn\s+([a-z_0-9]+)', text):
                if m.start() <= p:
                    cur = m.group(1)
                else:
                    break
            return cur

        def inventory(patterns, only=None):
            counts = {}
            for f, text in texts.items():
                if only and not any(f.startswith(o) for o in only):
                    continue
                for what, rx in patterns:
                    for m in re.finditer(rx, text):
                        # formatter's own `Target` enum is a different type (fixed per back end)
                        if what.startswith("Target::") and (f.startswith("formatter/") or text[max(0, m.start() - 16):m.start()].endswith("rssl_formatter::")):
                            continue
                        if what == ".target" and f.startswith("formatter/"):
                            continue
                        key = (f, fn_at(text, m.start()), what if what != "Target::" else "Target::" + m.group(1))
                        counts[key] = counts.get(key, 0) + 1
            return sorted((a, b, c, n) for (a, b, c), n in counts.items())

        uses = inventory([("args.target", r'\bargs\s*\.\s*target\b'), ("for_spirv", r'\bfor_spirv\b'),
                          ("Target::", r'\bTarget::(' + "|".join(TARGETS) + r')\b'),
                          (".target", r'(?<!args)\s*\.\s*target\b')])
        out.append("/-- every textual use of the compile target in non-test sources: (file, enclosing fn, what, how many times) -/\n")
        out.append("def targetUses : List (String × String × String × Nat) := [\n")
        out.append(",\n".join(f"  ({lean_str(a)}, {lean_str(b)}, {lean_str(c)}, {n})" for a, b, c, n in uses))
        out.append("\n]\n\n")
        flags = inventory([(w, r'\b' + w + r'\b') for w in
                           ["requires_vk_binding", "requires_buffer_address", "per_primitive_semantics",
                            "pixel_entry_for_mesh", "metal_slot_layout", "static_samplers_have_slots",
                            "require_slot_type", "support_buffer_address"]])
        out.append("/-- every textual use of the target-derived binding parameters, module flags and HLSL generator context fields -/\n")
        out.append("def flagUses : List (String × String × String × Nat) := [\n")
        out.append(",\n".join(f"  ({lean_str(a)}, {lean_str(b)}, {lean_str(c)}, {n})" for a, b, c, n in flags))
        out.append("\n]\n\n")
        irm = normws(texts["ir/src/ir_module.rs"])
        out.append("/-- how assign_api_bindings derives the module flags from the parameters -/\n")
        out.append("def flagsDerivedAsModelled : Bool := " + ("true" if
                   "self.flags.requires_buffer_address = params.support_buffer_address;" in irm and
                   "self.flags.requires_vk_binding = !params.require_slot_type || params.support_buffer_address;" in irm
                   else "false") + "\n\n")
        hl_lib = normws(texts["hlsl/src/lib.rs"])
        out.append("/-- both HLSL flavours are printed by the same formatter configuration -/\n")
        out.append("def hlslFormatterTargetFixed : Bool := " + ("true" if
                   "let target = rssl_formatter::Target::Hlsl; let source = match rssl_formatter::format(&generate_output.ast_module, target)" in hl_lib
                   else "false") + "\n\n")

        # ------------------------------------------------------------------ descriptor tables
        export = T.src("ir/src/export.rs")
        dks = [v for v, _ in enum_variants(export, "DescriptorType")]
        out.append("inductive DescKind where\n" + "".join(f"  | {k}\n" for k in dks) + "  deriving DecidableEq, Repr, Inhabited\n\n")
        out.append("def DescKind.name : DescKind → String\n" + "".join(f"  | .{k} => {lean_str(k)}\n" for k in dks) + "\n")
        kinds = [v for v, _ in enum_variants(T.src("ir/src/ir_types.rs"), "ObjectType")]

        def table(src_text, label):
            ab = fn_body(src_text, "analyse_bindings")
            m = re.search(r'let\s+descriptor_type\s*=\s*', ab)
            if not m:
                raise ExtractError(f"{label}: descriptor_type match not found")
            scrut, arms_text, _ = first_match(ab, None, m.end() - 1)
            if scrut != "type_layer":
                raise ExtractError(f"{label}: descriptor_type scrutinee {scrut!r}")
            tbl, rest, other = {}, None, None
            for pats, guard, result in match_arms(arms_text):
                if guard is not None:
                    raise ExtractError(f"{label}: guard in descriptor table")
                r = re.fullmatch(r'\{?\s*DescriptorType::([A-Za-z0-9]+)\s*\}?', result)
                err = re.fullmatch(r'return Err\(GenerateError::UnsupportedObjectType\)', result)
                for p in pats:
                    pm = re.fullmatch(r'ir::TypeLayer::Object\(\s*ir::ObjectType::([A-Za-z0-9]+)(\(_\))?\s*\)', p)
                    if pm:
                        if not r or r.group(1) not in dks or pm.group(1) not in kinds:
                            raise ExtractError(f"{label}: arm {p} => {result}")
                        tbl.setdefault(pm.group(1), r.group(1))
                    elif p == "ir::TypeLayer::Object(_)":
                        if not err:
                            raise ExtractError(f"{label}: Object(_) arm is {result!r}")
                        rest = "none"
                    elif p == "_":
                        if not r:
                            raise ExtractError(f"{label}: wildcard arm is {result!r}")
                        other = r.group(1)
                    else:
                        raise ExtractError(f"{label}: pattern {p!r}")
            if rest is None or other is None:
                raise ExtractError(f"{label}: missing Object(_) / wildcard arm")
            # the rule that peels one array layer and gives the count, and the registration guard
            cm = re.search(r'let \(unmodified_id, descriptor_count\) = (.*?);\s*let type_layer', normws(ab))
            if not cm:
                raise ExtractError(f"{label}: descriptor_count rule not found")
            count_rule = cm.group(1).replace("context.module.", "module.")
            reg = re.search(r'if let Some\(api_slot\) = decl\.api_slot \{ let binding = DescriptorBinding \{ name: ([^,]+), api_binding: api_slot\.location, descriptor_type, descriptor_count, is_bindless: decl\.is_bindless,', normws(ab))
            if not reg:
                raise ExtractError(f"{label}: binding registration not found")
            return tbl, other, count_rule, reg.group(1).strip()

        htbl, hother, hcount, hname = table(T.src("hlsl/src/ast_generate.rs"), "hlsl")
        mtbl, mother, mcount, mname = table(T.src("msl/src/generator/pipeline.rs"), "msl")
        for label, tbl, other in (("hlsl", htbl, hother), ("msl", mtbl, mother)):
            out.append(f"/-- `analyse_bindings` of the {label} back end: object kind ↦ descriptor kind; `none` = GenerateError::UnsupportedObjectType -/\n")
            out.append(f"def {label}DescriptorKind : ObjKind → Option DescKind\n")
            for k in kinds:
                out.append(f"  | .{k} => " + (f"some .{tbl[k]}" if k in tbl else "none") + "\n")
            out.append(f"\n/-- descriptor kind given to a global that is not an object ({label}) -/\n")
            out.append(f"def {label}NonObjectKind : DescKind := .{other}\n\n")
        expected_count = ("if let ir::TypeLayer::Array(inner, len) = module.type_registry.get_type_layer(unmodified_id) { "
                          "let unmodified_id = module.type_registry.remove_modifier(inner); let len = len.map(|v| v as u32); "
                          "(unmodified_id, len) } else { (unmodified_id, Some(1)) }")
        out.append("/-- both back ends compute the descriptor count by the same text: one array layer peeled, its length or Some(1) -/\n")
        out.append(f"def countRuleShared : Bool := {'true' if hcount == mcount == expected_count else 'false'}\n\n")
        out.append("/-- where the reported binding name comes from -/\n")
        out.append(f"def hlslBindingName : String := {lean_str(hname)}\n")
        out.append(f"def mslBindingName : String := {lean_str(mname)}\n\n")
        # the names the two name maps will not hand out unchanged
        def reserved_of(rel, label):
            text = T.src(rel)
            m = re.search(r'pub const RESERVED_NAMES\s*:\s*&\[&str\]\s*=\s*&\[', text)
            if not m:
                raise ExtractError(f"{label} RESERVED_NAMES not found")
            j = matching(text, m.end() - 1)
            consts = {c.group(1): c.group(2) for c in
                      re.finditer(r'pub\s+const\s+([A-Z0-9_]+)\s*:\s*&str\s*=\s*"([^"\\]*)"\s*;', text)}
            names = []
            for part in split_top(text[m.end():j], ','):
                p = part.strip()
                if not p:
                    continue
                lit = re.fullmatch(r'"([A-Za-z_0-9]+)"', p)
                if lit:
                    names.append(lit.group(1))
                elif p in consts:
                    names.append(consts[p])
                else:
                    raise ExtractError(f"{label} RESERVED_NAMES: cannot read entry {p!r}")
            if len(names) < 50:
                raise ExtractError(f"{label} RESERVED_NAMES: only {len(names)} entries")
            return names

        out.append("/-- hlsl/src/names.rs RESERVED_NAMES: a global or function with one of these names is renamed by the HLSL name map -/\n")
        out.append("def hlslReservedNames : List String := " + T.lean_list(lean_str(r) for r in reserved_of("hlsl/src/names.rs", "hlsl")) + "\n\n")
        out.append("/-- msl/src/names.rs RESERVED_NAMES: a global with one of these names is renamed by the Metal name map -/\n")
        out.append("def mslReservedNames : List String := " + T.lean_list(lean_str(r) for r in reserved_of("msl/src/names.rs", "msl")) + "\n\n")
        mgen = T.src("msl/src/generator.rs")
        mnew = normws(impl_fn_body(mgen, r'GenerateContext', "new"))
        out.append("/-- both exporters build their name map from the module and their own reserved table only -/\n")
        out.append("def nameMapsFromModuleAndReserved : Bool := " + ("true" if
                   mnew.startswith("let name_map = NameMap::build(module, RESERVED_NAMES, false);") and
                   normws(impl_fn_body(T.src("hlsl/src/ast_generate.rs"), r'GenerateContext', "new")).startswith(
                       "let name_map = NameMap::build(module, RESERVED_NAMES, true);") else "false") + "\n\n")
        hab = normws(fn_body(T.src("hlsl/src/ast_generate.rs"), "analyse_bindings"))
        cb = re.search(r'if let Some\(api_slot\) = cb\.api_binding \{ let binding = DescriptorBinding \{ name: context\.get_constant_buffer_name\(\*id\)\?\.to_string\(\), api_binding: api_slot\.location, descriptor_type: DescriptorType::ConstantBuffer, descriptor_count: Some\(1\),', hab)
        gcb = normws(fn_body(T.src("hlsl/src/ast_generate.rs"), "get_constant_buffer_name"))
        out.append("/-- hlsl: the name of a cbuffer block is read from the registry (source name), not from the name map -/\n")
        out.append("def hlslCbufferNameFromRegistry : Bool := " + ("true" if
                   gcb == "match self.module.cbuffer_registry.get(id.0 as usize) { Some(cd) => Ok(cd.name.as_str()), None => Err(GenerateError::NamelessId), }"
                   else "false") + "\n")
        out.append("/-- hlsl: a cbuffer block is reported as one ConstantBuffer descriptor -/\n")
        out.append(f"def hlslCbufferIsOneConstantBuffer : Bool := {'true' if cb else 'false'}\n")
        sc = normws(T.src("ir/src/simplify_cbuffers.rs"))
        sc_ok = ("register_type(TypeLayer::Object(ObjectType::ConstantBuffer( struct_type_id, )))" in sc and
                 "name: cbuffer.name," in sc and "api_slot: cbuffer.api_binding," in sc and "type_id: object_type_id," in sc)
        msl_lib = normws(T.src("msl/src/lib.rs"))
        sc_called = "rssl_ir::simplify_cbuffers(&mut module);" in fn_body(T.src("msl/src/lib.rs"), "export_to_msl") and bool(msl_lib)
        out.append("/-- msl: a cbuffer block becomes a global `ConstantBuffer<struct>` with the cbuffer's name and slot before analyse_bindings -/\n")
        out.append(f"def mslCbufferBecomesConstantBufferGlobal : Bool := {'true' if sc_ok and sc_called else 'false'}\n")

        # ------------------------------------------------------------------ the reflection does not depend on a selected pipeline
        # (compile() with no_pipeline_mode() exports a module whose selected_pipeline is None; seed C18-7)
        hgm = normws(fn_body(hgen, "generate_module"))
        h_loop = "for decl in &module.root_definitions { analyse_bindings(decl, &mut context)?; }"
        h_sel = hgm.find("selected_pipeline")
        h_ok = (h_loop in hgm and (h_sel < 0 or hgm.find(h_loop) < h_sel) and
                "pipeline_description: context.pipeline_description," in hgm and "PipelineDescription::default()" not in hgm)
        out.append("\n/-- hlsl `generate_module`: the `analyse_bindings` loop over every root definition runs before (and outside) anything that\n"
                   "    looks at `module.selected_pipeline`, and its result is what `GeneratedAST.pipeline_description` carries -/\n")
        out.append(f"def hlslBindingsReportedWithoutPipeline : Bool := {'true' if h_ok else 'false'}\n")
        mgm = normws(fn_body(mgen, "generate_module"))
        m_call = ("let selected_pipeline = if let Some(selected_pipeline) = module.selected_pipeline { "
                  "Some(&module.pipelines[selected_pipeline]) } else { None }; "
                  "let (mut pipeline_defs, pipeline_description) = generate_pipeline(selected_pipeline, &mut context)?;")
        mpipe_src = T.src("msl/src/generator/pipeline.rs")
        mgp_sig = re.search(r'fn generate_pipeline\(\s*def: Option<&ir::PipelineDefinition>,', mpipe_src) is not None
        mgp = normws(fn_body(mpipe_src, "generate_pipeline"))
        m_loop = "for decl in &context.module.root_definitions { analyse_bindings(decl, context, &mut binding_layout)?; }"
        m_def = re.search(r'\bdef\b', mgp)
        m_ok = (m_call in mgm and "PipelineDescription::default()" not in mgm and mgm.count("generate_pipeline(") == 1 and
                mgp_sig and m_loop in mgp and (m_def is None or mgp.find(m_loop) < m_def.start()) and
                mgp.endswith("let desc = binding_layout.finish(); Ok((defs, desc))") and
                re.search(r'Ok\(GeneratedAST \{ ast_module: ast::Module \{ root_definitions \}, pipeline_description, \}\)$', mgm) is not None)
        out.append("/-- msl `generate_module` calls `generate_pipeline(Option<&PipelineDefinition>)` unconditionally (not under a test of\n"
                   "    `module.selected_pipeline`) and returns its `PipelineDescription`; inside, the `analyse_bindings` loop over every root\n"
                   "    definition runs before the first mention of the pipeline definition and `binding_layout.finish()` is the result -/\n")
        out.append(f"def mslBindingsReportedWithoutPipeline : Bool := {'true' if m_ok else 'false'}\n")

        # ------------------------------------------------------------------ order of the steps of compile() / build_pipeline()
        # every step that can end the compilation or that looks at the target, in source order; a step whose text is not
        # found is left out of the list, a Metal tool chain lookup is listed wherever it occurs
        def ordered(text, step_marks):
            found = []
            for name, rx, every in step_marks:
                ms = list(re.finditer(rx, text))
                for m in (ms if every else ms[:1]):
                    found.append((m.start(), name))
            found.sort()
            return found

        cmarks = [
            ("argsCheck", r'if args\.support_buffer_address && !matches!\(args\.target, Target::HlslForVulkan\) \{\s*return Err\(CompileError::InvalidArgs\);', False),
            ("toolchainLookup", r'MetalCompiler\s*::\s*find\s*\(', True),
            ("preprocess", marks[3][1], False),
            ("prepareTokens", marks[4][1], False),
            ("parse", marks[5][1], False),
            ("typeCheck", marks[6][1], False),
            ("layoutCheck", marks[7][1], False),
            ("bindingParams", marks[8][1], False),
            ("buildPipelines", r'\bbuild_pipeline\s*\(', False),
        ]
        csteps = ordered(body, cmarks)
        out.append("\n/-- the steps of compile() that can end the compilation or look at the target -/\n")
        out.append("inductive CompileStep where\n" + "".join(f"  | {n}\n" for n, _, _ in cmarks) + "  deriving DecidableEq, Repr\n\n")
        out.append("/-- ... in the order in which they stand in compile() (src/compile.rs) -/\n")
        out.append("def compileSteps : List CompileStep := " + T.lean_list(f".{n}" for _, n in csteps) + "\n\n")
        # build_pipeline: what comes before the match on the target, and the two arms
        tm = re.search(r'let compiled = match args\.target \{', bp)
        if not tm:
            raise ExtractError("build_pipeline: `let compiled = match args.target {` not found")
        tm_end = matching(bp, tm.end() - 1)

        def arm(head_rx):
            m = re.search(head_rx + r'\s*=>\s*\{', bp[tm.end():tm_end])
            if not m:
                raise ExtractError(f"build_pipeline: arm {head_rx} not found")
            a = tm.end() + m.end() - 1
            return a, matching(bp, a)

        h0, h1 = arm(r'Target::HlslForDirectX \| Target::HlslForVulkan')
        m0, m1 = arm(r'Target::Msl \| Target::MetalBytecode')
        bmarks = [
            ("selectPipeline", r'ir\.select_pipeline\(', False),
            ("assignBindings", r'ir\.assign_api_bindings\(binding_params\)', False),
            ("exportSource", r'(hlsl::export_to_hlsl|msl::export_to_msl)\s*\(', False),
            ("stageRecords", r'stages\.push\(CompiledPipelineStage', False),
            ("bytecodeGuard", r'if matches!\(args\.target, Target::MetalBytecode\) \{', False),
            ("toolchainLookup", r'MetalCompiler\s*::\s*find\s*\(', True),
            ("toolchainRun", r'\.execute\s*\(', True),
        ]
        out.append("/-- the steps of build_pipeline() -/\n")
        out.append("inductive BuildStep where\n" + "".join(f"  | {n}\n" for n, _, _ in bmarks) + "  deriving DecidableEq, Repr\n\n")
        for nm, text, doc in (("buildPrefixSteps", bp[:tm.start()], "before the match on the target"),
                              ("hlslArmSteps", bp[h0:h1], "the arm of the two HLSL flavours"),
                              ("mslArmSteps", bp[m0:m1], "the arm of Msl and MetalBytecode")):
            out.append(f"/-- build_pipeline(), {doc} -/\n")
            out.append(f"def {nm} : List BuildStep := " + T.lean_list(f".{n}" for _, n in ordered(text, bmarks)) + "\n\n")
        # the lookup and the run of the Metal tool chain stand inside `if matches!(args.target, Target::MetalBytecode) { .. }`
        marm = bp[m0:m1]
        g = re.search(bmarks[4][1], marm)
        inside = False
        if g:
            g1 = matching(marm, g.end() - 1)
            tool_pos = [m.start() for m in re.finditer(r'MetalCompiler\s*::\s*find\s*\(|\.execute\s*\(', marm)]
            inside = bool(tool_pos) and all(g.end() <= p < g1 for p in tool_pos)
        tool_rx = r'\bmetal_invoker\b|\bMetalCompiler\b|\bnative_compiler\b|\bmetal_compiler\b'
        pre_bp = body[:pos["bindingParams"]] if in_order else ""
        build_calls = [m.start() for m in re.finditer(r'\bbuild_pipeline\s*\(', body)]
        sfacts = {
            # nothing but the argument check, the three rendered early exits and the layout check can leave compile()
            # before the binding parameters are chosen
            "fiveExitsBeforeBindingParams": in_order and len(re.findall(r'\breturn\b', pre_bp)) == 5 and '?' not in pre_bp,
            "buildCallsAfterBindingParams": in_order and len(build_calls) == 2 and all(p > pos["bindingParams"] for p in build_calls),
            "noToolchainInCompile": not re.search(tool_rx, body),
            "toolchainOnlyInMslArm": not re.search(tool_rx, bp[:m0]) and not re.search(tool_rx, bp[m1:]) and
                                     len(re.findall(r'\bmetal_invoker\b', marm)) == 1,
            "toolchainInsideBytecodeGuard": inside,
            "exportErrorReturnsBeforeGuard": bool(g) and marm.find("msl::export_to_msl(&ir)") >= 0 and
                                             len(re.findall(r'\breturn\b', marm[:g.start()])) == 1,
        }
        out.append("/-- syntactic facts about where compile() / build_pipeline() can return and where the Metal tool chain is named -/\n")
        out.append("structure StepFacts where\n" + "".join(f"  {k} : Bool\n" for k in sfacts) + "  deriving DecidableEq, Repr\n\n")
        out.append("def stepFacts : StepFacts := { " + ", ".join(f"{k} := {'true' if v else 'false'}" for k, v in sfacts.items()) + " }\n\n")
        tools = inventory([("metal_invoker", r'\bmetal_invoker\b'), ("MetalCompiler", r'\bMetalCompiler\b(?!NotFound|Failed)')])
        out.append("/-- every textual use of the Metal tool chain crate in non-test sources of the compiler crates: (file, enclosing fn, what, how many) -/\n")
        out.append("def toolchainUses : List (String × String × String × Nat) := [\n")
        out.append(",\n".join(f"  ({lean_str(a)}, {lean_str(b)}, {lean_str(c)}, {n})" for a, b, c, n in tools))
        out.append("\n]\n")
        out.append(T.footer("TargetTables"))
        return "".join(out)


def _squash(s):
    s = re.sub(r'\s+', ' ', s).strip()
    return re.sub(r' ?([^A-Za-z0-9_ ]) ?', r'\1', s)


def _register_cbuffer_tables(gen, T):
    @gen("CbufferTables")
    def cbuffer_tables():
        from rustsrc import ExtractError, fn_body
        out = [T.header("CbufferTables", ["ir/src/simplify_cbuffers.rs", "msl/src/lib.rs", "ir/src/ir_module.rs",
                                          "hlsl/src/ast_generate.rs"])]
        sc = _squash(fn_body(T.src("ir/src/simplify_cbuffers.rs"), "simplify_cbuffers"))
        # the first half of the pass, verbatim: every cbuffer of the registry - no condition, no skip - gets a struct
        # `<name>Type` with the members and an extern global `ConstantBuffer<struct>` with the cbuffer's name, language
        # binding and api slot; then every `RootDefinition::ConstantBuffer` is replaced by the struct followed by the global
        want = (
            "let cbuffer_registry=std::mem::take(&mut module.cbuffer_registry);"
            "let mut cbuffer_to_globals=HashMap::new();let mut member_to_expression=HashMap::new();"
            "for(i,cbuffer)in cbuffer_registry.into_iter().enumerate(){"
            "let cbuffer_id=ConstantBufferId(i as u32);"
            "let struct_id=StructId(module.struct_registry.len()as u32);"
            "let struct_type_id=module.type_registry.register_type(TypeLayer::Struct(struct_id));"
            "let mut members=Vec::new();"
            "for member in&cbuffer.members{members.push(StructMember{name:member.name.node.clone(),type_id:member.type_id,"
            "semantic:None,interpolation_modifier:None,precise:false,});}"
            "module.struct_registry.push(StructDefinition{id:struct_id,type_id:struct_type_id,"
            "name:Located::none(format!(\"{}Type\",cbuffer.name.node)),namespace:cbuffer.namespace,members,methods:Default::default(),});"
            "let object_type_id=module.type_registry.register_type(TypeLayer::Object(ObjectType::ConstantBuffer(struct_type_id,)));"
            "let global_id=GlobalId(module.global_registry.len()as u32);"
            "module.global_registry.push(GlobalVariable{name:cbuffer.name,namespace:cbuffer.namespace,type_id:object_type_id,"
            "storage_class:GlobalStorage::Extern,lang_slot:cbuffer.lang_binding,api_slot:cbuffer.api_binding,init:None,"
            "static_sampler:None,constexpr_value:None,is_intrinsic:false,is_bindless:false,});"
            "cbuffer_to_globals.insert(cbuffer_id,(global_id,struct_id));"
            "for member_index in 0..cbuffer.members.len(){member_to_expression.insert(ConstantBufferMemberId(cbuffer_id,member_index as u32),"
            "Expression::StructMember(Box::new(Expression::Global(global_id)),struct_id,member_index as u32,),);}}"
            "let mut new_definitions=Vec::new();"
            "for def in std::mem::take(&mut module.root_definitions){match def{"
            "RootDefinition::ConstantBuffer(id)=>{let(global_id,struct_id)=*cbuffer_to_globals.get(&id).unwrap();"
            "new_definitions.push(RootDefinition::Struct(struct_id));new_definitions.push(RootDefinition::GlobalVariable(global_id));}"
            "_=>new_definitions.push(def),}}"
            "module.root_definitions=new_definitions;")
        out.append("/-- simplify_cbuffers: the registry loop and the root-definition rewrite have exactly the modelled text -/\n")
        out.append(f"def simplifyEveryCbuffer : Bool := {'true' if sc.startswith(want) else 'false'}\n\n")
        msl = _squash(fn_body(T.src("msl/src/lib.rs"), "export_to_msl"))
        first = msl.startswith("let mut module=module.clone();rssl_ir::simplify_cbuffers(&mut module);")
        out.append("/-- export_to_msl runs the pass first, on its own copy of the (already bound) module -/\n")
        out.append(f"def mslSimplifiesFirst : Bool := {'true' if first else 'false'}\n\n")
        comp = _squash(fn_body(T.src("src/compile.rs"), "build_pipeline"))
        order = (comp.find("let ir=ir.assign_api_bindings(binding_params);") >= 0 and
                 comp.find("let ir=ir.assign_api_bindings(binding_params);") < comp.find("msl::export_to_msl(&ir)") and
                 comp.find("let ir=ir.assign_api_bindings(binding_params);") < comp.find("hlsl::export_to_hlsl(&ir,"))
        out.append("/-- build_pipeline assigns the api slots before either exporter runs -/\n")
        out.append(f"def slotsAssignedBeforeExport : Bool := {'true' if order else 'false'}\n\n")
        ab = _squash(fn_body(T.src("ir/src/ir_module.rs"), "assign_api_bindings"))
        every = ("RootDefinition::ConstantBuffer(id)=>{let cb=&mut module.cbuffer_registry[id.0 as usize];"
                 "let set=cb.lang_binding.set.unwrap_or(default_set);assert_eq!(cb.api_binding,None);{let index=match used_slots.entry(set){") in ab \
            and "cb.api_binding=Some(ApiBinding{set,location:ApiLocation::Index(index)," in ab
        out.append("/-- assign_api_bindings gives every cbuffer block an index slot, unconditionally -/\n")
        out.append(f"def everyCbufferGetsASlot : Bool := {'true' if every else 'false'}\n\n")

        # ---- where the HLSL generator lets the target-derived context show (per function of ast_generate.rs)
        hl = T.src("hlsl/src/ast_generate.rs")
        gm = _squash(fn_body(hl, "generate_module"))
        once = gm.count("for_spirv") == 1 and "if for_spirv{analyse_per_primitive_attributes(&mut context);}" in gm
        out.append("/-- generate_module reads `for_spirv` once: to decide whether the per-primitive analysis runs -/\n")
        out.append(f"def forSpirvOnlyGuardsPerPrimitiveAnalysis : Bool := {'true' if once else 'false'}\n\n")
        gs = _squash(fn_body(hl, "generate_struct"))
        member_site = ("let mut attributes=Vec::new();if let Some(ir::Semantic::User(semantic))=&member.semantic&&"
                       "context.per_primitive_semantics.contains(semantic){attributes.push(ast::Attribute{name:Vec::from(["
                       "Located::none(\"vk\".to_string()),Located::none(\"ext_decorate\".to_string()),]),") in gs
        gp = _squash(fn_body(hl, "generate_function_param"))
        param_site = ("if for_pixel_entry&&let Some(ir::Semantic::User(semantic))=&param.semantic&&"
                      "context.per_primitive_semantics.contains(semantic){declarator=declarator.insert_base(") in gp
        gf = _squash(fn_body(hl, "generate_function_inner"))
        fn_site = ("let for_pixel_entry=context.pixel_entry_for_mesh==Some(id);if for_pixel_entry{attributes.push(ast::Attribute{"
                   "name:Vec::from([Located::none(\"vk\".to_string()),Located::none(\"ext_extension\".to_string()),]),") in gf and \
            "params.push(generate_function_param(param,context,for_pixel_entry)?);" in gf
        body_site = ("let mut statements=Vec::new();for statement in&decl.scope_block.0{statements.push(generate_statement(statement,context)?);}"
                     "Some(statements)") in gf
        out.append("/-- the three places where the per-primitive analysis shows: a `[[vk::ext_decorate]]` on struct members and on the\n"
                   "    parameters of the pixel entry point, two `[[vk::ext_..]]` attributes on the pixel entry point; the body of a\n"
                   "    function is `generate_statement` over its statements, with no further argument -/\n")
        out.append(f"def perPrimitiveSitesAsModelled : Bool := {'true' if member_site and param_site and fn_site and body_site else 'false'}\n")
        out.append(T.footer("CbufferTables"))
        return "".join(out)


_old_register_c18 = register


def register(gen, T):  # noqa: F811
    _old_register_c18(gen, T)
    _register_cbuffer_tables(gen, T)

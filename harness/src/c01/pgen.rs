//! Type-directed generator of well-typed RSSL programs of the scalar subset (every statement form, user functions with
//! in/out/inout parameters, static globals, implicit and explicit conversions, all operators).
#![allow(dead_code)]
use super::sx::T;
use crate::util::Rng;

#[derive(Clone)]
pub struct FnSig {
    pub name: String,
    pub ret: T,
    pub params: Vec<(String, u8, T)>, // name, 0 in / 1 out / 2 inout, type
}

#[derive(Clone)]
struct VarInfo {
    name: String,
    ty: T,
    assignable: bool,
}

pub struct Gen<'r> {
    pub rng: &'r mut Rng,
    pub funcs: Vec<FnSig>,
    globals: Vec<VarInfo>,
    counter: u32,
    pub opts: GenOpts,
}

#[derive(Clone, Copy)]
pub struct GenOpts {
    pub floats: bool,
    pub calls: bool,
    pub max_depth: u32,
}

const NUM: [T; 3] = [T::Int, T::Uint, T::Float];

fn tn(t: T) -> &'static str {
    t.name()
}

impl<'r> Gen<'r> {
    pub fn new(rng: &'r mut Rng, opts: GenOpts) -> Self {
        Gen { rng, funcs: Vec::new(), globals: Vec::new(), counter: 0, opts }
    }

    fn fresh(&mut self, p: &str) -> String {
        self.counter += 1;
        format!("{}{}", p, self.counter)
    }

    fn pick_ty(&mut self, with_bool: bool) -> T {
        let n = if with_bool { 4 } else { 3 };
        match self.rng.below(n) {
            0 => T::Int,
            1 => T::Uint,
            2 => if self.opts.floats { T::Float } else { T::Int },
            _ => T::Bool,
        }
    }

    fn literal(&mut self, t: T) -> String {
        match t {
            T::Bool => (if self.rng.chance(1, 2) { "true" } else { "false" }).to_string(),
            T::Int => self
                .rng
                .pick(&["0", "1", "2", "3", "5", "7", "31", "32", "100", "255", "65535", "2147483647", "-1", "-7", "-2147483647", "-2147483648", "1000000"])
                .to_string(),
            T::Uint => self
                .rng
                .pick(&["0u", "1u", "2u", "7u", "31u", "33u", "4294967295u", "2147483648u", "3", "12", "65536u"])
                .to_string(),
            T::Float => self.rng.pick(&["0.0f", "-0.0f", "1.0f", "2.5f", "-1.5f", "0.25f", "100.0f", "1", "3"]).to_string(),
            _ => "0".to_string(),
        }
    }

    fn vars_of(&self, scope: &[VarInfo], t: T, assignable: bool) -> Vec<String> {
        scope
            .iter()
            .chain(self.globals.iter())
            .filter(|v| v.ty == t && (!assignable || v.assignable))
            .map(|v| v.name.clone())
            .collect()
    }

    fn leaf(&mut self, t: T, scope: &[VarInfo]) -> String {
        let vs = self.vars_of(scope, t, false);
        if !vs.is_empty() && self.rng.chance(3, 5) {
            self.rng.pick(&vs).clone()
        } else {
            self.literal(t)
        }
    }

    /// an expression of type `t` (possibly through an implicit conversion from another type)
    pub fn expr(&mut self, t: T, depth: u32, scope: &[VarInfo]) -> String {
        if depth == 0 || self.rng.chance(1, 5) {
            return self.leaf(t, scope);
        }
        let d = depth - 1;
        // implicit conversion: an operand of another type where `t` is expected
        if self.rng.chance(1, 8) {
            let other = self.pick_ty(true);
            if other == T::Bool && t != T::Bool {
                // a bool next to an int literal makes the type checker compute in IntLiteral (Cast(IntLiteral, bool)),
                // the class of the known finding `2147483647 + t`: converted explicitly here, covered by the corpus entry
                return format!("({})({})", tn(t), self.expr(other, d, scope));
            }
            if other != t {
                return format!("({})", self.expr(other, d, scope));
            }
        }
        if t == T::Bool {
            return match self.rng.below(8) {
                0 | 1 | 2 => {
                    let ot = *self.rng.pick(&NUM);
                    let ot = if ot == T::Float && !self.opts.floats { T::Int } else { ot };
                    let op = *self.rng.pick(&["<", "<=", ">", ">=", "==", "!="]);
                    let (l, r) = (self.expr(ot, d, scope), self.operand(ot, d, scope));
                    format!("({} {} {})", l, op, r)
                }
                3 => format!("({} && {})", self.expr(T::Bool, d, scope), self.expr(T::Bool, d, scope)),
                4 => format!("({} || {})", self.expr(T::Bool, d, scope), self.expr(T::Bool, d, scope)),
                5 => format!("!{}", self.atom(T::Bool, d, scope)),
                6 => format!("({} == {})", self.expr(T::Bool, d, scope), self.expr(T::Bool, d, scope)),
                _ => self.common_forms(t, d, scope),
            };
        }
        let is_int = t == T::Int || t == T::Uint;
        match self.rng.below(if is_int { 14 } else { 9 }) {
            0 | 1 | 2 => {
                let op = *self.rng.pick(&["+", "-", "*", "/"]);
                let (l, r) = (self.expr(t, d, scope), self.operand(t, d, scope));
                format!("({} {} {})", l, op, r)
            }
            3 => format!("-{}", self.atom(t, d, scope)),
            4 => format!("+{}", self.atom(t, d, scope)),
            5 => {
                // explicit cast
                let other = self.pick_ty(true);
                format!("({}){}", tn(t), self.atom(other, d, scope))
            }
            6 | 7 | 8 => self.common_forms(t, d, scope),
            9 => {
                let op = *self.rng.pick(&["%", "&", "|", "^"]);
                let rt = if self.rng.chance(1, 5) { if t == T::Int { T::Uint } else { T::Int } } else { t };
                let (l, r) = (self.expr(t, d, scope), self.expr(rt, d, scope));
                format!("({} {} {})", l, op, r)
            }
            10 | 11 => {
                let op = *self.rng.pick(&["<<", ">>"]);
                let rt = if self.rng.chance(1, 3) { if t == T::Int { T::Uint } else { T::Int } } else { t };
                let (l, r) = (self.expr(t, d, scope), self.expr(rt, d, scope));
                format!("({} {} {})", l, op, r)
            }
            12 => format!("~{}", self.atom(t, d, scope)),
            _ => self.common_forms(t, d, scope),
        }
    }

    /// a comparison of two float operands, at least one a variable (so that NaN / infinities / zeros of the argument grid
    /// reach it), not parenthesised and not negated: the statement's condition *is* the comparison
    fn float_cmp(&mut self, scope: &[VarInfo]) -> Option<String> {
        if !self.opts.floats {
            return None;
        }
        let vs = self.vars_of(scope, T::Float, false);
        if vs.is_empty() {
            return None;
        }
        let l = self.rng.pick(&vs).clone();
        let r = if self.rng.chance(1, 2) { self.rng.pick(&vs).clone() } else { self.leaf(T::Float, scope) };
        let op = *self.rng.pick(&["<", "<=", ">", ">=", "==", "!="]);
        Some(if self.rng.chance(1, 2) { format!("{} {} {}", l, op, r) } else { format!("{} {} {}", r, op, l) })
    }

    /// right operand: sometimes of a different numeric type (usual arithmetic conversions)
    fn operand(&mut self, t: T, d: u32, scope: &[VarInfo]) -> String {
        if t != T::Bool && self.rng.chance(1, 6) {
            let ot = *self.rng.pick(&NUM);
            if self.opts.floats || ot != T::Float {
                return self.expr(ot, d, scope);
            }
        }
        self.expr(t, d, scope)
    }

    /// something that can stand after a prefix operator or cast without extra parentheses
    fn atom(&mut self, t: T, d: u32, scope: &[VarInfo]) -> String {
        if self.rng.chance(1, 2) {
            let l = self.leaf(t, scope);
            if l.starts_with('-') { format!("({})", l) } else { l }
        } else {
            format!("({})", self.expr(t, d, scope))
        }
    }

    /// a call of a pure built-in whose arguments and result have type `t` (or bool for the float predicates)
    fn builtin(&mut self, t: T, d: u32, scope: &[VarInfo]) -> Option<String> {
        let (names1, names2, names3): (&[&str], &[&str], &[&str]) = match t {
            T::Float => (
                &["abs", "sqrt", "sin", "cos", "floor", "ceil", "frac", "exp2", "log2", "saturate", "rsqrt", "trunc", "round", "rcp"],
                &["min", "max", "pow", "step", "fmod", "atan2"],
                &["clamp", "lerp", "smoothstep"],
            ),
            T::Int => (&["abs"], &["min", "max"], &["clamp"]),
            T::Uint => (&["countbits", "reversebits", "firstbitlow"], &["min", "max"], &["clamp"]),
            T::Bool => {
                if !self.opts.floats {
                    return None;
                }
                let f = *self.rng.pick(&["isnan", "isinf", "isfinite"]);
                return Some(format!("{}({})", f, self.expr(T::Float, d, scope)));
            }
            _ => return None,
        };
        Some(match self.rng.below(3) {
            0 => format!("{}({})", self.rng.pick(names1), self.expr(t, d, scope)),
            1 => format!("{}({}, {})", self.rng.pick(names2), self.expr(t, d, scope), self.expr(t, d, scope)),
            _ => format!("{}({}, {}, {})", self.rng.pick(names3), self.expr(t, d, scope), self.expr(t, d, scope), self.expr(t, d, scope)),
        })
    }

    /// ternary, comma, assignment expression, increment, call
    fn common_forms(&mut self, t: T, d: u32, scope: &[VarInfo]) -> String {
        if self.rng.chance(1, 6) && (t != T::Float || self.opts.floats) {
            if let Some(b) = self.builtin(t, d, scope) {
                return b;
            }
        }
        match self.rng.below(7) {
            0 | 1 => format!("({} ? {} : {})", self.expr(T::Bool, d, scope), self.expr(t, d, scope), self.expr(t, d, scope)),
            2 => format!("({}, {})", self.expr_any(d, scope), self.expr(t, d, scope)),
            3 => {
                let vs = self.vars_of(scope, t, true);
                if vs.is_empty() {
                    return self.leaf(t, scope);
                }
                let v = self.rng.pick(&vs).clone();
                let op = if t == T::Bool {
                    "="
                } else if t == T::Float {
                    *self.rng.pick(&["=", "+=", "-=", "*=", "/="])
                } else {
                    *self.rng.pick(&["=", "+=", "-=", "*=", "/=", "%=", "<<=", ">>=", "&=", "|=", "^="])
                };
                let rhs = if matches!(op, "%=" | "<<=" | ">>=" | "&=" | "|=" | "^=") { self.expr(t, d, scope) } else { self.operand(t, d, scope) };
                format!("({} {} {})", v, op, rhs)
            }
            4 => {
                let vs = self.vars_of(scope, t, true);
                if vs.is_empty() || t == T::Bool {
                    return self.leaf(t, scope);
                }
                let v = self.rng.pick(&vs).clone();
                match self.rng.below(4) {
                    0 => format!("(++{})", v),
                    1 => format!("(--{})", v),
                    2 => format!("({}++)", v),
                    _ => format!("({}--)", v),
                }
            }
            _ => match self.call(Some(t), d, scope) {
                Some(c) => c,
                None => self.leaf(t, scope),
            },
        }
    }

    fn expr_any(&mut self, d: u32, scope: &[VarInfo]) -> String {
        let t = self.pick_ty(true);
        self.expr(t, d, scope)
    }

    fn call(&mut self, ret: Option<T>, d: u32, scope: &[VarInfo]) -> Option<String> {
        if !self.opts.calls {
            return None;
        }
        let cands: Vec<FnSig> = self.funcs.iter().filter(|f| ret.map(|t| f.ret == t).unwrap_or(true)).cloned().collect();
        if cands.is_empty() {
            return None;
        }
        let f = self.rng.pick(&cands).clone();
        let mut args = Vec::new();
        let mut used: Vec<String> = Vec::new();
        for (_, dir, t) in &f.params {
            if *dir == 0 {
                args.push(self.expr(*t, d.min(1), scope));
            } else {
                // a distinct assignable local of exactly this type
                let vs: Vec<String> = self.vars_of(scope, *t, true).into_iter().filter(|v| !used.contains(v)).collect();
                if vs.is_empty() {
                    return None;
                }
                let v = self.rng.pick(&vs).clone();
                used.push(v.clone());
                args.push(v);
            }
        }
        Some(format!("{}({})", f.name, args.join(", ")))
    }

    fn stmt(&mut self, depth: u32, scope: &mut Vec<VarInfo>, in_loop: bool, ret: T, ind: &str, out: &mut String) {
        let d = self.opts.max_depth;
        let inner = format!("{}    ", ind);
        match self.rng.below(if depth == 0 { 7 } else { 16 }) {
            0 | 1 => {
                let t = self.pick_ty(true);
                let n = self.fresh("l");
                if self.rng.chance(1, 6) {
                    out.push_str(&format!("{}{} {};\n{}{} = {};\n", ind, tn(t), n, ind, n, self.expr(t, d, scope)));
                } else {
                    out.push_str(&format!("{}{} {} = {};\n", ind, tn(t), n, self.expr(t, d, scope)));
                }
                scope.push(VarInfo { name: n, ty: t, assignable: true });
            }
            2 | 3 => {
                let t = self.pick_ty(true);
                let vs = self.vars_of(scope, t, true);
                if let Some(v) = vs.first().map(|_| self.rng.pick(&vs).clone()) {
                    let op = if t == T::Bool || self.rng.chance(1, 2) {
                        "="
                    } else if t == T::Float {
                        *self.rng.pick(&["+=", "-=", "*=", "/="])
                    } else {
                        *self.rng.pick(&["+=", "-=", "*=", "/=", "%=", "<<=", ">>=", "&=", "|=", "^="])
                    };
                    let rhs = if matches!(op, "%=" | "<<=" | ">>=" | "&=" | "|=" | "^=") { self.expr(t, d, scope) } else { self.operand(t, d, scope) };
                    out.push_str(&format!("{}{} {} {};\n", ind, v, op, rhs));
                }
            }
            4 => {
                let t = *self.rng.pick(&NUM);
                let t = if t == T::Float && !self.opts.floats { T::Int } else { t };
                let vs = self.vars_of(scope, t, true);
                if let Some(v) = vs.first().map(|_| self.rng.pick(&vs).clone()) {
                    let s = match self.rng.below(4) {
                        0 => format!("{}++", v),
                        1 => format!("++{}", v),
                        2 => format!("{}--", v),
                        _ => format!("--{}", v),
                    };
                    out.push_str(&format!("{}{};\n", ind, s));
                }
            }
            5 => {
                if let Some(c) = self.call(None, 1, scope) {
                    out.push_str(&format!("{}{};\n", ind, c));
                }
            }
            6 => {
                if in_loop && self.rng.chance(1, 2) {
                    let kw = if self.rng.chance(1, 2) { "break" } else { "continue" };
                    out.push_str(&format!("{}if ({})\n{}{{\n{}{};\n{}}}\n", ind, self.expr(T::Bool, 1, scope), ind, inner, kw, ind));
                } else if ret != T::Void && self.rng.chance(1, 2) {
                    out.push_str(&format!(
                        "{}if ({})\n{}{{\n{}return {};\n{}}}\n",
                        ind,
                        self.expr(T::Bool, 1, scope),
                        ind,
                        inner,
                        self.expr(ret, d, scope),
                        ind
                    ));
                }
            }
            7 | 8 => {
                // either side is sometimes empty (`{ }`, `;`, `{ { } }`): the then-side one time in five, and then there is
                // always an else; conditions are often directly a comparison of floats (`expr(Bool)`, productions 0..2)
                let cond = match self.float_cmp(scope) {
                    Some(c) if self.rng.chance(1, 3) => c,
                    _ => self.expr(T::Bool, d, scope),
                };
                out.push_str(&format!("{}if ({})\n", ind, cond));
                let empty_then = self.rng.chance(1, 5);
                self.body(empty_then, depth - 1, scope, in_loop, ret, ind, out);
                if empty_then || self.rng.chance(1, 2) {
                    out.push_str(&format!("{}else\n", ind));
                    let empty_else = !empty_then && self.rng.chance(1, 5);
                    self.body(empty_else, depth - 1, scope, in_loop, ret, ind, out);
                }
            }
            9 | 10 => {
                let i = self.fresh("i");
                let n = self.rng.below(4);
                let mut sc = scope.clone();
                let t = if self.rng.chance(1, 3) { T::Uint } else { T::Int };
                let lim = if t == T::Uint { format!("{}u", n) } else { n.to_string() };
                match self.rng.below(4) {
                    0 => {
                        let j = self.fresh("j");
                        out.push_str(&format!("{}for ({} {} = 0, {} = {}; {} < {}; ++{})\n{}{{\n", ind, tn(t), i, j, self.expr(t, 1, scope), i, lim, i, ind));
                        sc.push(VarInfo { name: j, ty: t, assignable: true });
                    }
                    1 => {
                        out.push_str(&format!("{}{} {};\n{}for ({} = 0; {} < {}; {}++)\n{}{{\n", ind, tn(t), i, ind, i, i, lim, i, ind));
                        scope.push(VarInfo { name: i.clone(), ty: t, assignable: false });
                    }
                    2 => {
                        out.push_str(&format!("{}for ({} {} = 0; ; {} += 1)\n{}{{\n{}if ({} >= {})\n{}{{\n{}    break;\n{}}}\n", ind, tn(t), i, i, ind, inner, i, lim, inner, inner, inner));
                    }
                    _ => {
                        // the loop condition carries a second conjunct (often a comparison of floats) half of the time; the
                        // body is empty one time in six (`;` / `{ }`)
                        let extra = if self.rng.chance(1, 2) { format!(" && {}", self.expr(T::Bool, 1, scope)) } else { String::new() };
                        out.push_str(&format!("{}for ({} {} = 0; {} < {}{}; ++{})\n", ind, tn(t), i, i, lim, extra, i));
                        sc.push(VarInfo { name: i, ty: t, assignable: false });
                        let empty = self.rng.chance(1, 6);
                        self.body_in(empty, depth - 1, &mut sc, true, ret, ind, out);
                        return;
                    }
                }
                sc.push(VarInfo { name: i, ty: t, assignable: false });
                self.block(depth - 1, &mut sc, true, ret, &inner, out);
                out.push_str(&format!("{}}}\n", ind));
            }
            11 => {
                let w = self.fresh("w");
                let n = self.rng.below(4);
                let extra = if self.rng.chance(1, 3) { format!(" && {}", self.expr(T::Bool, 1, scope)) } else { String::new() };
                out.push_str(&format!("{}int {} = 0;\n{}while ({} < {}{})\n{}{{\n{}{}++;\n", ind, w, ind, w, n, extra, ind, inner, w));
                scope.push(VarInfo { name: w, ty: T::Int, assignable: false });
                self.block(depth - 1, &mut scope.clone(), true, ret, &inner, out);
                out.push_str(&format!("{}}}\n", ind));
            }
            12 => {
                let w = self.fresh("c");
                let n = self.rng.below(3);
                out.push_str(&format!("{}int {} = 0;\n{}do\n{}{{\n{}{} += 1;\n", ind, w, ind, ind, inner, w));
                scope.push(VarInfo { name: w.clone(), ty: T::Int, assignable: false });
                self.block(depth - 1, &mut scope.clone(), true, ret, &inner, out);
                let extra = if self.rng.chance(1, 3) { format!(" && {}", self.expr(T::Bool, 1, scope)) } else { String::new() };
                out.push_str(&format!("{}}}\n{}while ({} < {}{});\n", ind, ind, w, n, extra));
            }
            13 | 14 => {
                // switch: distinct labels (some negative, some consecutive), fall-through, break, default anywhere
                let t = if self.rng.chance(1, 4) { T::Uint } else { T::Int };
                // the controlling expression mentions a variable (a pure literal expression keeps the IntLiteral type)
                let vs = self.vars_of(scope, t, false);
                if vs.is_empty() {
                    return;
                }
                let v = self.rng.pick(&vs).clone();
                let scrut = match self.rng.below(4) {
                    0 => v,
                    1 => format!("{} & 3", v),
                    2 => format!("{} - {}", v, self.expr(t, 1, scope)),
                    _ => format!("{} % 4", v),
                };
                out.push_str(&format!("{}switch ({})\n{}{{\n", ind, scrut, ind));
                let pool: Vec<&str> = if t == T::Uint { vec!["0u", "1u", "2u", "3u", "7u", "4294967295u"] } else { vec!["0", "1", "2", "3", "-1", "-7", "2147483647", "-2147483648"] };
                let mut used: Vec<&str> = Vec::new();
                let groups = 1 + self.rng.below(3);
                let default_at = if self.rng.chance(2, 3) { Some(self.rng.below(groups)) } else { None };
                let in2 = format!("{}    ", inner);
                for g in 0..groups {
                    let nl = 1 + self.rng.below(2);
                    let mut any = false;
                    for _ in 0..nl {
                        let c = *self.rng.pick(&pool);
                        if !used.contains(&c) {
                            used.push(c);
                            out.push_str(&format!("{}case {}:\n", inner, c));
                            any = true;
                        }
                    }
                    if default_at == Some(g) {
                        out.push_str(&format!("{}default:\n", inner));
                        any = true;
                    }
                    if !any {
                        continue;
                    }
                    // the statements of the group never declare variables that later groups could see uninitialised
                    let bare: Vec<String> = [T::Int, T::Uint, T::Bool].iter().flat_map(|t| self.vars_of(scope, *t, true).into_iter().map(move |v| (v, *t))).map(|(v, t)| format!("{}\u{1}{}", v, t.name())).collect();
                    if !bare.is_empty() && self.rng.chance(1, 2) {
                        // bare statements directly after the label(s): the label owns the first one
                        let k = 1 + self.rng.below(2);
                        for _ in 0..k {
                            let pick = self.rng.pick(&bare).clone();
                            let (v, tn_) = pick.split_once('\u{1}').unwrap();
                            let t2 = T::parse(tn_).unwrap_or(T::Int);
                            out.push_str(&format!("{}{} = {};\n", in2, v, self.expr(t2, 1, scope)));
                        }
                    } else {
                        let mut sc = scope.clone();
                        out.push_str(&format!("{}{{\n", in2));
                        self.block(depth - 1, &mut sc, in_loop, ret, &format!("{}    ", in2), out);
                        out.push_str(&format!("{}}}\n", in2));
                    }
                    match self.rng.below(4) {
                        0 => {} // fall through
                        1 if in_loop => out.push_str(&format!("{}continue;\n", in2)),
                        _ => out.push_str(&format!("{}break;\n", in2)),
                    }
                }
                out.push_str(&format!("{}}}\n", ind));
            }
            _ => {
                out.push_str(&format!("{}{{\n", ind));
                self.block(depth - 1, &mut scope.clone(), in_loop, ret, &inner, out);
                out.push_str(&format!("{}}}\n", ind));
            }
        }
    }

    /// the body of an `if` / `else` / loop: a block in braces, or — when `empty` — one of `{ }`, `;`, `{ { } }`, `{ ; }`
    fn body(&mut self, empty: bool, depth: u32, scope: &[VarInfo], in_loop: bool, ret: T, ind: &str, out: &mut String) {
        self.body_in(empty, depth, &mut scope.to_vec(), in_loop, ret, ind, out)
    }

    fn body_in(&mut self, empty: bool, depth: u32, scope: &mut Vec<VarInfo>, in_loop: bool, ret: T, ind: &str, out: &mut String) {
        let inner = format!("{}    ", ind);
        if empty {
            match self.rng.below(4) {
                0 => out.push_str(&format!("{}{{\n{}}}\n", ind, ind)),
                1 => out.push_str(&format!("{};\n", inner)),
                2 => out.push_str(&format!("{}{{\n{}{{\n{}}}\n{}}}\n", ind, inner, inner, ind)),
                _ => out.push_str(&format!("{}{{\n{};\n{}}}\n", ind, inner, ind)),
            }
        } else {
            out.push_str(&format!("{}{{\n", ind));
            self.block(depth, scope, in_loop, ret, &inner, out);
            out.push_str(&format!("{}}}\n", ind));
        }
    }

    fn block(&mut self, depth: u32, scope: &mut Vec<VarInfo>, in_loop: bool, ret: T, ind: &str, out: &mut String) {
        let n = 1 + self.rng.below(3);
        for _ in 0..n {
            self.stmt(depth, scope, in_loop, ret, ind, out);
        }
    }

    pub fn function(&mut self, out: &mut String) {
        let name = self.fresh("fn");
        let ret = if self.rng.chance(1, 8) { T::Void } else { self.pick_ty(true) };
        let np = self.rng.below(4);
        let mut params = Vec::new();
        let mut scope = Vec::new();
        let mut decl = Vec::new();
        let mut pre = String::new();
        for _ in 0..np {
            let t = self.pick_ty(true);
            let dir = match self.rng.below(5) {
                0 => 1u8,
                1 => 2u8,
                _ => 0u8,
            };
            let n = self.fresh("p");
            decl.push(format!("{}{} {}", ["", "out ", "inout "][dir as usize], tn(t), n));
            params.push((n.clone(), dir, t));
            if dir == 1 {
                // an out parameter is written before anything reads it
                pre.push_str(&format!("    {} = {};\n", n, self.literal(t)));
            }
            scope.push(VarInfo { name: n, ty: t, assignable: true });
        }
        out.push_str(&format!("{} {}({})\n{{\n", tn(ret), name, decl.join(", ")));
        out.push_str(&pre);
        let n = 2 + self.rng.below(4);
        for _ in 0..n {
            self.stmt(2, &mut scope, false, ret, "    ", out);
        }
        if ret != T::Void {
            out.push_str(&format!("    return {};\n", self.expr(ret, self.opts.max_depth, &scope)));
        }
        out.push_str("}\n\n");
        self.funcs.push(FnSig { name, ret, params });
    }

    pub fn program(&mut self) -> String {
        let mut out = String::new();
        let ng = self.rng.below(3);
        for _ in 0..ng {
            let t = self.pick_ty(true);
            let n = self.fresh("g");
            let is_const = self.rng.chance(1, 4);
            out.push_str(&format!("static {}{} {} = {};\n", if is_const { "const " } else { "" }, tn(t), n, self.literal(t)));
            self.globals.push(VarInfo { name: n, ty: t, assignable: !is_const });
        }
        out.push('\n');
        let nf = 1 + self.rng.below(3);
        for _ in 0..nf {
            self.function(&mut out);
        }
        out
    }
}

import RsslVerif.Model.MslDup
/-!
# C02 — what "evaluating an operand once" means, for every meaning of calls and operators

A deliberately weak reading of the typed IR, enough to say what repetition of an operand can change: a small set of
constructors (`strictPure`) evaluates its operand fields left to right and then computes a value from its payload, the
operand values and the store *without writing*; every other constructor (operators — assignments, `++` —, calls, `?:`,
sequences) is an arbitrary function of its fields and the store (`Interp.other`: it may run its operands in any order,
any number of times, and write anything).  The theorems of `Thm/C02Dup` hold for every `Interp`.
-/
namespace RsslVerif.Spec.MslDup
open RsslVerif.Gen.MslDupSites RsslVerif.Model.MslDup

/-- constructors of `ir::Expression` whose own step has no effect and runs every operand exactly once: leaves, member /
element / component selection, conversions, numeric constructors, `sizeof` -/
def strictPure : List String :=
  ["Literal", "Variable", "MemberVariable", "Global", "ConstantVariable", "EnumValue", "Swizzle", "MatrixSwizzle",
   "ArraySubscript", "StructMember", "ObjectMember", "Cast", "SizeOf", "Constructor"]

structure Interp (Val Store : Type) where
  /-- a strict pure constructor's step: payload, operand values, the store (read only); `none` = undefined -/
  step : String → List Nat → List Val → Store → Option Val
  /-- any other constructor -/
  other : String → DFields → Store → Option (Val × Store)

variable {Val Store : Type}

mutual
def eval (I : Interp Val Store) : DExpr → Store → Option (Val × Store)
  | .node c fs, σ =>
    if strictPure.contains c then
      match evalFields I fs σ with
      | none => none
      | some (vs, σ1) => match I.step c fs.payloads vs σ1 with
        | none => none
        | some v => some (v, σ1)
    else I.other c fs σ
def evalFields (I : Interp Val Store) : DFields → Store → Option (List Val × Store)
  | .nil, σ => some ([], σ)
  | .payload _ r, σ => evalFields I r σ
  | .one e r, σ =>
    match eval I e σ with
    | none => none
    | some (v, σ1) => match evalFields I r σ1 with
      | none => none
      | some (vs, σ2) => some (v :: vs, σ2)
  | .many es r, σ =>
    match evalList I es σ with
    | none => none
    | some (ws, σ1) => match evalFields I r σ1 with
      | none => none
      | some (vs, σ2) => some (ws ++ vs, σ2)
def evalList (I : Interp Val Store) : DExprs → Store → Option (List Val × Store)
  | .nil, σ => some ([], σ)
  | .cons e r, σ =>
    match eval I e σ with
    | none => none
    | some (v, σ1) => match evalList I r σ1 with
      | none => none
      | some (vs, σ2) => some (v :: vs, σ2)
end

/-- the operand written `n` times in a braced list: evaluated `n` times, left to right -/
def evalRepeat (I : Interp Val Store) (e : DExpr) : Nat → Store → Option (List Val × Store)
  | 0, σ => some ([], σ)
  | n + 1, σ =>
    match eval I e σ with
    | none => none
    | some (v, σ1) => match evalRepeat I e n σ1 with
      | none => none
      | some (vs, σ2) => some (v :: vs, σ2)

def ctorOf (c : String) : Option Ctor := irExpressionCtors.find? (fun k => k.name == c)

mutual
/-- the tree is an `ir::Expression`: every node is a constructor of the enum with its number of fields, expressions
exactly at the expression-typed fields -/
def wf : DExpr → Bool
  | .node c fs =>
    match ctorOf c with
    | none => false
    | some k => k.arity == fs.length && wfFields k.exprFields 0 fs
def wfFields (exprFields : List Nat) (i : Nat) : DFields → Bool
  | .nil => true
  | .payload _ r => (!exprFields.contains i) && wfFields exprFields (i + 1) r
  | .one e r => exprFields.contains i && wf e && wfFields exprFields (i + 1) r
  | .many es r => exprFields.contains i && wfList es && wfFields exprFields (i + 1) r
def wfList : DExprs → Bool
  | .nil => true
  | .cons e r => wf e && wfList r
end

/-- a side-effect test (as a table) is sound: every constructor it accepts is strict and pure, and it recurses into
EVERY expression-typed field of that constructor -/
def Sound (rows : List GuardRow) : Bool :=
  rows.all (fun r => strictPure.contains r.ctor &&
    match ctorOf r.ctor with
    | none => false
    | some k => k.arity == r.arity && k.exprFields.all (fun j => r.recursed.contains j))

end RsslVerif.Spec.MslDup

import RsslVerif.Model.OverloadT
/-!
# Calls interleaved with declarations

One translation unit is a *sequence*: declarations of overloads of one name, definitions of functions declared before,
and call sites, in source order.  The type checker works through it once (`parse_rootdefinition_*`), and what a call
can see is what has been *inserted* by then:

* `parse_function` (functions.rs): a declaration that matches no earlier one is registered and pushed onto the symbol
  vector of the current scope (`add_function_to_current_scope` → `insert_function_in_scope`: `push`); a definition of a
  function declared before takes the id of the declaration (`check_existing_functions` returns `Some(id)`) and inserts
  nothing; the body of an ordinary function is type checked right there (`parse_function_body`), the body of a
  template is not (its instantiations are);
* `find_identifier` (scopes.rs): the innermost scope that knows the name hands over its whole vector — an unqualified
  call inside `namespace N` sees N's overloads as soon as N has one and the root's before that; `N::f` sees N's, `::f`
  the root's;
* `parse_rootdefinition_struct` (structs.rs): every method is registered before the first method body is type
  checked, so each call of a method — from a sibling method wherever it stands in the struct, or from outside — sees
  all of them (two structs with methods of one name: each call sees the methods of its own struct);
* intrinsics are in the root scope's vector from the start; user overloads of the same name are pushed behind them;
* `write_function`: a call that selects a template instantiation builds its body at that moment
  (`build_function_template_body`: only `if get_function_implementation(new_id).is_none()`), with the scope set to the
  scope the template was declared in — a call *inside* a template body is therefore resolved once per instance, when
  the first call of that instance is type checked, against what that scope holds at that moment; a later call of the
  same instance resolves nothing again.

`find_function_type` itself reads the overload vector, the arguments, and the function / type registries; nothing else
of the `Context` (fingerprinted: `Gen.ResolveShape.resolutionContextUses`).  So the state below is *all* that reaches
from one call site to the next: the two symbol vectors, the helper templates declared so far, and which of their
instances have a body.  (The instantiation registry `find_instantiation` of the *candidates* is a cache of
`substParams`, a function of its key.)
-/
namespace RsslVerif.Model.Overload
open RsslVerif.Gen.RankTable RsslVerif.Model.Conv

/-- where the overloads live: free functions (root scope and `namespace N`), methods (of `struct S` and `struct S2`), or
    the root scope where the compiler's own overloads of the name come first -/
inductive SeqPath where | free | method | intrinsic
  deriving DecidableEq, Repr

/-- a symbol of a scope's vector for the name: `ScopeSymbol::Function`, `Type` (a struct, a typedef, the type of an enum),
    `ConstantBuffer`, `Namespace`, `EnumScope` — the kinds that may stand in one vector with a function
    (`find_identifier_in_scope`'s `debug_assert!`; every other kind is a value and refuses / is refused by a function of
    the name when it is inserted) -/
inductive Sym where
  | fn (c : TCand)
  | type
  | cbuffer
  | namespace
  | enumScope
  deriving DecidableEq, Repr

def Sym.isFunction : Sym → Bool
  | .fn _ => true
  | .type => false
  | .cbuffer => false
  | .namespace => false
  | .enumScope => false

def Sym.fn? : Sym → Option TCand
  | .fn c => some c
  | .type => none
  | .cbuffer => none
  | .namespace => none
  | .enumScope => none

def Sym.isType : Sym → Bool
  | .type => true
  | .fn _ => false
  | .cbuffer => false
  | .namespace => false
  | .enumScope => false

/-- what declares a symbol of the name that is not a function -/
inductive OtherKind where | struct | enum | typedef | cbuffer | namespace
  deriving DecidableEq, Repr

/-- `register_struct` / `register_typedef`: `Type`; `begin_enum`: `EnumScope` then `Type`; `insert_cbuffer`:
    `ConstantBuffer`; `enter_namespace`: `Namespace` -/
def OtherKind.syms : OtherKind → List Sym
  | .struct => [.type]
  | .typedef => [.type]
  | .enum => [.enumScope, .type]
  | .cbuffer => [.cbuffer]
  | .namespace => [.namespace]

def OtherKind.isType : OtherKind → Bool
  | .struct => true
  | .typedef => true
  | .enum => true
  | _ => false

/-- the `for symbol in symbols` loop of `find_identifier_in_scope` over such a vector: a function is pushed onto
    `overloads`, the four other kinds fall through their empty arms; the loop has no `break` and none of these arms
    returns, so it visits every symbol -/
def gatherLoop (overloads : List TCand) : List Sym → List TCand
  | [] => overloads
  | .fn c :: ss => gatherLoop (overloads ++ [c]) ss
  | .type :: ss => gatherLoop overloads ss
  | .cbuffer :: ss => gatherLoop overloads ss
  | .namespace :: ss => gatherLoop overloads ss
  | .enumScope :: ss => gatherLoop overloads ss

/-- what `find_identifier_in_scope` answers for the name -/
inductive Found where
  /-- `VariableExpression::Function(UnresolvedFunction { overloads })` -/
  | functions (v : List TCand)
  /-- `VariableExpression::Type`: the second loop, reached only with no overload gathered -/
  | type
  /-- `None`: the caller goes on with the parent scope -/
  | nothing
  deriving DecidableEq, Repr

/-- `find_identifier_in_scope` (no variable, not a struct scope): gather, `if !overloads.is_empty()` the functions, else
    the first `Type` symbol, else `None` -/
def findInScope (syms : List Sym) : Found :=
  let overloads := gatherLoop [] syms
  if !overloads.isEmpty then .functions overloads
  else if syms.any Sym.isType then .type
  else .nothing

/-- `find_identifier`: the scopes the lookup walks, innermost first; the first one that answers decides -/
def lookupChain : List (List Sym) → Found
  | [] => .nothing
  | s :: rest =>
    match findInScope s with
    | .nothing => lookupChain rest
    | found => found

inductive SeqItem where
  /-- a declaration of an overload (scope 0 = root scope / `struct S`, 1 = `namespace N` / `struct S2`) -/
  | decl (scope : Nat) (c : TCand)
  /-- the definition of an ordinary function declared earlier -/
  | define (id : Nat)
  /-- a later declaration (prototype or definition) of the ordinary function `id` declared earlier whose parameters
      from `nd` on carry default values - possibly other ones than in the first declaration.  `check_existing_functions`
      compares `param_types` only and hands back the first declaration's id: the later signature, and with it its
      `non_default_params`, is dropped -/
  | redecl (id : Nat) (nd : Nat)
  /-- a function whose body calls the name: lookup mode (0 `f(..)` at the root, 1 `N::f(..)` at the root, 2 `f(..)`
      inside `namespace N`, 3 `::f(..)` inside `namespace N`; methods: 0 / 1 a call of `S::f` from a sibling method /
      from outside, 2 / 3 the same for `S2::f`), explicit template arguments, argument types -/
  | site (mode : Nat) (explicit : List TArg) (args : List ETy)
  /-- `template<typename Z> void h_j(Z z) { f(args) }` -/
  | helper (j : Nat) (mode : Nat) (args : List ETy)
  /-- a call `h_j(z)` with `Z` deduced as type number `z` -/
  | trigger (j : Nat) (z : Nat)
  /-- a declaration of something that is not a function under the name of the overload set -/
  | other (scope : Nat) (kind : OtherKind)
  deriving DecidableEq, Repr

/-- what a call site (or a call that may instantiate a helper) shows -/
inductive SiteObs where
  | verdict (o : CallOutcome)
  /-- `UnknownIdentifier`: no scope the lookup reaches knows the name -/
  | noname
  /-- the helper instance has a body already: nothing is resolved -/
  | cached
  /-- the innermost scope that knows the name knows it as a type (no function of the name there): the call expression
      is handed to `parse_expr_constructor`, no overload is resolved -/
  | isType
  deriving DecidableEq, Repr

def SiteObs.normalize : SiteObs → SiteObs
  | .verdict o => .verdict o.normalize
  | o => o

/-- what the type checker holds when it reaches an item -/
structure SeqState where
  /-- symbol vector of the name in the root scope (for methods: `struct_registry[..].methods` of that name) -/
  root : List Sym := []
  /-- symbol vector of the name in `namespace N` -/
  ns : List Sym := []
  /-- helper templates declared so far: number, lookup mode, argument types of the call in the body -/
  helpers : List (Nat × Nat × List ETy) := []
  /-- helper instances that have an implementation -/
  built : List (Nat × Nat) := []
  deriving Repr

/-- all declarations of a sequence, in order -/
def allDeclared : List SeqItem → List TCand
  | [] => []
  | .decl _ c :: is => c :: allDeclared is
  | _ :: is => allDeclared is

/-- the declarations of one scope, in order -/
def declaredIn (scope : Nat) : List SeqItem → List TCand
  | [] => []
  | .decl s c :: is => if s = scope then c :: declaredIn scope is else declaredIn scope is
  | _ :: is => declaredIn scope is

/-- a struct registers all its methods before it type checks the first body -/
def SeqState.init (p : SeqPath) (items : List SeqItem) : SeqState :=
  match p with
  | .method => { root := (declaredIn 0 items).map .fn, ns := (declaredIn 1 items).map .fn }
  | _ => {}

/-- `find_identifier` on the name: the overload vector handed to `find_function_type`, or the type the name denotes,
    or nothing = unknown identifier -/
def SeqState.visible (p : SeqPath) (st : SeqState) (mode : Nat) : Found :=
  match p with
  | .free =>
    match mode with
    | 1 => lookupChain [st.ns]
    | 2 => lookupChain [st.ns, st.root]
    | _ => lookupChain [st.root]
  | .method =>
    match mode with
    | 2 => lookupChain [st.ns]
    | 3 => lookupChain [st.ns]
    | _ => lookupChain [st.root]
  | .intrinsic => lookupChain [st.root]

/-- `write_function` / `write_method` at a call that sees `v` -/
def siteObs (v : Found) (explicit : List TArg) (args : List ETy) : SiteObs :=
  match v with
  | .nothing => .noname
  | .type => .isType
  | .functions cands => .verdict (callT cands explicit args)

def lookupHelper (j : Nat) : List (Nat × Nat × List ETy) → Option (Nat × List ETy)
  | [] => none
  | (j', m, a) :: hs => if j' = j then some (m, a) else lookupHelper j hs

def isAccepted : SiteObs → Bool
  | .verdict (.accepted _) => true
  | _ => false

/-- one item: the new state and what the item shows (only call sites and triggers show something).  A call that is
    refused ends a real compilation; the correspondence leaves such a call out of the program and goes on, so it
    changes nothing here either. -/
def seqStep (p : SeqPath) (st : SeqState) : SeqItem → SeqState × Option SiteObs
  | .decl s c =>
    match p with
    | .method => (st, none)   -- registered before the bodies
    | .intrinsic => ({ st with root := st.root ++ [.fn c] }, none)
    | .free =>
      if s = 0 then ({ st with root := st.root ++ [.fn c] }, none)
      else if s = 1 then ({ st with ns := st.ns ++ [.fn c] }, none)
      else (st, none)
  | .other s k =>
    match p with
    | .method => (st, none)   -- a struct body declares no such thing
    | .intrinsic => ({ st with root := st.root ++ k.syms }, none)
    | .free =>
      if s = 0 then ({ st with root := st.root ++ k.syms }, none)
      else if s = 1 then ({ st with ns := st.ns ++ k.syms }, none)
      else (st, none)
  | .define _ => (st, none)
  | .redecl _ _ => (st, none)
  | .site m x a => (st, some (siteObs (st.visible p m) x a))
  | .helper j m a => ({ st with helpers := st.helpers ++ [(j, m, a)] }, none)
  | .trigger j z =>
    match lookupHelper j st.helpers with
    | none => (st, some .noname)
    | some (m, a) =>
      if st.built.contains (j, z) then (st, some .cached)
      else
        let o := siteObs (st.visible p m) [] a
        (if isAccepted o then { st with built := (j, z) :: st.built } else st, some o)

/-- the state after a stretch of the sequence -/
def stateAfter (p : SeqPath) (st : SeqState) : List SeqItem → SeqState
  | [] => st
  | i :: is => stateAfter p (seqStep p st i).1 is

/-- the observations of a stretch, each with the place of its item in the sequence (`k` = place of the first item) -/
def runFrom (p : SeqPath) (st : SeqState) (k : Nat) : List SeqItem → List (Nat × SiteObs)
  | [] => []
  | i :: is =>
    match seqStep p st i with
    | (st', some o) => (k, o) :: runFrom p st' (k + 1) is
    | (st', none) => runFrom p st' (k + 1) is

/-- the whole sequence -/
def runSeq (p : SeqPath) (items : List SeqItem) : List (Nat × SiteObs) :=
  runFrom p (SeqState.init p items) 0 items

/-! ## a function *template* declared more than once

`check_existing_functions` recognises an earlier declaration by `existing_signature.param_types == signature.param_types`.
Every declaration of a template registers its own template type parameters, so two declarations of
`template<typename T> R f(T a)` have different `param_types` (another `TypeId` for `T`): the later one - prototype or
definition - is **not** combined with the earlier one but registered and pushed as one more overload.  A template whose
parameter types mention no template parameter (`template<typename T> R f(int a)`) is combined like an ordinary function. -/

def PTy.mentionsParam : PTy → Bool
  | .conc _ => false
  | _ => true

def findDecl (id : Nat) : List SeqItem → Option (Nat × TCand)
  | [] => none
  | .decl s c :: is => if c.id = id then some (s, c) else findDecl id is
  | _ :: is => findDecl id is

/-- the unit as the type checker takes it: a later declaration of a function whose parameter types mention a template
    parameter is a declaration of a further overload (with the later declaration's default arguments); every other
    later declaration stays a `redecl` (which changes nothing) -/
def elaborate (items : List SeqItem) : List SeqItem :=
  items.map fun i =>
    match i with
    | .redecl id nd =>
      match findDecl id items with
      | some (s, c) => if c.params.any (fun q => q.pat.mentionsParam) then .decl s { c with nonDefault := nd } else i
      | none => i
    | _ => i

/-! ## the one piece of state a resolution leaves behind: the instantiation registry

`find_overload_casts` turns a template candidate into a concrete signature with `build_function_template_signature` /
`build_intrinsic_template`, and those look first whether the function registry already holds an instantiation of that
template for those arguments (`find_instantiation(id, args)`: `parent_id == id && template_args == args`); only a
*successful* instantiation is registered.  The registry lives in the module for the whole compilation, so a later call
site — after more overloads were declared — meets the instantiations earlier call sites made.  The walk below threads
that registry through every resolution; `Thm.C16.registry_is_transparent` proves it changes no verdict. -/

/-- the function registry's instantiations: (template id, template arguments) ↦ parameter list of the instance -/
abbrev InstReg := List ((Nat × List TArg) × List Param)

/-- `FunctionRegistry::find_instantiation` -/
def InstReg.find (id : Nat) (targs : List TArg) : InstReg → Option (List Param)
  | [] => none
  | ((i, t), ps) :: rest => if i = id ∧ t = targs then some ps else InstReg.find id targs rest

/-- `build_function_template_signature` / `build_intrinsic_template`: an instantiation found in the registry is
    returned as it is, else the signature is substituted and, if that succeeds, registered -/
def buildSig (r : InstReg) (c : TCand) (targs : List TArg) : Except String (Option (List Param)) × InstReg :=
  match r.find c.id targs with
  | some ps => (.ok (some ps), r)
  | none =>
    match substParams targs c.params with
    | .ok (some ps) => (.ok (some ps), r ++ [((c.id, targs), ps)])
    | other => (other, r)

/-- the template half of `find_overload_casts` with the registry -/
def TCand.instR (r : InstReg) (c : TCand) (explicit : List TArg) (args : List ETy) :
    Except String (Option (List Param)) × InstReg :=
  if c.tkinds.isEmpty then (c.inst explicit args, r)
  else
    match c.targs explicit args with
    | none => (.ok none, r)
    | some targs => buildSig r c targs

/-- first loop of `find_function_type` with the registry threaded through the candidates in declaration order -/
def viableCastsR (explicit : List TArg) (args : List ETy) (r : InstReg) :
    List TCand → Except String (List (Nat × List Conversion)) × InstReg
  | [] => (.ok [], r)
  | c :: cs =>
    if args.length ≤ c.params.length ∧ c.nonDefault ≤ args.length then
      match c.instR r explicit args with
      | (.error e, r') => (.error e, r')
      | (.ok none, r') => viableCastsR explicit args r' cs
      | (.ok (some ps), r') =>
        match zipFind ps args with
        | .error e => (.error e, r')
        | .ok x =>
          match viableCastsR explicit args r' cs with
          | (.error e, r'') => (.error e, r'')
          | (.ok rest, r'') => (.ok (match x with | some y => (c.id, y) :: rest | none => rest), r'')
    else viableCastsR explicit args r cs

/-- `write_function` / `write_method` with the registry -/
def callTR (r : InstReg) (cands : List TCand) (explicit : List TArg) (args : List ETy) : CallOutcome × InstReg :=
  let (casts, r') := viableCastsR explicit args r cands
  (finishCall cands explicit args (resolveCasts casts), r')

def siteObsR (r : InstReg) (v : Found) (explicit : List TArg) (args : List ETy) : SiteObs × InstReg :=
  match v with
  | .nothing => (.noname, r)
  | .type => (.isType, r)
  | .functions cands => let (o, r') := callTR r cands explicit args; (.verdict o, r')

/-- `seqStep` with the registry -/
def seqStepR (p : SeqPath) (st : SeqState) (r : InstReg) : SeqItem → SeqState × InstReg × Option SiteObs
  | .site m x a => let (o, r') := siteObsR r (st.visible p m) x a; (st, r', some o)
  | .trigger j z =>
    match lookupHelper j st.helpers with
    | none => (st, r, some .noname)
    | some (m, a) =>
      if st.built.contains (j, z) then (st, r, some .cached)
      else
        let (o, r') := siteObsR r (st.visible p m) [] a
        (if isAccepted o then { st with built := (j, z) :: st.built } else st, r', some o)
  | i => ((seqStep p st i).1, r, (seqStep p st i).2)

def runFromR (p : SeqPath) (st : SeqState) (r : InstReg) (k : Nat) : List SeqItem → List (Nat × SiteObs)
  | [] => []
  | i :: is =>
    match seqStepR p st r i with
    | (st', r', some o) => (k, o) :: runFromR p st' r' (k + 1) is
    | (st', r', none) => runFromR p st' r' (k + 1) is

/-- the whole sequence, the registry empty at the start -/
def runSeqR (p : SeqPath) (items : List SeqItem) : List (Nat × SiteObs) :=
  runFromR p (SeqState.init p items) [] 0 items

end RsslVerif.Model.Overload
